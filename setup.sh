#!/bin/sh
# Build the whole harness once, offline, from files on disk (path deps on /repo).
# One package at a time: each check later runs `cargo build -p <crate>` and must find the same
# feature resolution already built.
set -e
cd /verif/harness
export CARGO_NET_OFFLINE=true
unset RUSTFLAGS CARGO_TARGET_DIR
for p in l1base l1rec l1conn l2; do
  cargo build -q -p $p 2>&1 | tail -3
done
