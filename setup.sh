#!/bin/sh
# Build the whole harness once, offline, from files on disk (path deps on /repo).
set -e
cd /verif/harness
export CARGO_NET_OFFLINE=true
unset RUSTFLAGS CARGO_TARGET_DIR
cargo build --workspace 2>&1 | tail -3
