//! l1base: runtime monitors; usage: l1base <property> --seed S --tier quick|thorough --shard i --shards n [--budget N] --out frag.json [--replay file]
mod c03;
mod c05;
mod c18;
mod codec_gen;
mod codec_ref;

use vcore::{Args, Report};

fn main() {
    let args = Args::parse();
    let prop = args.pos.first().cloned().unwrap_or_default();
    vcore::panics::install(!args.flag("loud"));
    vcore::crash::arm_from_args(&args);
    let mut rep = Report::new(&prop.to_uppercase(), args.seed());
    match prop.as_str() {
        "c03" => c03::run(&args, &mut rep),
        "c05" => c05::run(&args, &mut rep),
        "c18" => c18::run(&args, &mut rep),
        other => {
            eprintln!("unknown property {other}");
            std::process::exit(2);
        }
    }
    rep.finish(args.get("out"));
}
