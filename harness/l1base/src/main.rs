//! l1base: runtime monitors; usage: l1base <property> --seed S --tier quick|thorough --shard i --shards n [--budget N] --out frag.json [--replay file]
mod c03;
mod c05;
mod c18;
mod codec_gen;
mod codec_ref;

use vcore::{Args, Report};

fn main() {
    let args = Args::parse();
    let prop = args.pos.first().cloned().unwrap_or_default();
    vcore::panics::install(!args.flag("loud"));
    vcore::crash::arm_from_args(&args);
    let mut rep = Report::new(&prop.to_uppercase(), args.seed());
    // a panic that escapes the monitor's own guards (e.g. out of a Drop of a library type) still yields a fragment
    vcore::guarded(&mut rep, &args, |rep| {
        match prop.as_str() {
            "c03" => c03::run(&args, rep),
            "c05" => c05::run(&args, rep),
            "c18" => c18::run(&args, rep),
            other => {
                eprintln!("unknown property {other}");
                std::process::exit(2);
            }
        }
    });
    rep.finish(args.get("out"));
}
