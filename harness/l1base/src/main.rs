fn main() {}
