//! C05 — every encodable value decodes back to itself, in the size it declared.
//!
//! For every generated value v (see codec_gen.rs: exhaustive boundary enumeration + seeded
//! random sampling of the same generators):
//!   size      bytes written by the real encoder == `encoding_size()` (+ data length for the
//!             data-bearing frames) and `encoding_size() <= max_encoding_size()`
//!   roundtrip the real decoder, applied to the written bytes in every packet type RFC 9000
//!             Table 3 permits, returns a value equal to v, the same frame type, and
//!   consumed  consumes exactly the bytes written (also when other bytes follow)
//!   wrongtype in every other packet type it returns `WrongType`
//!   package   dumping v through the real `Package` impl into a real `PacketWriter` with exactly
//!             `encoding_size()` bytes left succeeds and writes the same bytes; with one byte less
//!             it refuses with `Signals::CONGESTION` and writes nothing; never panics
//!   fit       the production sizing sequences of CRYPTO / STREAM frames (estimate_max_capacity,
//!             encoding_strategy, pre-padding, dump) never overflow the packet and decode back
//!   packet    a packet assembled by `PacketWriter` from a header and frames is framed back by
//!             `PacketReader` + `FrameReader` into the same header fields and frames
use bytes::{BufMut, Bytes, BytesMut};
use qbase::{
    cid::{ConnectionId, WriteConnectionId, be_connection_id, be_connection_id_with_len},
    error::ErrorKind,
    frame::{
        io::{WriteFrameType, be_frame},
        *,
    },
    net::{
        WriteSocketAddr,
        addr::{EndpointAddr, WriteEndpointAddr, be_endpoint_addr},
        be_socket_addr,
        route::{Link, WriteLink, be_link},
        tx::Signals,
    },
    packet::{
        AssemblePacket, DataHeader, GetDcid, GetScid, GetType, KeyPhaseBit, OneRttHeader, Package, Packet, PacketContent, PacketNumber, PacketReader,
        PacketWriter, WritePacketNumber,
        header::{EncodeHeader, Header, LongHeaderBuilder, io::WriteHeader, io::be_header},
        keys::DirectionalKeys,
        long, take_pn_len,
        r#type::io::be_packet_type,
    },
    param::{
        ClientParameters, ParameterId, ServerParameters, WriteParameterId, be_parameter_value, be_raw_parameter,
        preferred_address::{WirtePreferredAddress, be_preferred_address},
    },
    role::Role,
    sid::{StreamId, WriteStreamId, be_streamid},
    token::{WriteResetToken, be_reset_token},
    varint::{EncodeBytes, VarInt, WriteVarInt, be_varint},
};
use serde_json::{Value, json};
use std::sync::Arc;
use vcore::{Args, Report, panics::catch};

use crate::{
    codec_gen::{self as g, FRAME_KINDS, HeaderCase, PKT_NAMES, Src, vi},
    codec_ref,
};

pub struct Fail {
    pub sig: String,
    pub what: String,
}

fn fail(out: &mut Vec<Fail>, sig: String, what: String) {
    out.push(Fail { sig: format!("C05.{sig}"), what });
}

fn panic_loc(p: &vcore::panics::PanicRecord) -> String {
    let l = vcore::panics::short_location(&p.location);
    match l.find("registry/src/") {
        Some(i) => l[i + 13..].splitn(2, '/').nth(1).unwrap_or(&l).to_string(),
        None => l,
    }
}

// ---------------------------------------------------------------------------------------------
// a real PacketWriter with exactly `capacity` payload bytes left
// ---------------------------------------------------------------------------------------------
struct TransparentKeys;

impl rustls::quic::PacketKey for TransparentKeys {
    fn decrypt_in_place<'a>(&self, _pn: u64, _header: &[u8], payload: &'a mut [u8]) -> Result<&'a [u8], rustls::Error> {
        let n = payload.len() - 16;
        Ok(&payload[..n])
    }
    fn encrypt_in_place(&self, _pn: u64, _header: &[u8], _payload: &mut [u8]) -> Result<rustls::quic::Tag, rustls::Error> {
        Ok(rustls::quic::Tag::from(&b"transparent_keys"[..]))
    }
    fn confidentiality_limit(&self) -> u64 {
        u64::MAX
    }
    fn integrity_limit(&self) -> u64 {
        u64::MAX
    }
    fn tag_len(&self) -> usize {
        16
    }
}

impl rustls::quic::HeaderProtectionKey for TransparentKeys {
    fn decrypt_in_place(&self, _sample: &[u8], _first: &mut u8, _pn: &mut [u8]) -> Result<(), rustls::Error> {
        Ok(())
    }
    fn encrypt_in_place(&self, _sample: &[u8], _first: &mut u8, _pn: &mut [u8]) -> Result<(), rustls::Error> {
        Ok(())
    }
    fn sample_len(&self) -> usize {
        16
    }
}

fn keys() -> DirectionalKeys {
    DirectionalKeys { header: Arc::new(TransparentKeys), packet: Arc::new(TransparentKeys) }
}

const W_HDR: usize = 9; // short header, 8-byte DCID
const W_PN: usize = 4;

/// Run `f` on a 1-RTT `PacketWriter` whose `remaining_mut()` is exactly `capacity`.
/// Returns f's result, the payload bytes written after the packet number and what remains.
fn with_writer<R>(capacity: usize, f: impl FnOnce(&mut PacketWriter<'_>) -> R) -> (R, Vec<u8>, usize) {
    let mut buf = vec![0u8; W_HDR + W_PN + capacity + 16];
    let header = OneRttHeader::new(false.into(), ConnectionId::from_slice(&[7u8; 8]));
    let (r, written, remaining) = {
        let mut w = PacketWriter::new_short(&header, &mut buf, (1, PacketNumber::U32(1)), keys(), KeyPhaseBit::Zero).expect("writer");
        assert_eq!(w.remaining_mut(), capacity, "harness: writer capacity");
        let r = f(&mut w);
        (r, w.payload_len() - W_PN, w.remaining_mut())
    };
    (r, buf[W_HDR + W_PN..W_HDR + W_PN + written].to_vec(), remaining)
}

/// Dump the frame through the `Package` impl production code uses for it.
/// `via_reliable`: wrap in `ReliableFrame` (the retransmission queue's element type) where possible.
fn dump_frame(f: &Frame, w: &mut PacketWriter<'_>, via_reliable: bool) -> Result<PacketContent, Signals> {
    match f.clone() {
        Frame::Padding(mut x) => x.dump(w),
        Frame::Ping(mut x) => x.dump(w),
        Frame::Ack(mut x) => x.dump(w),
        Frame::Close(mut x) => x.dump(w),
        Frame::NewToken(mut x) => {
            if via_reliable {
                ReliableFrame::NewToken(x).dump(w)
            } else {
                x.dump(w)
            }
        }
        Frame::MaxData(mut x) => {
            if via_reliable {
                ReliableFrame::MaxData(x).dump(w)
            } else {
                x.dump(w)
            }
        }
        Frame::DataBlocked(mut x) => {
            if via_reliable {
                ReliableFrame::DataBlocked(x).dump(w)
            } else {
                x.dump(w)
            }
        }
        Frame::NewConnectionId(x) => ReliableFrame::NewConnectionId(x).dump(w),
        Frame::RetireConnectionId(x) => ReliableFrame::RetireConnectionId(x).dump(w),
        Frame::HandshakeDone(mut x) => {
            if via_reliable {
                ReliableFrame::HandshakeDone(x).dump(w)
            } else {
                x.dump(w)
            }
        }
        Frame::PathChallenge(mut x) => x.dump(w),
        Frame::PathResponse(mut x) => x.dump(w),
        Frame::StreamCtl(mut x) => {
            if via_reliable {
                ReliableFrame::StreamCtl(x).dump(w)
            } else {
                x.dump(w)
            }
        }
        Frame::Stream(h, d) => (h, d).dump(w),
        Frame::Crypto(h, d) => (h, d).dump(w),
        Frame::Datagram(h, d) => (h, d).dump(w),
        Frame::AddAddress(x) => ReliableFrame::AddAddress(x).dump(w),
        Frame::RemoveAddress(x) => ReliableFrame::RemoveAddress(x).dump(w),
        Frame::PunchMeNow(x) => ReliableFrame::PunchMeNow(x).dump(w),
        Frame::PunchHello(mut x) => x.dump(w),
        Frame::PunchDone(mut x) => {
            if via_reliable {
                ReliableFrame::PunchDone(x).dump(w)
            } else {
                x.dump(w)
            }
        }
    }
}

#[derive(Default)]
pub struct Stats {
    pub decodes: u64,
    pub wrongtype: u64,
    pub pkg_fit: u64,
    pub pkg_refuse: u64,
    pub bytes: u64,
    pub params_refused: u64,
}

// ---------------------------------------------------------------------------------------------
// frames
// ---------------------------------------------------------------------------------------------
pub fn check_frame(f: &Frame, st: &mut Stats) -> Vec<Fail> {
    let mut out = vec![];
    let kind = FRAME_KINDS[g::frame_kind(f)];
    let enc = match catch(|| g::encode_frame(f)) {
        Ok(v) => v,
        Err(p) => {
            fail(&mut out, format!("panic:{}", panic_loc(&p)), format!("encoding {} panicked: {}", g::describe_frame(f), p.message));
            return out;
        }
    };
    st.bytes += enc.len() as u64;
    let dlen = g::data_len(f);
    let written = enc.len();
    let (declared, maxd) = match catch(|| (f.encoding_size(), f.max_encoding_size())) {
        Ok(v) => v,
        Err(p) => {
            fail(&mut out, format!("panic:{}", panic_loc(&p)), format!("encoding_size of {} panicked: {}", g::describe_frame(f), p.message));
            return out;
        }
    };
    let mut size_ok = true;
    if declared + dlen != written {
        size_ok = false;
        fail(
            &mut out,
            format!("size:{kind}.encoding_size"),
            format!("{}: encoding_size() = {declared} (+{dlen} data) but the encoder writes {written} bytes", g::describe_frame(f)),
        );
    } else if declared > maxd {
        size_ok = false;
        fail(
            &mut out,
            format!("max:{kind}.max_encoding_size"),
            format!("{}: encoding_size() = {declared} exceeds max_encoding_size() = {maxd}", g::describe_frame(f)),
        );
    }

    // decode in every packet type
    let fty = f.frame_type();
    let tval = VarInt::from(fty).into_u64();
    let raw = Bytes::from(enc.clone());
    for (pi, pty) in g::pkt_types().iter().enumerate() {
        let permitted = codec_ref::permitted(tval, pi).expect("generated frame type is known");
        let r = catch(|| be_frame(&raw, *pty));
        match r {
            Err(p) => fail(
                &mut out,
                format!("panic:{}", panic_loc(&p)),
                format!("decoding {} in {} panicked: {}", g::describe_frame(f), PKT_NAMES[pi], p.message),
            ),
            Ok(Ok((consumed, got, gty))) => {
                if !permitted {
                    st.wrongtype += 1;
                    fail(
                        &mut out,
                        format!("wrongtype:{kind}.accepted"),
                        format!("{} accepted in a {} packet, where RFC 9000 Table 3 does not permit it", g::describe_frame(f), PKT_NAMES[pi]),
                    );
                    continue;
                }
                st.decodes += 1;
                if got != *f || gty != fty {
                    fail(
                        &mut out,
                        format!("roundtrip:{kind}"),
                        format!("{} decodes ({}) to a different value {} / {:?}", g::describe_frame(f), PKT_NAMES[pi], g::describe_frame(&got), gty),
                    );
                }
                if consumed != written {
                    fail(
                        &mut out,
                        format!("consumed:{kind}"),
                        format!("{}: decoder consumed {consumed} of the {written} bytes written", g::describe_frame(f)),
                    );
                }
            }
            Ok(Err(e)) => {
                if permitted {
                    st.decodes += 1;
                    fail(
                        &mut out,
                        format!("roundtrip:{kind}.rejected{}", reject_class(f)),
                        format!("{}: decoder rejects the encoder's own output in a {} packet: {e}", g::describe_frame(f), PKT_NAMES[pi]),
                    );
                } else {
                    st.wrongtype += 1;
                    if !matches!(&e, Error::WrongType(t, p) if *t == fty && p == pty) {
                        fail(
                            &mut out,
                            format!("wrongtype:{kind}.error"),
                            format!("{} in a {} packet: expected WrongType, got {e}", g::describe_frame(f), PKT_NAMES[pi]),
                        );
                    }
                }
            }
        }
    }
    let one_rtt = g::pkt_types()[3];
    // followed by other bytes: a length-delimited frame must not read into them
    if g::is_delimited(f) {
        let mut more = enc.clone();
        more.extend_from_slice(&[0x01, 0xff, 0x00, 0x7f, 0xc0]);
        let raw2 = Bytes::from(more);
        match catch(|| be_frame(&raw2, one_rtt)) {
            Ok(Ok((consumed, got, _))) => {
                st.decodes += 1;
                if consumed != written || got != *f {
                    fail(
                        &mut out,
                        format!("consumed:{kind}.trailing"),
                        format!("{} followed by other bytes: consumed {consumed} of {written}, value equal: {}", g::describe_frame(f), got == *f),
                    );
                }
            }
            Ok(Err(e)) => fail(&mut out, format!("roundtrip:{kind}.rejected{}", reject_class(f)), format!("{} followed by other bytes is rejected: {e}", g::describe_frame(f))),
            Err(p) => fail(&mut out, format!("panic:{}", panic_loc(&p)), format!("decoding {} + trailing bytes panicked: {}", g::describe_frame(f), p.message)),
        }
    }

    // the real Package impl into a real PacketWriter
    if size_ok {
        let total = declared + dlen;
        for via in [false, true] {
            st.pkg_fit += 1;
            let r = catch(|| with_writer(total, |w| dump_frame(f, w, via)));
            match r {
                Err(p) => fail(
                    &mut out,
                    format!("package.fit:{kind}"),
                    format!("{}: dump into a packet with exactly {total} bytes left panicked at {}: {}", g::describe_frame(f), panic_loc(&p), p.message),
                ),
                Ok((Err(sig), _, _)) => fail(
                    &mut out,
                    format!("package.fit:{kind}"),
                    format!("{}: dump into a packet with exactly encoding_size() = {total} bytes left refused with {sig:?}", g::describe_frame(f)),
                ),
                Ok((Ok(_), bytes, remaining)) => {
                    if bytes != enc || remaining != 0 {
                        fail(
                            &mut out,
                            format!("package.bytes:{kind}"),
                            format!("{}: Package wrote {} bytes (remaining {remaining}), differing from put_frame's {written} bytes", g::describe_frame(f), bytes.len()),
                        );
                    }
                }
            }
            if declared >= 1 {
                st.pkg_refuse += 1;
                let r = catch(|| with_writer(declared - 1, |w| dump_frame(f, w, via)));
                match r {
                    Err(p) => fail(
                        &mut out,
                        format!("package.refuse:{kind}"),
                        format!("{}: dump into a packet with encoding_size()-1 = {} bytes left panicked at {}: {}", g::describe_frame(f), declared - 1, panic_loc(&p), p.message),
                    ),
                    Ok((Ok(_), bytes, _)) => fail(
                        &mut out,
                        format!("package.refuse:{kind}"),
                        format!("{}: dump into a packet with only {} bytes left was admitted and wrote {} bytes", g::describe_frame(f), declared - 1, bytes.len()),
                    ),
                    Ok((Err(sig), bytes, _)) => {
                        if !sig.contains(Signals::CONGESTION) || !bytes.is_empty() {
                            fail(
                                &mut out,
                                format!("package.refuse:{kind}"),
                                format!("{}: refusal signals {sig:?} (CONGESTION expected), {} bytes written", g::describe_frame(f), bytes.len()),
                            );
                        }
                    }
                }
            }
        }
    }
    out
}

fn decodes_alone(f: &Frame) -> bool {
    let raw = Bytes::from(g::encode_frame(f));
    matches!(catch(|| be_frame(&raw, g::pkt_types()[3])), Ok(Ok(_)))
}

/// what distinguishes the values of a kind that a decoder refuses (part of the signature)
fn reject_class(f: &Frame) -> &'static str {
    match f {
        Frame::Crypto(c, _) if c.offset() > codec_ref::VMAX / 2 => ":offset-above-2^61",
        Frame::StreamCtl(StreamCtlFrame::MaxStreams(MaxStreamsFrame::Bi(v) | MaxStreamsFrame::Uni(v))) if v.into_u64() == 1 << 60 => ":2^60",
        _ => "",
    }
}

/// several frames back to back through `FrameReader`
fn check_sequence(s: &mut Src, st: &mut Stats) -> (Vec<Fail>, u64) {
    let mut out = vec![];
    let pi = s.pick(5) as usize;
    let pty = g::pkt_types()[pi];
    let n = 1 + s.wide(8) as usize;
    let mut frames = vec![];
    let mut guard = 0;
    while frames.len() < n && guard < 200 {
        guard += 1;
        let kind = s.wide(FRAME_KINDS.len() as u64) as usize;
        let f = g::gen_frame_of(s, kind, 120);
        let t = VarInt::from(f.frame_type()).into_u64();
        if !codec_ref::permitted(t, pi).unwrap() {
            continue;
        }
        if g::data_len(&f) > 2000 || !decodes_alone(&f) {
            continue; // a frame that is rejected on its own is reported by the frame group
        }
        let last = frames.len() + 1 == n;
        if !g::is_delimited(&f) && !last {
            continue;
        }
        frames.push(f);
    }
    let mut buf: Vec<u8> = vec![];
    for f in &frames {
        buf.extend_from_slice(&g::encode_frame(f));
    }
    let h = vcore::fnv(&buf);
    let total = buf.len();
    let mut reader = FrameReader::new(Bytes::from(buf), pty);
    let mut got = vec![];
    let mut steps = 0;
    loop {
        steps += 1;
        if steps > total + 2 {
            fail(&mut out, "sequence:no-progress".into(), format!("FrameReader did not finish a {total}-byte payload of {} frames within {} steps", frames.len(), total + 2));
            break;
        }
        match catch(|| reader.next()) {
            Err(p) => {
                fail(&mut out, format!("panic:{}", panic_loc(&p)), format!("FrameReader panicked on its own encoder's output: {}", p.message));
                break;
            }
            Ok(None) => break,
            Ok(Some(Err(e))) => {
                fail(&mut out, "sequence:rejected".into(), format!("FrameReader rejects frame #{} of {:?}: {e}", got.len(), frames.iter().map(g::describe_frame).collect::<Vec<_>>()));
                break;
            }
            Ok(Some(Ok((f, _)))) => {
                st.decodes += 1;
                got.push(f)
            }
        }
    }
    if out.is_empty() && got != frames {
        fail(
            &mut out,
            "sequence:differs".into(),
            format!("{} frames written to a {} payload, {} read back, first difference at #{}", frames.len(), PKT_NAMES[pi], got.len(), got.iter().zip(&frames).take_while(|(a, b)| a == b).count()),
        );
    }
    (out, h)
}

// ---------------------------------------------------------------------------------------------
// production sizing sequences of CRYPTO and STREAM frames
// ---------------------------------------------------------------------------------------------
#[derive(Debug, Clone)]
pub struct FitCase {
    pub stream: bool,
    pub cap: usize,
    pub sid: u64,
    pub offset: u64,
    /// data length as a fraction selector of the estimated maximum: 0 => max, 1 => max-1, 2 => 1, 3 => half, 4 => 0 (FIN only)
    pub nsel: u64,
    pub fin: bool,
}

impl FitCase {
    fn to_json(&self) -> Value {
        json!({"kind":"c05","group":"fit","stream":self.stream,"cap":self.cap,"sid":self.sid,"offset":self.offset,"nsel":self.nsel,"fin":self.fin})
    }
    fn from_json(v: &Value) -> Self {
        FitCase {
            stream: v["stream"].as_bool().unwrap(),
            cap: v["cap"].as_u64().unwrap() as usize,
            sid: v["sid"].as_u64().unwrap(),
            offset: v["offset"].as_u64().unwrap(),
            nsel: v["nsel"].as_u64().unwrap(),
            fin: v["fin"].as_bool().unwrap(),
        }
    }
}

/// Read a payload back: (PADDING frames before the first other frame, the other frames, PADDING after)
fn pad_and_read(payload_with_padding: Vec<u8>) -> Result<(usize, Vec<Frame>, usize), String> {
    let one_rtt = g::pkt_types()[3];
    let (mut before, mut after, mut v) = (0, 0, vec![]);
    for r in FrameReader::new(Bytes::from(payload_with_padding), one_rtt) {
        match r {
            Ok((Frame::Padding(_), _)) => {
                if v.is_empty() {
                    before += 1
                } else {
                    after += 1
                }
            }
            Ok((f, _)) => {
                if after > 0 {
                    return Err("a frame follows the trailing padding".into());
                }
                v.push(f)
            }
            Err(e) => return Err(e.to_string()),
        }
    }
    Ok((before, v, after))
}

pub fn check_fit(c: &FitCase) -> (Vec<Fail>, bool) {
    let mut out = vec![];
    let mut exercised = false;
    if !c.stream {
        // qrecovery/src/crypto.rs Sender::try_load_data
        let r = catch(|| {
            with_writer(c.cap, |w| {
                let max_size = w.remaining_mut();
                let Some(n) = CryptoFrame::estimate_max_capacity(max_size, c.offset) else { return Ok(None) };
                let n = match c.nsel {
                    0 => n,
                    1 => n.saturating_sub(1).max(1),
                    2 => 1,
                    _ => (n / 2).max(1),
                };
                if c.offset + n as u64 > codec_ref::VMAX {
                    return Ok(None);
                }
                let frame = CryptoFrame::new(vi(c.offset), vi(n as u64));
                let need = frame.encoding_size() + n;
                if need > max_size {
                    return Err(format!("estimate_max_capacity({max_size}, {}) = {n} data bytes, but header {} + data {n} = {need} exceeds the capacity", c.offset, frame.encoding_size()));
                }
                let mut data = vec![0u8; n];
                vcore::prf_fill(c.offset, 0x55, 0, &mut data);
                let data = Bytes::from(data);
                let r = (frame, data.clone()).dump(w);
                Ok(Some((frame, data, r.is_ok())))
            })
        });
        match r {
            Err(p) => fail(&mut out, "fit:crypto.panic".into(), format!("CRYPTO sizing for capacity {} offset {} panicked at {}: {}", c.cap, c.offset, panic_loc(&p), p.message)),
            Ok((Err(m), _, _)) => fail(&mut out, "fit:crypto.estimate".into(), m),
            Ok((Ok(None), _, _)) => {}
            Ok((Ok(Some((frame, data, ok))), bytes, _)) => {
                exercised = true;
                if !ok {
                    fail(&mut out, "fit:crypto.refused".into(), format!("CRYPTO frame sized by estimate_max_capacity({}, {}) refused by Package::dump", c.cap, c.offset));
                } else {
                    match pad_and_read(bytes) {
                        Ok((0, fs, 0)) if fs == vec![Frame::Crypto(frame, data)] => {}
                        Ok((b, fs, a)) => fail(&mut out, "fit:crypto.readback".into(), format!("CRYPTO {:?} reads back as {b} padding + {} frames + {a} padding", frame, fs.len())),
                        Err(e) => {
                            let whole = Frame::Crypto(frame, Bytes::new());
                            fail(&mut out, format!("roundtrip:crypto.rejected{}", reject_class(&whole)), format!("CRYPTO {:?} sized by estimate_max_capacity does not read back: {e}", frame))
                        }
                    }
                }
            }
        }
    } else {
        // qrecovery/src/send/outgoing.rs Outgoing::try_load_data_into
        let sid = StreamId::from(vi(c.sid));
        let r = catch(|| {
            with_writer(c.cap, |w| {
                let origin_len = w.remaining_mut();
                let Some(maxn) = StreamFrame::estimate_max_capacity(origin_len, sid, c.offset) else { return Ok(None) };
                let n = match c.nsel {
                    0 => maxn,
                    1 => maxn.saturating_sub(1),
                    2 => 1.min(maxn),
                    3 => maxn / 2,
                    _ => 0,
                };
                if n == 0 && !c.fin {
                    return Ok(None);
                }
                if c.offset + n as u64 > codec_ref::VMAX {
                    return Ok(None);
                }
                let mut frame = StreamFrame::new(sid, c.offset, n);
                frame.set_eos_flag(c.fin);
                let strategy = frame.encoding_strategy(origin_len);
                frame.set_len_bit(strategy.len_bit());
                let pre = strategy.pre_padding();
                let need = pre + frame.encoding_size() + n;
                if need > origin_len {
                    return Err(format!("stream sizing: pre-padding {pre} + header {} + data {n} = {need} exceeds the capacity {origin_len}", frame.encoding_size()));
                }
                if strategy.len_bit() == Len::Omit && need != origin_len {
                    return Err(format!(
                        "stream sizing: frame without Length field ends at {need} of {origin_len} bytes; whatever follows would be read as stream data"
                    ));
                }
                w.put_bytes(0, pre);
                let mut data = vec![0u8; n];
                vcore::prf_fill(c.offset, 0x56, 0, &mut data);
                // stream data that cannot be confused with padding
                for b in data.iter_mut() {
                    *b |= 1;
                }
                let data = Bytes::from(data);
                let r = (frame, data.clone()).dump(w);
                let rest = w.remaining_mut();
                w.put_bytes(0, rest); // what PadToFull / PadTo20 would do
                Ok(Some((frame, data, pre, rest, r.is_ok())))
            })
        });
        match r {
            Err(p) => fail(&mut out, "fit:stream.panic".into(), format!("STREAM sizing for capacity {} sid {} offset {} nsel {} panicked at {}: {}", c.cap, c.sid, c.offset, c.nsel, panic_loc(&p), p.message)),
            Ok((Err(m), _, _)) => fail(&mut out, "fit:stream.strategy".into(), m),
            Ok((Ok(None), _, _)) => {}
            Ok((Ok(Some((frame, data, pre, rest, ok))), bytes, _)) => {
                exercised = true;
                if !ok {
                    fail(&mut out, "fit:stream.refused".into(), format!("STREAM frame sized by encoding_strategy({}) refused by Package::dump", c.cap));
                } else {
                    match pad_and_read(bytes) {
                        Ok((b, fs, a)) if b == pre && a == rest && fs == vec![Frame::Stream(frame, data)] => {}
                        Ok((b, fs, a)) => fail(
                            &mut out,
                            "fit:stream.readback".into(),
                            format!("{:?} with pre-padding {pre} and {rest} trailing padding bytes reads back as {b} padding + {} frames + {a} padding", frame, fs.len()),
                        ),
                        Err(e) => fail(&mut out, "fit:stream.readback".into(), format!("{:?} does not read back: {e}", frame)),
                    }
                }
            }
        }
    }
    (out, exercised)
}

// ---------------------------------------------------------------------------------------------
// assembled packets
// ---------------------------------------------------------------------------------------------
fn check_packet(s: &mut Src, st: &mut Stats) -> (Vec<Fail>, u64) {
    let mut out = vec![];
    let hk = 2 + s.pick(4); // initial, 0rtt, handshake, 1rtt
    let pi = match hk {
        2 => 0,
        3 => 1,
        4 => 2,
        _ => 3 + s.pick(2) as usize,
    };
    let dcid = s.cid_any();
    let scid = s.cid_any();
    let tlen = match s.pick(4) {
        0 => 0,
        1 => 63,
        2 => 64,
        _ => s.wide(200) as usize,
    };
    let token = s.bytes(tlen);
    let pnv = s.wide(1 << 32);
    let pn = match s.pick(4) {
        0 => PacketNumber::U8(pnv as u8),
        1 => PacketNumber::U16(pnv as u16),
        2 => PacketNumber::U24(pnv as u32 & 0xff_ffff),
        _ => PacketNumber::U32(pnv as u32),
    };
    let n = 1 + s.wide(6) as usize;
    let mut frames = vec![];
    let mut guard = 0;
    while frames.len() < n && guard < 200 {
        guard += 1;
        let kind = s.wide(FRAME_KINDS.len() as u64) as usize;
        let f = g::gen_frame_of(s, kind, 100);
        let t = VarInt::from(f.frame_type()).into_u64();
        if !codec_ref::permitted(t, pi).unwrap() {
            continue;
        }
        let enc = g::encode_frame(&f);
        if enc.len() > 300 || f.encoding_size() + g::data_len(&f) != enc.len() || !decodes_alone(&f) {
            continue; // too big for one packet / defects of a single frame are reported by the frame group
        }
        if !g::is_delimited(&f) && frames.len() + 1 != n {
            continue;
        }
        frames.push(f);
    }
    let body: usize = frames.iter().map(|f| g::encode_frame(f).len()).sum();
    let pad20 = (pn.size() + body + 16 < 20) as usize * (20 - (pn.size() + body + 16).min(20));
    let last_delimited = frames.last().map(g::is_delimited).unwrap_or(true);
    let slack = if last_delimited { s.wide(12) as usize } else { 0 };
    let hdr_size = match hk {
        2 => 7 + dcid.len() + scid.len() + codec_ref::min_varint_len(tlen as u64) + tlen + 2,
        3 | 4 => 7 + dcid.len() + scid.len() + 2,
        _ => 1 + dcid.len(),
    };
    let mut buf = vec![0u8; hdr_size + pn.size() + body + pad20 + slack + 16];
    let frames2 = frames.clone();
    let r = catch(|| {
        let k = keys();
        let mut w = match hk {
            2 => PacketWriter::new_long(&LongHeaderBuilder::with_cid(dcid, scid).initial(token.clone()), &mut buf, (pnv, pn), k),
            3 => PacketWriter::new_long(&LongHeaderBuilder::with_cid(dcid, scid).zero_rtt(), &mut buf, (pnv, pn), k),
            4 => PacketWriter::new_long(&LongHeaderBuilder::with_cid(dcid, scid).handshake(), &mut buf, (pnv, pn), k),
            _ => PacketWriter::new_short(&OneRttHeader::new((pi == 4).into(), dcid), &mut buf, (pnv, pn), k, KeyPhaseBit::Zero),
        }
        .map_err(|e| format!("PacketWriter::new refused a {}-byte buffer: {e:?}", hdr_size + pn.size() + body + pad20 + slack + 16))?;
        // a frame without a length must end the packet: padding goes in front of it, as production does
        if pad20 > 0 && !last_delimited {
            w.put_bytes(0, pad20);
        }
        for (i, f) in frames2.iter().enumerate() {
            dump_frame(f, &mut w, i % 2 == 1).map_err(|e| format!("frame #{i} {} refused with {e:?} although {} bytes remain", g::describe_frame(f), w.remaining_mut()))?;
        }
        if pad20 > 0 && last_delimited {
            w.put_bytes(0, pad20);
        }
        let (size, _info) = w.encrypt_and_protect_packet();
        Ok::<usize, String>(size)
    });
    let size = match r {
        Err(p) => {
            fail(&mut out, format!("panic:{}", panic_loc(&p)), format!("assembling a {} packet panicked: {}", PKT_NAMES[pi], p.message));
            return (out, 0);
        }
        Ok(Err(m)) => {
            fail(&mut out, "packet:assemble".into(), m);
            return (out, 0);
        }
        Ok(Ok(n)) => n,
    };
    let wire = buf[..size].to_vec();
    let h = vcore::fnv(&wire);
    st.bytes += size as u64;
    if size != hdr_size + pn.size() + body + pad20 + 16 {
        fail(&mut out, "packet:size".into(), format!("{} packet: {} bytes on the wire, header {hdr_size} + pn {} + frames {body} + pad {pad20} + tag 16 expected", PKT_NAMES[pi], size, pn.size()));
    }
    let mut reader = PacketReader::new(BytesMut::from(&wire[..]), dcid.len());
    let first = catch(|| reader.next());
    let pkt = match first {
        Err(p) => {
            fail(&mut out, format!("panic:{}", panic_loc(&p)), format!("PacketReader panicked on a packet assembled by PacketWriter: {}", p.message));
            return (out, h);
        }
        Ok(Some(Ok(Packet::Data(dp)))) => dp,
        Ok(other) => {
            fail(&mut out, "packet:readback".into(), format!("PacketReader does not return the {} data packet PacketWriter assembled: {:?}", PKT_NAMES[pi], other.map(|r| r.map(|_| "other packet kind"))));
            return (out, h);
        }
    };
    let (hd, hs, ht): (ConnectionId, Option<ConnectionId>, Option<Vec<u8>>) = match &pkt.header {
        DataHeader::Long(long::DataHeader::Initial(h)) => (*h.dcid(), Some(*h.scid()), Some(h.token().clone())),
        DataHeader::Long(long::DataHeader::ZeroRtt(h)) => (*h.dcid(), Some(*h.scid()), None),
        DataHeader::Long(long::DataHeader::Handshake(h)) => (*h.dcid(), Some(*h.scid()), None),
        DataHeader::Short(h) => (*h.dcid(), None, None),
    };
    let want_ty = g::pkt_types()[pi];
    if pkt.get_type() != want_ty || hd != dcid || hs.is_some_and(|x| x != scid) || ht.as_ref().is_some_and(|t| *t != token) {
        fail(&mut out, "packet:header".into(), format!("{} packet header reads back differently (type {:?}, dcid {hd:?}/{dcid:?})", PKT_NAMES[pi], pkt.get_type()));
    }
    if pkt.bytes.len() != size || pkt.offset != hdr_size {
        fail(&mut out, "packet:framing".into(), format!("{} packet: reader reports {} bytes with payload at {}, writer wrote {size} bytes with payload at {hdr_size}", PKT_NAMES[pi], pkt.bytes.len(), pkt.offset));
        return (out, h);
    }
    let pn_len = (pkt.bytes[0] & 3) as usize + 1;
    if pn_len != pn.size() {
        fail(&mut out, "packet:pnlen".into(), format!("first byte announces a {pn_len}-byte packet number, {} written", pn.size()));
        return (out, h);
    }
    match take_pn_len(pn_len as u8)(&pkt.bytes[pkt.offset..]) {
        Ok((_, got)) if got == pn => {}
        other => fail(&mut out, "packet:pn".into(), format!("packet number {pn:?} reads back as {:?}", other.map(|x| x.1).ok())),
    }
    let body_bytes = Bytes::copy_from_slice(&pkt.bytes[pkt.offset + pn_len..size - 16]);
    let mut got = vec![];
    for r in FrameReader::new(body_bytes, pkt.get_type()) {
        match r {
            Ok((f, _)) => {
                st.decodes += 1;
                got.push(f)
            }
            Err(e) => {
                fail(&mut out, "packet:frames".into(), format!("frame #{} of the assembled {} packet is rejected: {e}", got.len(), PKT_NAMES[pi]));
                return (out, h);
            }
        }
    }
    let mut want = if last_delimited { frames.clone() } else { vec![Frame::Padding(PaddingFrame); pad20] };
    if last_delimited {
        want.extend(vec![Frame::Padding(PaddingFrame); pad20]);
    } else {
        want.extend(frames.clone());
    }
    if got != want {
        fail(&mut out, "packet:frames".into(), format!("{} frames dumped into a {} packet, {} read back / contents differ", want.len(), PKT_NAMES[pi], got.len()));
    }
    match catch(|| reader.next()) {
        Ok(None) => {}
        Ok(Some(_)) => fail(&mut out, "packet:framing".into(), "PacketReader yields a second packet from a datagram holding one".into()),
        Err(p) => fail(&mut out, format!("panic:{}", panic_loc(&p)), format!("PacketReader panicked at the end of the datagram: {}", p.message)),
    }
    (out, h)
}

// ---------------------------------------------------------------------------------------------
// headers
// ---------------------------------------------------------------------------------------------
fn check_header(s: &mut Src, st: &mut Stats) -> (Vec<Fail>, u64) {
    let mut out = vec![];
    let h = g::gen_header(s);
    let kind = match &h {
        HeaderCase::Vn { .. } => 0,
        HeaderCase::Retry { .. } => 1,
        HeaderCase::Initial { .. } => 2,
        HeaderCase::ZeroRtt { .. } => 3,
        HeaderCase::Handshake { .. } => 4,
        HeaderCase::OneRtt { .. } => 5,
    };
    let name = g::HEADER_KINDS[kind];
    // declared size of the header types that have one
    let mut enc: Vec<u8> = vec![];
    let declared: Option<usize> = match &h {
        HeaderCase::Vn { dcid, scid, versions } => {
            enc.put_header(&LongHeaderBuilder::with_cid(*dcid, *scid).vn(versions.clone()));
            None
        }
        HeaderCase::Retry { dcid, scid, token, integrity } => {
            enc.put_header(&LongHeaderBuilder::with_cid(*dcid, *scid).retry(token.clone(), *integrity));
            None
        }
        HeaderCase::Initial { dcid, scid, token } => {
            let hd = LongHeaderBuilder::with_cid(*dcid, *scid).initial(token.clone());
            enc.put_header(&hd);
            Some(hd.size())
        }
        HeaderCase::ZeroRtt { dcid, scid } => {
            let hd = LongHeaderBuilder::with_cid(*dcid, *scid).zero_rtt();
            enc.put_header(&hd);
            Some(hd.size())
        }
        HeaderCase::Handshake { dcid, scid } => {
            let hd = LongHeaderBuilder::with_cid(*dcid, *scid).handshake();
            enc.put_header(&hd);
            Some(hd.size())
        }
        HeaderCase::OneRtt { spin, dcid } => {
            let hd = OneRttHeader::new((*spin).into(), *dcid);
            enc.put_header(&hd);
            Some(hd.size())
        }
    };
    st.bytes += enc.len() as u64;
    let hash = vcore::fnv(&enc);
    if let Some(d) = declared {
        if d != enc.len() {
            fail(&mut out, format!("size:header.{name}"), format!("{name} header: size() = {d}, {} bytes written", enc.len()));
        }
    }
    let dlen = match &h {
        HeaderCase::Vn { dcid, .. } | HeaderCase::Retry { dcid, .. } | HeaderCase::Initial { dcid, .. } | HeaderCase::ZeroRtt { dcid, .. } | HeaderCase::Handshake { dcid, .. } | HeaderCase::OneRtt { dcid, .. } => dcid.len(),
    };
    let r = catch(|| {
        let (remain, ty) = be_packet_type(&enc).map_err(|e| format!("packet type rejected: {e:?}"))?;
        let (remain, hd) = be_header(ty, dlen, remain).map_err(|e| format!("header rejected: {e:?}"))?;
        Ok::<_, String>((enc.len() - remain.len(), ty, hd))
    });
    st.decodes += 1;
    match r {
        Err(p) => fail(&mut out, format!("panic:{}", panic_loc(&p)), format!("decoding a {name} header panicked: {}", p.message)),
        Ok(Err(m)) => fail(&mut out, format!("roundtrip:header.{name}"), format!("{name} header {h:?}: {m}")),
        Ok(Ok((consumed, ty, hd))) => {
            if consumed != enc.len() {
                fail(&mut out, format!("consumed:header.{name}"), format!("{name} header: {consumed} of {} bytes consumed", enc.len()));
            }
            let same = match (&h, &hd) {
                (HeaderCase::Vn { dcid, scid, versions }, Header::VN(x)) => x.dcid() == dcid && x.scid() == scid && x.versions() == versions && ty == x.get_type(),
                (HeaderCase::Retry { dcid, scid, token, integrity }, Header::Retry(x)) => x.dcid() == dcid && x.scid() == scid && x.token() == token && x.integrity() == integrity && ty == x.get_type(),
                (HeaderCase::Initial { dcid, scid, token }, Header::Initial(x)) => x.dcid() == dcid && x.scid() == scid && x.token() == token && ty == x.get_type(),
                (HeaderCase::ZeroRtt { dcid, scid }, Header::ZeroRtt(x)) => x.dcid() == dcid && x.scid() == scid && ty == x.get_type(),
                (HeaderCase::Handshake { dcid, scid }, Header::Handshake(x)) => x.dcid() == dcid && x.scid() == scid && ty == x.get_type(),
                (HeaderCase::OneRtt { spin, dcid }, Header::OneRtt(x)) => x.dcid() == dcid && bool::from(x.spin()) == *spin && ty == x.get_type(),
                _ => false,
            };
            if !same {
                fail(&mut out, format!("roundtrip:header.{name}"), format!("{name} header {h:?} reads back as {hd:?}"));
            }
        }
    }
    // as a whole packet with an opaque payload, for the headers that carry one
    if kind >= 2 {
        let plen = 20 + s.wide(80) as usize;
        let payload = s.bytes(plen);
        let w = if kind == 5 {
            0
        } else {
            let w = [1usize, 2, 4, 8][s.pick(4) as usize];
            if plen >= 64 && w == 1 { 2 } else { w }
        };
        let mut wire = g::raw_packet(&h, &payload, w.max(1));
        let one = wire.len();
        let trailing = kind != 5 && s.pick(2) == 1;
        if trailing {
            // a second, short-header packet coalesced behind it
            wire.extend_from_slice(&g::raw_packet(&HeaderCase::OneRtt { spin: false, dcid: ConnectionId::from_slice(&vec![9u8; dlen]) }, &payload, 1));
        }
        let total = wire.len();
        let mut reader = PacketReader::new(BytesMut::from(&wire[..]), dlen);
        match catch(|| reader.next()) {
            Ok(Some(Ok(Packet::Data(dp)))) => {
                st.decodes += 1;
                let want_off = if kind == 5 { enc.len() } else { enc.len() + w };
                if dp.bytes.len() != one || dp.offset != want_off || dp.bytes[dp.offset..] != payload[..] {
                    fail(&mut out, format!("consumed:packet.{name}"), format!("{name} packet of {one} bytes (payload at {want_off}) framed as {} bytes with payload at {}", dp.bytes.len(), dp.offset));
                }
            }
            Ok(other) => fail(&mut out, format!("roundtrip:packet.{name}"), format!("{name} packet with a {plen}-byte payload and a {w}-byte Length is not returned as a data packet: {:?}", other.map(|r| r.map(|_| "other kind")))),
            Err(p) => fail(&mut out, format!("panic:{}", panic_loc(&p)), format!("PacketReader panicked on a valid {name} packet: {}", p.message)),
        }
        match catch(|| reader.next()) {
            Ok(None) if !trailing => {}
            Ok(Some(Ok(Packet::Data(dp)))) if trailing && dp.bytes.len() == total - one => {}
            Ok(other) => fail(&mut out, format!("consumed:packet.{name}.coalesced"), format!("after a {name} packet (coalesced second packet: {trailing}) the reader yields {:?}", other.map(|r| r.map(|_| "a packet")))),
            Err(p) => fail(&mut out, format!("panic:{}", panic_loc(&p)), format!("PacketReader panicked on the coalesced packet: {}", p.message)),
        }
    }
    (out, hash)
}

// ---------------------------------------------------------------------------------------------
// transport parameters
// ---------------------------------------------------------------------------------------------
fn check_params(s: &mut Src, st: &mut Stats) -> (Vec<Fail>, u64) {
    let mut out = vec![];
    let c = g::gen_params(s);
    let role = if c.role == Role::Client { "client" } else { "server" };
    let enc = match catch(|| g::encode_params(&c)) {
        Err(p) => {
            fail(&mut out, format!("panic:{}", panic_loc(&p)), format!("encoding {role} parameters {:?} panicked: {}", c.list, p.message));
            return (out, 0);
        }
        Ok(Err(_refused)) => {
            // `set` refused a value (the library's bounds are tighter than the generator's): not a
            // value this role can encode, nothing to check
            st.params_refused += 1;
            return (out, 0);
        }
        Ok(Ok(v)) => v,
    };
    st.bytes += enc.len() as u64;
    let h = vcore::fnv(&enc);
    // independent framing of the blob: exactly the parameters that were set
    let rp = codec_ref::ref_params(&enc, c.role == Role::Client);
    if rp.malformed.is_some() || rp.entries.len() != c.list.len() || rp.duplicate {
        fail(
            &mut out,
            format!("roundtrip:params.{role}.wire"),
            format!("{role} parameters {:?}: the written blob is not a well-formed sequence of those {} parameters ({:?}, {} found)", c.list.iter().map(|x| x.0).collect::<Vec<_>>(), c.list.len(), rp.malformed, rp.entries.len()),
        );
    }
    // each parameter alone
    let mut rest = &enc[..];
    let mut seen = 0;
    while !rest.is_empty() {
        let r = catch(|| {
            let (remain, (id, body)) = be_raw_parameter(rest).map_err(|e| format!("{e:?}"))?;
            let pid = ParameterId::try_from(id).map_err(|e| format!("{e}"))?;
            let (left, v) = be_parameter_value(body, pid).map_err(|e| format!("{pid:?}: {e:?}"))?;
            Ok::<_, String>((remain, pid, v, left.len()))
        });
        st.decodes += 1;
        match r {
            Err(p) => {
                fail(&mut out, format!("panic:{}", panic_loc(&p)), format!("decoding a written {role} parameter panicked: {}", p.message));
                break;
            }
            Ok(Err(m)) => {
                fail(&mut out, format!("roundtrip:params.{role}.value"), format!("written parameter is rejected: {m}"));
                break;
            }
            Ok(Ok((remain, pid, v, left))) => {
                seen += 1;
                let want = c.list.iter().find(|x| x.0 == pid).map(|x| &x.1);
                if want != Some(&v) || left != 0 {
                    fail(&mut out, format!("roundtrip:params.{role}.value"), format!("{pid:?} = {want:?} reads back as {v:?} ({left} value bytes left over)"));
                }
                rest = remain;
            }
        }
    }
    if out.is_empty() && seen != c.list.len() {
        fail(&mut out, format!("roundtrip:params.{role}.wire"), format!("{} parameters set, {seen} read back", c.list.len()));
    }
    // the whole set through the production parser
    let whole = catch(|| match (c.role, c.complete) {
        (Role::Client, true) => Some(ClientParameters::parse_from_bytes(&enc).map(|p| Ok(p) == g::build_client(&c.list)).map_err(|e| e.to_string())),
        (Role::Server, true) => Some(ServerParameters::parse_from_bytes(&enc).map(|p| Ok(p) == g::build_server(&c.list)).map_err(|e| e.to_string())),
        (Role::Server, false) => Some(ServerParameters::try_from_remembered_bytes(&enc).map(|p| Ok(p) == g::build_server(&c.list)).map_err(|e| e.to_string())),
        (Role::Client, false) => None,
    });
    match whole {
        Err(p) => fail(&mut out, format!("panic:{}", panic_loc(&p)), format!("parsing written {role} parameters panicked: {}", p.message)),
        Ok(None) => {}
        Ok(Some(r)) => {
            st.decodes += 1;
            match r {
                Ok(true) => {}
                Ok(false) => fail(&mut out, format!("roundtrip:params.{role}"), format!("{role} parameter set {:?} parses to a different set", c.list)),
                Err(e) => fail(&mut out, format!("roundtrip:params.{role}.rejected"), format!("{role} parameter set {:?} is rejected by the parser: {e}", c.list)),
            }
        }
    }
    (out, h)
}

// ---------------------------------------------------------------------------------------------
// primitives
// ---------------------------------------------------------------------------------------------
const PRIM_KINDS: [&str; 12] = ["varint", "cid", "socket_addr", "endpoint_addr", "link", "reset_token", "preferred_address", "packet_number", "frame_type", "stream_id", "error_kind", "parameter_id"];

fn suffix_len(whole: &[u8], remain: &[u8]) -> usize {
    whole.len() - remain.len()
}

fn check_prim(s: &mut Src, st: &mut Stats) -> (Vec<Fail>, u64) {
    let mut out = vec![];
    let k = s.pick(PRIM_KINDS.len() as u64) as usize;
    let name = PRIM_KINDS[k];
    let mut hash = 0u64;
    let r = catch(|| {
        let mut o: Vec<(String, String)> = vec![];
        let mut bad = |clause: &str, what: String| o.push((format!("{clause}:{name}"), what));
        let mut enc: Vec<u8> = vec![];
        match k {
            0 => {
                let v = vi(s.varint());
                enc.put_varint(&v);
                if enc.len() != v.encoding_size() {
                    bad("size", format!("varint {v}: encoding_size {} but {} bytes written", v.encoding_size(), enc.len()));
                }
                match be_varint(&enc) {
                    Ok((rest, got)) if rest.is_empty() && got == v => {}
                    other => bad("roundtrip", format!("varint {v} reads back as {other:?}")),
                }
                for (w, nb) in [(1usize, EncodeBytes::One), (2, EncodeBytes::Two), (4, EncodeBytes::Four), (8, EncodeBytes::Eight)] {
                    if w < v.encoding_size() {
                        continue;
                    }
                    let mut e2: Vec<u8> = vec![];
                    e2.encode_varint(&v, nb);
                    e2.push(0xaa);
                    match be_varint(&e2) {
                        Ok((rest, got)) if rest.len() == 1 && got == v && e2.len() == w + 1 => {}
                        other => bad("roundtrip", format!("varint {v} forced to {w} bytes reads back as {other:?}")),
                    }
                }
            }
            1 => {
                let c = s.cid_any();
                enc.put_connection_id(&c);
                if enc.len() != c.encoding_size() {
                    bad("size", format!("cid of {} bytes: encoding_size {} but {} written", c.len(), c.encoding_size(), enc.len()));
                }
                match be_connection_id(&enc) {
                    Ok((rest, got)) if rest.is_empty() && got == c => {}
                    other => bad("roundtrip", format!("cid {c:?} reads back as {other:?}")),
                }
                match be_connection_id_with_len(&enc[1..], c.len()) {
                    Ok((rest, got)) if rest.is_empty() && got == c => {}
                    other => bad("roundtrip", format!("cid {c:?} (explicit length) reads back as {other:?}")),
                }
            }
            2 => {
                let fam = s.family();
                let a = s.sock_addr(fam);
                enc.put_socket_addr(&a);
                if enc.len() != a.encoding_size() || a.encoding_size() > a.max_encoding_size() {
                    bad("size", format!("{a}: encoding_size {} / max {} but {} written", a.encoding_size(), a.max_encoding_size(), enc.len()));
                }
                match be_socket_addr(&enc, fam) {
                    Ok((rest, got)) if rest.is_empty() && got == a => {}
                    other => bad("roundtrip", format!("{a} reads back as {other:?}")),
                }
            }
            3 => {
                let fam = s.family();
                let relay = s.pick(2) as u8;
                let e = if relay == 0 { EndpointAddr::direct(s.sock_addr(fam)) } else { EndpointAddr::with_agent(s.sock_addr(fam), s.sock_addr(fam)) };
                enc.put_endpoint_addr(e);
                if enc.len() != e.encoding_size() {
                    bad("size", format!("{e}: encoding_size {} but {} written", e.encoding_size(), enc.len()));
                }
                match be_endpoint_addr(&enc, relay, fam) {
                    Ok((rest, got)) if rest.is_empty() && got == e => {}
                    other => bad("roundtrip", format!("{e} reads back as {other:?}")),
                }
            }
            4 => {
                let fam = s.family();
                let l = Link::new(s.sock_addr(fam), s.sock_addr(fam));
                enc.put_link(&l);
                if enc.len() != l.encoding_size() || l.encoding_size() > l.max_encoding_size() {
                    bad("size", format!("{l}: encoding_size {} / max {} but {} written", l.encoding_size(), l.max_encoding_size(), enc.len()));
                }
                match be_link(&enc) {
                    Ok((rest, got)) if rest.is_empty() && got == l => {}
                    other => bad("roundtrip", format!("{l} reads back as {other:?}")),
                }
            }
            5 => {
                let t = s.reset_token();
                enc.put_reset_token(&t);
                if enc.len() != t.encoding_size() {
                    bad("size", format!("reset token: encoding_size {} but {} written", t.encoding_size(), enc.len()));
                }
                match be_reset_token(&enc) {
                    Ok((rest, got)) if rest.is_empty() && got == t => {}
                    other => bad("roundtrip", format!("reset token reads back as {other:?}")),
                }
            }
            6 => {
                let p = g::preferred_address(s);
                enc.put_preferred_address(&p);
                if enc.len() != p.encoding_size() {
                    bad("size", format!("{p:?}: encoding_size {} but {} written", p.encoding_size(), enc.len()));
                }
                match be_preferred_address(&enc) {
                    Ok((rest, got)) if rest.is_empty() && got == p => {}
                    other => bad("roundtrip", format!("{p:?} reads back as {other:?}")),
                }
            }
            7 => {
                let v = match s.pick(5) {
                    0 => 0,
                    1 => u64::MAX,
                    2 => 0x80,
                    3 => 0x8000_0000,
                    _ => s.wide(u64::MAX),
                };
                let pn = match s.pick(4) {
                    0 => PacketNumber::U8(v as u8),
                    1 => PacketNumber::U16(v as u16),
                    2 => PacketNumber::U24(v as u32 & 0xff_ffff),
                    _ => PacketNumber::U32(v as u32),
                };
                enc.put_packet_number(pn);
                if enc.len() != pn.size() {
                    bad("size", format!("{pn:?}: size {} but {} written", pn.size(), enc.len()));
                }
                match take_pn_len(pn.size() as u8)(&enc) {
                    Ok((rest, got)) if rest.is_empty() && got == pn => {}
                    other => bad("roundtrip", format!("{pn:?} reads back as {other:?}")),
                }
            }
            8 => {
                let all = g::all_frame_types();
                let t = all[s.pick(all.len() as u64) as usize];
                enc.put_frame_type(t);
                if enc.len() != VarInt::from(t).encoding_size() {
                    bad("size", format!("{t:?}: {} bytes written", enc.len()));
                }
                match be_frame_type(&enc) {
                    Ok((rest, got)) if rest.is_empty() && got == t => {}
                    other => bad("roundtrip", format!("{t:?} reads back as {other:?}")),
                }
            }
            9 => {
                let sid = s.stream_id();
                enc.put_streamid(&sid);
                if enc.len() != sid.encoding_size() {
                    bad("size", format!("{sid:?}: encoding_size {} but {} written", sid.encoding_size(), enc.len()));
                }
                match be_streamid(&enc) {
                    Ok((rest, got)) if rest.is_empty() && got == sid => {}
                    other => bad("roundtrip", format!("{sid:?} reads back as {other:?}")),
                }
            }
            10 => {
                let e = g::error_kind(s);
                let v = VarInt::from(e);
                enc.put_varint(&v);
                match ErrorKind::try_from(v) {
                    Ok(got) if got == e => {}
                    other => bad("roundtrip", format!("{e:?} reads back as {other:?}")),
                }
            }
            _ => {
                let id = g::ALL_PARAM_IDS[s.pick(g::ALL_PARAM_IDS.len() as u64) as usize];
                enc.put_parameter_id(id);
                match be_varint(&enc).map(|(r, v)| (r.len(), ParameterId::try_from(v))) {
                    Ok((0, Ok(got))) if got == id => {}
                    other => bad("roundtrip", format!("{id:?} reads back as {other:?}")),
                }
            }
        }
        (o, enc)
    });
    st.decodes += 1;
    match r {
        Err(p) => fail(&mut out, format!("panic:{}", panic_loc(&p)), format!("{name} codec panicked: {}", p.message)),
        Ok((o, enc)) => {
            hash = vcore::fnv(&enc) ^ (k as u64) << 56;
            st.bytes += enc.len() as u64;
            for (sig, what) in o {
                fail(&mut out, sig, what);
            }
        }
    }
    let _ = suffix_len;
    (out, hash)
}

// ---------------------------------------------------------------------------------------------
// driver
// ---------------------------------------------------------------------------------------------
const GROUPS: [&str; 6] = ["frame", "sequence", "packet", "header", "params", "prim"];

fn run_group(group: &str, s: &mut Src, st: &mut Stats, rep: &mut Report) -> (Vec<Fail>, u64, bool) {
    match group {
        "frame" => {
            let f = g::gen_frame(s);
            let kind = FRAME_KINDS[g::frame_kind(&f)];
            rep.count(&format!("frame_values.{kind}"));
            let fails = check_frame(&f, st);
            let enc = catch(|| g::encode_frame(&f)).unwrap_or_default();
            let trivial = matches!(f, Frame::Padding(_) | Frame::Ping(_) | Frame::HandshakeDone(_));
            (fails, vcore::fnv(&enc), !trivial)
        }
        "sequence" => {
            let (f, h) = check_sequence(s, st);
            (f, h ^ 1, true)
        }
        "packet" => {
            let (f, h) = check_packet(s, st);
            (f, h ^ 2, true)
        }
        "header" => {
            let (f, h) = check_header(s, st);
            (f, h ^ 3, true)
        }
        "params" => {
            let (f, h) = check_params(s, st);
            (f, h ^ 4, true)
        }
        _ => {
            let (f, h) = check_prim(s, st);
            (f, h ^ 5, true)
        }
    }
}

fn report(rep: &mut Report, fails: Vec<Fail>, replay: Value) {
    for f in fails {
        rep.violation(f.sig, f.what, replay.clone());
    }
}

fn fit_cases(thorough: bool) -> Vec<FitCase> {
    let mut caps: Vec<usize> = (0..=90).collect();
    caps.extend(120..=135);
    caps.extend([255, 256, 1162, 1200, 1452, 1500]);
    caps.extend(16370..=16400);
    caps.extend([65507, 65535]);
    if thorough {
        caps.extend((136..=1500).step_by(7));
    }
    let offsets: Vec<u64> = if thorough {
        vec![0, 1, 63, 64, 16383, 16384, (1 << 30) - 1, 1 << 30, (1 << 61) - 1, 1 << 61, (1 << 62) - 70000, (1 << 62) - 1]
    } else {
        vec![0, 63, 64, 16384, 1 << 30, (1 << 61) - 1, (1 << 62) - 70000]
    };
    let sids: Vec<u64> = if thorough { vec![0, 3, 63, 64, 16383, 16384, (1 << 30) - 1, 1 << 30, (1 << 62) - 1] } else { vec![0, 63, 64, 16384, (1 << 62) - 1] };
    let mut v = vec![];
    for &cap in &caps {
        for &offset in &offsets {
            for nsel in 0..4 {
                v.push(FitCase { stream: false, cap, sid: 0, offset, nsel, fin: false });
            }
            for &sid in &sids {
                for nsel in 0..5 {
                    for fin in [false, true] {
                        v.push(FitCase { stream: true, cap, sid, offset, nsel, fin });
                    }
                }
            }
        }
    }
    v
}

pub fn run(args: &Args, rep: &mut Report) {
    rep.rule = "value = one frame / frame sequence / assembled packet / header / transport-parameter set / primitive drawn from the \
                boundary-enumerating generators; distinct = distinct encodings (hash of group and written bytes); non-trivial = the value has at \
                least one field (PADDING, PING and HANDSHAKE_DONE are counted as evaluations only)"
        .into();
    let mut st = Stats::default();
    if let Some(path) = args.get("replay") {
        let v: Value = serde_json::from_str(&std::fs::read_to_string(path).unwrap()).unwrap();
        let v = if v.get("replay").is_some() { v["replay"].clone() } else { v };
        rep.evaluations += 1;
        let group = v["group"].as_str().unwrap_or("frame").to_string();
        if group == "fit" {
            let c = FitCase::from_json(&v);
            let (fails, _) = check_fit(&c);
            report(rep, fails, v.clone());
        } else {
            let trace: Vec<u64> = v["trace"].as_array().unwrap().iter().map(|x| x.as_u64().unwrap()).collect();
            let mut s = Src::replay(trace);
            let (fails, _, _) = run_group(&group, &mut s, &mut st, rep);
            report(rep, fails, v.clone());
        }
        return;
    }
    let thorough = args.get("tier") == Some("thorough");
    let shard = args.u64("shard", 0);
    let shards = args.u64("shards", 1);
    let seed = args.seed();

    let t0 = std::time::Instant::now(); // for a cost note only, never for a verdict
    // 1. exhaustive boundary enumeration of every generator (depth-first over its choices)
    // interpreter leg (Miri): the first `enum-cap` boundary values of every generator, every 97th sizing sequence
    // and `--budget` random values -- the same oracles, so that every encoder / decoder / PacketWriter path is
    // executed under the interpreter's bounds, alignment, validity and aliasing checks
    let interp = args.flag("interp");
    let enum_cap = args.u64("enum-cap", if interp { 40 } else if thorough { 5_000_000 } else { 400_000 });
    let mut idx = 0u64;
    for group in ["frame", "header", "params", "prim"] {
        let mut digits = vec![];
        let mut n_group = 0u64;
        loop {
            let mine = idx % shards == shard;
            idx += 1;
            n_group += 1;
            let mut s = Src::enumerate(digits.clone());
            if mine {
                let (fails, h, nontrivial) = run_group(group, &mut s, &mut st, rep);
                rep.evaluations += 1;
                rep.count(&format!("enumerated.{group}"));
                if nontrivial {
                    rep.distinct(h);
                }
                if !fails.is_empty() {
                    report(rep, fails, json!({"kind":"c05","group":group,"trace":s.trace}));
                }
            } else {
                // walk the generator only, to advance the odometer
                match group {
                    "frame" => {
                        g::gen_frame(&mut s);
                    }
                    "header" => {
                        let mut st2 = Stats::default();
                        // header generation draws the payload after the header: replicate cheaply
                        let _ = check_header(&mut s, &mut st2);
                    }
                    "params" => {
                        g::gen_params(&mut s);
                    }
                    _ => {
                        let mut st2 = Stats::default();
                        let _ = check_prim(&mut s, &mut st2);
                    }
                }
            }
            match s.next_digits() {
                Some(d) if n_group < enum_cap => digits = d,
                Some(_) => {
                    rep.exhaustive = Some(false);
                    if !interp {
                        rep.notes.push(format!("enumeration of group {group} capped at {enum_cap}"));
                    }
                    break;
                }
                None => break,
            }
        }
        rep.max(&format!("max_enumeration_size.{group}"), n_group);
        if shard == 0 {
            rep.notes.push(format!("shard 0: enumeration of {group} done at {:.1}s", t0.elapsed().as_secs_f64()));
        }
    }
    if rep.exhaustive.is_none() {
        rep.exhaustive = Some(true);
    }

    // 2. sizing sequences
    for (i, c) in fit_cases(thorough).iter().enumerate() {
        if i as u64 % shards != shard || (interp && i % 97 != 0) {
            continue;
        }
        let (fails, exercised) = check_fit(c);
        rep.evaluations += 1;
        if exercised {
            rep.count(if c.stream { "fit_cases.stream" } else { "fit_cases.crypto" });
        } else {
            rep.count("fit_cases.no_room");
        }
        if !fails.is_empty() {
            report(rep, fails, c.to_json());
        }
    }

    if shard == 0 {
        rep.notes.push(format!("shard 0: sizing sequences done at {:.1}s", t0.elapsed().as_secs_f64()));
    }
    // 3. seeded random sampling of the same generators
    let n = args.budget(if thorough { 400_000 } else { 12_000 });
    for i in 0..n {
        let group = GROUPS[(i % GROUPS.len() as u64) as usize];
        let case_seed = vcore::fnv(format!("c05/{seed}/{shard}/{i}").as_bytes());
        let mut s = Src::random(case_seed);
        let (fails, h, nontrivial) = run_group(group, &mut s, &mut st, rep);
        rep.evaluations += 1;
        rep.count(&format!("random.{group}"));
        if nontrivial {
            rep.distinct(h);
        }
        if i < 3 && shard == 0 {
            rep.sample(json!({"group": group, "trace": s.trace.iter().take(24).collect::<Vec<_>>()}));
        }
        if !fails.is_empty() {
            report(rep, fails, json!({"kind":"c05","group":group,"trace":s.trace}));
        }
    }
    rep.add("decodes_compared", st.decodes);
    rep.add("wrong_packet_type_checks", st.wrongtype);
    rep.add("package_fit_checks", st.pkg_fit);
    rep.add("package_refuse_checks", st.pkg_refuse);
    rep.add("bytes_encoded", st.bytes);
    rep.add("param_sets_refused_by_set", st.params_refused);
}
