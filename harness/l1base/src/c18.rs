//! C18 — peer transport parameters are validated and bound to on-wire connection IDs.
//!
//! Four oracles, all driven through the calls `qconnection/src/tls.rs` and
//! `qconnection/src/space/initial.rs` make:
//!
//! * **parse table** (one-directional): `Parameters<Role>::parse_from_bytes(blob) = Ok` implies
//!   that the blob is not in the MUST-reject set written down below from RFC 9000 §7.4 / §18.2
//!   (and RFC 9287 for grease_quic_bit).  The MUST-reject predicate is computed from the blob
//!   *bytes* by an independent TLV reader, so a replay needs only (role, blob).  If a blob with
//!   several defects is accepted, every one of its defect checks failed to fire, so one
//!   violation per defect class is reported.
//!   A rejection must carry `ErrorKind::TransportParameter`.
//!   Sanity clause: blobs that are inside the unambiguously legal region (library `handy` sets,
//!   generated legal sets, unknown / grease ids, values exactly at the bounds) must be accepted,
//!   and the accepted set must hold exactly the values of the blob.
//!   Not judged in either direction: duplicates (SHOULD), `max_udp_payload_size > 65527`.
//!   Panics while parsing are C03's verdict: the blob is skipped and counted.
//! * **binding**: `Parameters::{recv_remote_params, initial_scid_from_peer_need_equal}` in both
//!   orders, CIDs equal / unequal; ready iff both arrived and match, mismatch ⇒
//!   `TransportParameter`, never ready before both, waiters woken.
//! * **idle timeout**: `negotiated_max_idle_timeout` = min non-zero of both sides.
//! * **0-RTT**: `remembered.is_0rtt_accepted(new)` ⇔ all eight remembered limits ≤ new ones.
use std::{
    collections::BTreeSet,
    sync::{
        Arc,
        atomic::{AtomicUsize, Ordering},
    },
    task::{Context, Poll, Wake, Waker},
    time::Duration,
};

use bytes::Bytes;
use qbase::{
    cid::ConnectionId,
    error::{ErrorKind, QuicError},
    param::{
        ArcParameters, ClientParameters, ParameterId, Parameters, ServerParameters, WriteParameters,
        handy,
    },
    token::ResetToken,
    varint::VarInt,
};
use serde_json::{Value, json};
use vcore::{Args, Report, Rng, hex, unhex};

// ------------------------------------------------------------------------------------------------
// the table (RFC 9000 §18.2, RFC 9221 §3, RFC 9287 §3, plus the library's own client_name)
// ------------------------------------------------------------------------------------------------

#[derive(Clone, Copy, PartialEq, Eq, Debug)]
enum Ty {
    Var,
    Flag,
    Cid,
    Token,
    Pref,
    Bytes,
}

#[derive(Clone, Copy, PartialEq, Eq, Debug)]
enum Sender {
    Client,
    Server,
}

impl Sender {
    fn name(self) -> &'static str {
        match self {
            Sender::Client => "client",
            Sender::Server => "server",
        }
    }
    fn from_name(s: &str) -> Sender {
        if s == "server" { Sender::Server } else { Sender::Client }
    }
}

struct Known {
    id: u64,
    name: &'static str,
    ty: Ty,
    /// may only be sent by a server
    server_only: bool,
    /// may only be sent by a client
    client_only: bool,
}

const fn k(id: u64, name: &'static str, ty: Ty, server_only: bool, client_only: bool) -> Known {
    Known { id, name, ty, server_only, client_only }
}

const KNOWN: [Known; 20] = [
    k(0x00, "original_destination_connection_id", Ty::Cid, true, false),
    k(0x01, "max_idle_timeout", Ty::Var, false, false),
    k(0x02, "stateless_reset_token", Ty::Token, true, false),
    k(0x03, "max_udp_payload_size", Ty::Var, false, false),
    k(0x04, "initial_max_data", Ty::Var, false, false),
    k(0x05, "initial_max_stream_data_bidi_local", Ty::Var, false, false),
    k(0x06, "initial_max_stream_data_bidi_remote", Ty::Var, false, false),
    k(0x07, "initial_max_stream_data_uni", Ty::Var, false, false),
    k(0x08, "initial_max_streams_bidi", Ty::Var, false, false),
    k(0x09, "initial_max_streams_uni", Ty::Var, false, false),
    k(0x0a, "ack_delay_exponent", Ty::Var, false, false),
    k(0x0b, "max_ack_delay", Ty::Var, false, false),
    k(0x0c, "disable_active_migration", Ty::Flag, false, false),
    k(0x0d, "preferred_address", Ty::Pref, true, false),
    k(0x0e, "active_connection_id_limit", Ty::Var, false, false),
    k(0x0f, "initial_source_connection_id", Ty::Cid, false, false),
    k(0x10, "retry_source_connection_id", Ty::Cid, true, false),
    k(0x20, "max_datagram_frame_size", Ty::Var, false, false),
    k(0x2ab2, "grease_quic_bit", Ty::Flag, false, false),
    k(0xffee, "client_name", Ty::Bytes, false, true),
];

fn known(id: u64) -> Option<&'static Known> {
    KNOWN.iter().find(|k| k.id == id)
}

/// durations are carried as milliseconds
fn is_duration(id: u64) -> bool {
    id == 0x01 || id == 0x0b
}

const P60: u64 = 1 << 60;
const VMAX: u64 = (1 << 62) - 1;

/// value rule of RFC 9000 §18.2 for an integer parameter: Some(reason) if the value MUST be rejected
fn value_must_reject(id: u64, v: u64) -> Option<&'static str> {
    match id {
        0x03 if v < 1200 => Some("max_udp_payload_size-lt-1200"),
        0x08 if v > P60 => Some("initial_max_streams_bidi-gt-2pow60"),
        0x09 if v > P60 => Some("initial_max_streams_uni-gt-2pow60"),
        0x0a if v > 20 => Some("ack_delay_exponent-gt-20"),
        0x0b if v >= 1 << 14 => Some("max_ack_delay-ge-2pow14"),
        0x0e if v < 2 => Some("active_connection_id_limit-lt-2"),
        _ => None,
    }
}

/// values the RFC does not call invalid but the library may refuse: judged in neither direction
fn value_dont_care(id: u64, v: u64) -> bool {
    // exactly 2^60 streams: legal per RFC 9000 §4.6, but the library's own stream-count limit
    // (qbase::sid::MAX_STREAMS_LIMIT = 2^60-1, also applied to MAX_STREAMS frames, recorded under
    // C05.roundtrip:max_streams.rejected:2^60) refuses it: stricter than the RFC, not a C18 violation
    (id == 0x03 && v > 65527) || ((id == 0x08 || id == 0x09) && v == P60)
}

// ------------------------------------------------------------------------------------------------
// independent wire reader / writer
// ------------------------------------------------------------------------------------------------

fn vi(b: &[u8]) -> Option<(u64, usize)> {
    let first = *b.first()?;
    let n = 1usize << (first >> 6);
    if b.len() < n {
        return None;
    }
    let mut v = (first & 0x3f) as u64;
    for x in &b[1..n] {
        v = (v << 8) | *x as u64;
    }
    Some((v, n))
}

fn vi_min_width(v: u64) -> usize {
    if v < 1 << 6 {
        1
    } else if v < 1 << 14 {
        2
    } else if v < 1 << 30 {
        4
    } else {
        8
    }
}

/// width 0 = minimal
fn put_vi(out: &mut Vec<u8>, v: u64, width: usize) {
    let w = if width == 0 { vi_min_width(v) } else { width.max(vi_min_width(v)) };
    let tag = match w {
        1 => 0u8,
        2 => 1,
        4 => 2,
        _ => 3,
    };
    let be = v.to_be_bytes();
    let start = out.len();
    out.extend_from_slice(&be[8 - w..]);
    out[start] |= tag << 6;
}

fn vi_bytes(v: u64, width: usize) -> Vec<u8> {
    let mut o = vec![];
    put_vi(&mut o, v, width);
    o
}

type Ent = (u64, Vec<u8>);

fn encode(ents: &[Ent]) -> Vec<u8> {
    let mut o = vec![];
    for (id, body) in ents {
        put_vi(&mut o, *id, 0);
        put_vi(&mut o, body.len() as u64, 0);
        o.extend_from_slice(body);
    }
    o
}

/// id / length varints in random (possibly non-minimal) widths
fn encode_wide(ents: &[Ent], rng: &mut Rng) -> Vec<u8> {
    let mut o = vec![];
    for (id, body) in ents {
        put_vi(&mut o, *id, [0, 1, 2, 4, 8][rng.usize(5)]);
        put_vi(&mut o, body.len() as u64, [0, 1, 2, 4, 8][rng.usize(5)]);
        o.extend_from_slice(body);
    }
    o
}

fn tlv(mut b: &[u8]) -> Result<Vec<(u64, &[u8])>, ()> {
    let mut out = vec![];
    while !b.is_empty() {
        let (id, n) = vi(b).ok_or(())?;
        b = &b[n..];
        let (len, n) = vi(b).ok_or(())?;
        b = &b[n..];
        if (b.len() as u64) < len {
            return Err(());
        }
        out.push((id, &b[..len as usize]));
        b = &b[len as usize..];
    }
    Ok(out)
}

/// The oracle's reading of one blob.
struct Judged {
    /// defect classes that each require rejection (empty = not in MUST-reject)
    reasons: Vec<String>,
    /// inside the unambiguously legal region (must be accepted)
    must_accept: bool,
}

fn judge(sender: Sender, blob: &[u8]) -> Judged {
    let Ok(ents) = tlv(blob) else {
        return Judged { reasons: vec!["truncated-tlv".into()], must_accept: false };
    };
    let mut reasons: BTreeSet<String> = BTreeSet::new();
    let mut dont_care = false;
    let mut seen = BTreeSet::new();
    for (id, body) in &ents {
        if !seen.insert(*id) {
            dont_care = true; // duplicates: SHOULD-level
        }
        let Some(kn) = known(*id) else { continue };
        if sender == Sender::Client && kn.server_only {
            reasons.insert(format!("role:{}-from-client", kn.name));
            continue;
        }
        if sender == Sender::Server && kn.client_only {
            reasons.insert(format!("role:{}-from-server", kn.name));
            continue;
        }
        match kn.ty {
            Ty::Var => match vi(body) {
                Some((v, n)) if n == body.len() => {
                    if let Some(r) = value_must_reject(*id, v) {
                        reasons.insert(r.to_string());
                    }
                    if value_dont_care(*id, v) {
                        dont_care = true;
                    }
                }
                _ => {
                    reasons.insert(format!("length:varint:{}", kn.name));
                }
            },
            Ty::Flag => {
                if !body.is_empty() {
                    reasons.insert(format!("length:flag-with-body:{}", kn.name));
                }
            }
            Ty::Cid => {
                if body.len() > 20 {
                    reasons.insert(format!("length:cid-gt-20:{}", kn.name));
                }
            }
            Ty::Token => {
                if body.len() != 16 {
                    reasons.insert("length:reset-token-not-16".to_string());
                }
            }
            Ty::Pref => {
                // 4+2, 16+2, cid len (1), cid, token (16)
                if body.len() < 25 {
                    reasons.insert("length:preferred_address".to_string());
                } else {
                    let cl = body[24] as usize;
                    if cl > 20 || body.len() != 25 + cl + 16 {
                        reasons.insert("length:preferred_address".to_string());
                    } else if cl == 0 {
                        reasons.insert("preferred_address-zero-length-cid".to_string());
                    }
                }
            }
            Ty::Bytes => {}
        }
    }
    if !seen.contains(&0x0f) {
        reasons.insert("missing:initial_source_connection_id".into());
    }
    if sender == Sender::Server && !seen.contains(&0x00) {
        reasons.insert("missing:original_destination_connection_id".into());
    }
    let must_accept = reasons.is_empty() && !dont_care;
    Judged { reasons: reasons.into_iter().collect(), must_accept }
}

// ------------------------------------------------------------------------------------------------
// the code under test
// ------------------------------------------------------------------------------------------------

enum Parsed {
    C(ClientParameters),
    S(ServerParameters),
}

impl Parsed {
    fn get<V: TryFrom<qbase::param::ParameterValue>>(&self, id: ParameterId) -> Option<V> {
        match self {
            Parsed::C(p) => p.get(id),
            Parsed::S(p) => p.get(id),
        }
    }
    fn contains(&self, id: ParameterId) -> bool {
        match self {
            Parsed::C(p) => p.contains(id),
            Parsed::S(p) => p.contains(id),
        }
    }
}

fn parse(sender: Sender, blob: &[u8]) -> Result<Result<Parsed, QuicError>, vcore::panics::PanicRecord> {
    vcore::panics::catch(|| match sender {
        Sender::Client => ClientParameters::parse_from_bytes(blob).map(Parsed::C),
        Sender::Server => ServerParameters::parse_from_bytes(blob).map(Parsed::S),
    })
}

fn pid(id: u64) -> ParameterId {
    ParameterId::try_from(VarInt::from_u64(id).unwrap()).expect("table id is a library id")
}

/// accepted set must hold exactly what the blob says (only called for must-accept blobs: no duplicates)
fn fidelity(p: &Parsed, blob: &[u8]) -> Option<(String, String)> {
    let ents = tlv(blob).ok()?;
    for kn in KNOWN.iter() {
        let id = pid(kn.id);
        let ent = ents.iter().find(|(i, _)| *i == kn.id);
        match ent {
            None => {
                if p.contains(id) {
                    return Some((kn.name.to_string(), "present in the accepted set but absent from the blob".into()));
                }
            }
            Some((_, body)) => {
                if !p.contains(id) {
                    return Some((kn.name.to_string(), "absent from the accepted set but present in the blob".into()));
                }
                let ok = match kn.ty {
                    Ty::Var => {
                        let v = vi(body).unwrap().0;
                        if is_duration(kn.id) {
                            p.get::<Duration>(id) == Some(Duration::from_millis(v))
                        } else {
                            p.get::<VarInt>(id).map(|x| x.into_u64()) == Some(v)
                        }
                    }
                    Ty::Flag => p.get::<bool>(id) == Some(true),
                    Ty::Cid => p.get::<ConnectionId>(id) == Some(ConnectionId::from_slice(body)),
                    Ty::Token => p.get::<ResetToken>(id) == Some(ResetToken::new(body)),
                    Ty::Bytes => p.get::<Bytes>(id).as_deref() == Some(&body[..]),
                    Ty::Pref => match p.get::<qbase::param::preferred_address::PreferredAddress>(id) {
                        Some(a) => {
                            let cl = body[24] as usize;
                            a.address_v4().ip().octets() == body[0..4]
                                && a.address_v4().port() == u16::from_be_bytes([body[4], body[5]])
                                && a.address_v6().ip().octets() == body[6..22]
                                && a.address_v6().port() == u16::from_be_bytes([body[22], body[23]])
                                && a.connection_id() == ConnectionId::from_slice(&body[25..25 + cl])
                                && a.stateless_reset_token() == ResetToken::new(&body[25 + cl..])
                        }
                        None => false,
                    },
                };
                if !ok {
                    return Some((kn.name.to_string(), format!("accepted value differs from the blob's value {}", hex(body))));
                }
            }
        }
    }
    None
}

/// which single entry, when removed, turns a wrongly rejected legal blob into an accepted one
fn culprit(sender: Sender, blob: &[u8]) -> String {
    let Ok(ents) = tlv(blob) else { return "unparsable".into() };
    for skip in 0..ents.len() {
        let (id, _) = ents[skip];
        if id == 0x0f || (sender == Sender::Server && id == 0x00) {
            continue;
        }
        let rest: Vec<Ent> = ents.iter().enumerate().filter(|(i, _)| *i != skip).map(|(_, (i, b))| (*i, b.to_vec())).collect();
        if let Ok(Ok(_)) = parse(sender, &encode(&rest)) {
            return match known(id) {
                Some(kn) => kn.name.to_string(),
                None => "unknown-id".to_string(),
            };
        }
    }
    "no-single-entry".into()
}

fn kind_name(k: ErrorKind) -> String {
    format!("{k:?}")
}

/// Evaluate one blob against the parse-table oracle.
fn eval_blob(rep: &mut Report, sender: Sender, blob: &[u8], family: &str) {
    rep.evaluations += 1;
    rep.count("parse_blobs");
    let j = judge(sender, blob);
    let replay = || json!({"kind": "parse", "sender": sender.name(), "blob": hex(blob), "family": family});
    if !j.reasons.is_empty() {
        rep.count("parse_must_reject_blobs");
        for r in &j.reasons {
            // evidence: which defect classes were actually exercised
            rep.set("must_reject_classes", vcore::fnv_str(r));
        }
    } else if j.must_accept {
        rep.count("parse_must_accept_blobs");
    } else {
        rep.count("parse_unjudged_blobs");
    }
    match parse(sender, blob) {
        Err(p) => {
            // decoding panics are C03's verdict; the blob is skipped here
            rep.count("parse_panics_skipped");
            let loc = vcore::panics::short_location(&p.location);
            rep.set("parse_panic_locations", vcore::fnv_str(&loc));
            let note = format!("parse panic skipped (C03's verdict) at {loc}");
            if !rep.notes.contains(&note) {
                rep.notes.push(note);
            }
        }
        Ok(Ok(parsed)) => {
            rep.count("parse_accepted");
            for r in &j.reasons {
                rep.violation(
                    format!("C18.accept-must-reject:{r}"),
                    format!("{} blob {} accepted by parse_from_bytes although RFC 9000 requires TRANSPORT_PARAMETER_ERROR ({r}; family {family})", sender.name(), hex(blob)),
                    replay(),
                );
            }
            if j.must_accept {
                rep.count("parse_must_accept_accepted");
                if let Some((name, what)) = fidelity(&parsed, blob) {
                    rep.violation(format!("C18.accept.value-mismatch:{name}"), format!("{} blob {}: {name} {what}", sender.name(), hex(blob)), replay());
                }
            }
        }
        Ok(Err(e)) => {
            rep.count("parse_rejected");
            if !j.reasons.is_empty() {
                rep.count("parse_must_reject_rejected");
            }
            if e.kind() != ErrorKind::TransportParameter {
                rep.violation(
                    format!("C18.error-kind:{}", kind_name(e.kind())),
                    format!("{} blob {} rejected with {:?} instead of TransportParameter: {}", sender.name(), hex(blob), e.kind(), e.reason()),
                    replay(),
                );
            }
            if j.must_accept {
                let c = culprit(sender, blob);
                rep.violation(
                    format!("C18.reject-legal:{c}"),
                    format!("legal {} blob {} rejected: {} (family {family})", sender.name(), hex(blob), e.reason()),
                    replay(),
                );
            }
        }
    }
}

// ------------------------------------------------------------------------------------------------
// blob generators
// ------------------------------------------------------------------------------------------------

const VALS: [u64; 34] = [
    0,
    1,
    2,
    3,
    19,
    20,
    21,
    63,
    64,
    1199,
    1200,
    1201,
    16382,
    16383,
    16384,
    16385,
    65526,
    65527,
    65528,
    (1 << 30) - 1,
    1 << 30,
    (1 << 30) + 1,
    (1 << 32) - 1,
    1 << 32,
    P60 - 1,
    P60,
    P60 + 1,
    P60 + 2,
    1 << 61,
    VMAX - 1,
    VMAX,
    25,
    1000,
    30000,
];

/// a legal integer value for `id` (inside the unambiguous region)
fn legal_value(rng: &mut Rng, id: u64) -> u64 {
    let (lo, hi) = match id {
        0x03 => (1200, 65527),
        0x08 | 0x09 => (0, P60 - 1), // 2^60 itself is in the dont-care region (library limit is 2^60-1)
        0x0a => (0, 20),
        0x0b => (0, (1 << 14) - 1),
        0x0e => (2, VMAX),
        _ => (0, VMAX),
    };
    match rng.below(4) {
        0 => lo,
        1 => hi,
        2 => lo + rng.below((hi - lo).min(100) + 1),
        _ => {
            let v = rng.varint_boundary();
            if v < lo || v > hi { lo + rng.below(hi - lo + 1) } else { v }
        }
    }
}

fn rand_cid(rng: &mut Rng, min: usize) -> Vec<u8> {
    let l = match rng.below(5) {
        0 => min,
        1 => 20,
        2 => 8,
        _ => rng.range(min as u64, 20) as usize,
    };
    rng.bytes(l)
}

fn pref_body(rng: &mut Rng, cid_len: usize) -> Vec<u8> {
    let mut b = rng.bytes(24);
    b.push(cid_len as u8);
    b.extend(rng.bytes(cid_len));
    b.extend(rng.bytes(16));
    b
}

fn legal_body(rng: &mut Rng, kn: &Known) -> Vec<u8> {
    match kn.ty {
        Ty::Var => {
            let v = legal_value(rng, kn.id);
            vi_bytes(v, [0, 0, 1, 2, 4, 8][rng.usize(6)])
        }
        Ty::Flag => vec![],
        Ty::Cid => rand_cid(rng, 0),
        Ty::Token => rng.bytes(16),
        Ty::Pref => {
            let l = rng.range(1, 20) as usize;
            pref_body(rng, l)
        }
        Ty::Bytes => {
            let l = rng.below(40) as usize;
            rng.bytes(l)
        }
    }
}

fn allowed(sender: Sender, kn: &Known) -> bool {
    !(sender == Sender::Client && kn.server_only) && !(sender == Sender::Server && kn.client_only)
}

/// every id the sender may send, each with a legal value
fn full_set(rng: &mut Rng, sender: Sender) -> Vec<Ent> {
    KNOWN.iter().filter(|k| allowed(sender, k)).map(|k| (k.id, legal_body(rng, k))).collect()
}

/// only the mandatory ids
fn minimal_set(rng: &mut Rng, sender: Sender) -> Vec<Ent> {
    let mut v = vec![(0x0f, rand_cid(rng, 0))];
    if sender == Sender::Server {
        v.push((0x00, rand_cid(rng, 0)));
    }
    v
}

fn unknown_id(rng: &mut Rng) -> u64 {
    loop {
        let id = match rng.below(5) {
            0 => 27 + 31 * rng.below(1 << 20),                    // reserved grease ids 31*N+27
            1 => 27 + 31 * rng.below((VMAX - 27) / 31),           // .. over the whole range
            2 => rng.range(0x11, 0x1f),                           // neighbours of the defined ids
            3 => *rng.pick(&[0x21u64, 0x2ab1, 0x2ab3, 0xffed, 0xffef, 0x3f, 0x40, 0x3fff, 0x4000, VMAX]),
            _ => rng.varint_boundary(),
        };
        if known(id).is_none() && id <= VMAX {
            return id;
        }
    }
}

/// a body for `kn` carrying one defect of a random kind (or a legal body if the type has none)
fn defect_body(rng: &mut Rng, kn: &Known) -> Vec<u8> {
    match kn.ty {
        Ty::Var => match rng.below(5) {
            0 | 1 => {
                // value beyond a bound where the id has one
                let v = match kn.id {
                    0x03 => *rng.pick(&[0u64, 1, 1199, 1000, 63]),
                    0x08 | 0x09 => *rng.pick(&[P60 + 1, P60 + 2, 1 << 61, VMAX]),
                    0x0a => *rng.pick(&[21u64, 22, 63, 64, 255, VMAX]),
                    0x0b => *rng.pick(&[16384u64, 16385, 1 << 30, VMAX]),
                    0x0e => rng.below(2),
                    _ => return vi_bytes(rng.varint_boundary(), 0),
                };
                vi_bytes(v, [0, 8][rng.usize(2)])
            }
            2 => vec![],                                           // empty body
            3 => {
                // varint followed by trailing bytes
                let mut b = vi_bytes(legal_value(rng, kn.id), 0);
                let n = rng.range(1, 3) as usize;
                b.extend(rng.bytes(n));
                b
            }
            _ => {
                // body shorter than its own varint prefix says
                let w = *rng.pick(&[2usize, 4, 8]);
                let mut b = vi_bytes(legal_value(rng, kn.id), w);
                let w = b.len();
                b.truncate(rng.range(1, w as u64 - 1) as usize);
                b
            }
        },
        Ty::Flag => {
            let n = rng.range(1, 4) as usize;
            rng.bytes(n)
        }
        Ty::Cid => {
            let n = rng.range(21, 40) as usize;
            rng.bytes(n)
        }
        Ty::Token => {
            let l = *rng.pick(&[0usize, 1, 15, 17, 32]);
            rng.bytes(l)
        }
        Ty::Pref => match rng.below(4) {
            0 => pref_body(rng, 0),
            1 => {
                let mut b = pref_body(rng, 8);
                b.pop();
                b
            }
            2 => {
                let mut b = pref_body(rng, 8);
                b.push(0);
                b
            }
            _ => {
                let mut b = pref_body(rng, 20);
                b[24] = 21;
                b.push(7);
                b
            }
        },
        Ty::Bytes => rng.bytes(3),
    }
}

/// Deterministic table part; `idx % shards == shard` striding.
fn table(rep: &mut Report, rng0: &Rng, shard: u64, shards: u64) {
    let mut idx = 0u64;
    let mine = |idx: &mut u64| {
        *idx += 1;
        (*idx - 1) % shards == shard
    };
    for sender in [Sender::Client, Sender::Server] {
        // the same base sets in every shard (rng0 cloned), so striding partitions one enumeration
        let mut rng = rng0.clone();
        let full = full_set(&mut rng, sender);
        let n = full.len();

        // A. presence: all single and double omissions from the full set, and the full set itself
        if mine(&mut idx) {
            eval_blob(rep, sender, &encode(&full), "full");
        }
        for a in 0..n {
            if mine(&mut idx) {
                let e: Vec<Ent> = full.iter().enumerate().filter(|(i, _)| *i != a).map(|(_, e)| e.clone()).collect();
                eval_blob(rep, sender, &encode(&e), "single-omission");
                rep.count("omission_cases");
            }
            for b in a + 1..n {
                if mine(&mut idx) {
                    let e: Vec<Ent> = full.iter().enumerate().filter(|(i, _)| *i != a && *i != b).map(|(_, e)| e.clone()).collect();
                    eval_blob(rep, sender, &encode(&e), "double-omission");
                    rep.count("omission_cases");
                }
            }
        }
        // each id alone / with the mandatory ones only (includes role-swapped ids: all 20 ids for both senders)
        for kn in KNOWN.iter() {
            if mine(&mut idx) {
                let body = legal_body(&mut rng.fork(kn.id), kn);
                eval_blob(rep, sender, &encode(&[(kn.id, body.clone())]), "single-id");
                let mut e = minimal_set(&mut rng.fork(kn.id ^ 0x55), sender);
                if !e.iter().any(|(i, _)| *i == kn.id) {
                    e.push((kn.id, body));
                }
                eval_blob(rep, sender, &encode(&e), "minimal-plus-one");
                if !allowed(sender, kn) {
                    rep.count("role_swapped_cases");
                }
            }
        }
        // empty blob and mandatory-only blob
        if mine(&mut idx) {
            eval_blob(rep, sender, &[], "empty");
            eval_blob(rep, sender, &encode(&minimal_set(&mut rng.fork(1), sender)), "minimal");
        }

        // B. integer values at and beyond every bound, each varint width, in the minimal and in the full set
        for kn in KNOWN.iter().filter(|k| k.ty == Ty::Var) {
            for v in VALS {
                for w in [1usize, 2, 4, 8] {
                    if w < vi_min_width(v) {
                        continue;
                    }
                    if !mine(&mut idx) {
                        continue;
                    }
                    rep.count("bound_value_cases");
                    let body = vi_bytes(v, w);
                    let mut e = minimal_set(&mut rng.fork(v ^ kn.id), sender);
                    e.push((kn.id, body.clone()));
                    eval_blob(rep, sender, &encode(&e), "bound-value-minimal");
                    let e: Vec<Ent> = full.iter().map(|(i, b)| if *i == kn.id { (*i, body.clone()) } else { (*i, b.clone()) }).collect();
                    eval_blob(rep, sender, &encode(&e), "bound-value-full");
                }
            }
        }

        // C. body lengths 0..=44 for every known id (random content), in the minimal set
        for kn in KNOWN.iter() {
            for len in 0..=44usize {
                if !mine(&mut idx) {
                    continue;
                }
                rep.count("length_cases");
                let mut r = rng.fork(kn.id * 64 + len as u64);
                let mut body = r.bytes(len);
                if kn.ty == Ty::Var && len > 0 && r.bool() {
                    // make the first byte announce a width that is / is not the body length
                    body[0] = (body[0] & 0x3f) | ((r.below(4) as u8) << 6);
                }
                if kn.ty == Ty::Pref && len >= 25 && r.bool() {
                    body[24] = (len as i64 - 41).clamp(0, 255) as u8; // consistent cid length when possible
                }
                let mut e: Vec<Ent> = minimal_set(&mut r, sender).into_iter().filter(|(i, _)| *i != kn.id).collect();
                e.push((kn.id, body));
                eval_blob(rep, sender, &encode(&e), "body-length");
            }
        }

        // F. truncation: every strict prefix of the full blob and of a minimal blob
        let blob = encode(&full);
        for cut in 0..blob.len() {
            if mine(&mut idx) {
                rep.count("truncation_cases");
                eval_blob(rep, sender, &blob[..cut], "prefix-of-full");
            }
        }
    }
}

/// the library's own parameter sets, written by the library's own encoder
fn handy_sets(rep: &mut Report, rng: &mut Rng) {
    for round in 0..8 {
        let iscid = ConnectionId::from_slice(&rand_cid(rng, 0));
        let odcid = ConnectionId::from_slice(&rand_cid(rng, 0));
        let mut c = handy::client_parameters();
        c.set(ParameterId::InitialSourceConnectionId, iscid).unwrap();
        if round % 2 == 1 {
            c.set(ParameterId::MaxDatagramFrameSize, 1200u32).unwrap();
            c.set(ParameterId::ClientName, "client.example".to_string()).unwrap();
        }
        let mut buf: Vec<u8> = vec![];
        buf.put_parameters(&c);
        eval_blob(rep, Sender::Client, &buf, "handy-client");
        if let Ok(Ok(Parsed::C(p))) = parse(Sender::Client, &buf) {
            if p != c {
                rep.violation("C18.accept.value-mismatch:handy-client", format!("handy client set does not survive its own encoding: {}", hex(&buf)), json!({"kind":"parse","sender":"client","blob":hex(&buf),"family":"handy-client"}));
            }
        }
        let mut s = handy::server_parameters();
        s.set(ParameterId::InitialSourceConnectionId, iscid).unwrap();
        s.set(ParameterId::OriginalDestinationConnectionId, odcid).unwrap();
        if round % 2 == 1 {
            s.set(ParameterId::MaxDatagramFrameSize, 65535u32).unwrap();
            s.set(ParameterId::StatelessResetToken, ResetToken::new(&rng.bytes(16))).unwrap();
        }
        let mut buf: Vec<u8> = vec![];
        buf.put_parameters(&s);
        eval_blob(rep, Sender::Server, &buf, "handy-server");
        rep.add("handy_sets", 2);
    }
}

/// random blob: mostly legal entries, a few defects, unknown ids, duplicates, shuffled
fn random_blob(rng: &mut Rng, sender: Sender) -> (Vec<u8>, &'static str) {
    let style = rng.below(10);
    let mut e: Vec<Ent> = vec![];
    // subset of the allowed ids
    let keep = rng.range(0, 100);
    for kn in KNOWN.iter().filter(|k| allowed(sender, k)) {
        let mandatory = kn.id == 0x0f || (kn.id == 0x00 && sender == Sender::Server);
        let p_keep = if mandatory { 97 } else { keep };
        if rng.below(100) < p_keep {
            e.push((kn.id, legal_body(rng, kn)));
        }
    }
    let family = match style {
        0..=3 => "random-legal",
        4 | 5 => {
            // unknown / grease ids with arbitrary bodies
            for _ in 0..rng.range(1, 4) {
                let l = match rng.below(4) {
                    0 => 0,
                    1 => rng.range(1, 8),
                    2 => rng.range(9, 64),
                    _ => rng.range(65, 300),
                } as usize;
                e.push((unknown_id(rng), rng.bytes(l)));
            }
            "random-unknown-ids"
        }
        6 | 7 => {
            // one defect on a random known id
            let kn = rng.pick(&KNOWN);
            let body = defect_body(rng, kn);
            e.retain(|(i, _)| *i != kn.id);
            e.push((kn.id, body));
            "random-one-defect"
        }
        8 => {
            // role-swapped id and/or several defects and/or duplicates
            for _ in 0..rng.range(1, 3) {
                let kn = rng.pick(&KNOWN);
                let body = if rng.bool() { defect_body(rng, kn) } else { legal_body(rng, kn) };
                e.push((kn.id, body));
            }
            "random-multi"
        }
        _ => "random-truncated",
    };
    rng.shuffle(&mut e);
    let mut blob = if rng.chance(1, 4) { encode_wide(&e, rng) } else { encode(&e) };
    if family == "random-truncated" && !blob.is_empty() {
        let cut = rng.below(blob.len() as u64) as usize;
        blob.truncate(cut);
    }
    (blob, family)
}

// ------------------------------------------------------------------------------------------------
// binding / idle timeout
// ------------------------------------------------------------------------------------------------

struct CountWaker(AtomicUsize);
impl Wake for CountWaker {
    fn wake(self: Arc<Self>) {
        self.0.fetch_add(1, Ordering::SeqCst);
    }
}

#[derive(Clone, Debug)]
struct BindCase {
    /// role of the endpoint under test (the peer is the other one)
    local: Sender,
    params_first: bool,
    peer_blob: Vec<u8>,
    observed_scid: Vec<u8>,
    /// client side: DCID of the client's first Initial
    origin_dcid: Vec<u8>,
    /// local max_idle_timeout in ms (0 = none)
    local_idle: u64,
    /// go through ArcParameters (lock_guard / remote_ready) instead of the bare struct
    arc: bool,
}

impl BindCase {
    fn to_json(&self) -> Value {
        json!({"kind": "bind", "local": self.local.name(), "params_first": self.params_first, "peer_blob": hex(&self.peer_blob),
               "observed_scid": hex(&self.observed_scid), "origin_dcid": hex(&self.origin_dcid), "local_idle": self.local_idle, "arc": self.arc})
    }
    fn from_json(v: &Value) -> BindCase {
        BindCase {
            local: Sender::from_name(v["local"].as_str().unwrap()),
            params_first: v["params_first"].as_bool().unwrap(),
            peer_blob: unhex(v["peer_blob"].as_str().unwrap()),
            observed_scid: unhex(v["observed_scid"].as_str().unwrap()),
            origin_dcid: unhex(v["origin_dcid"].as_str().unwrap()),
            local_idle: v["local_idle"].as_u64().unwrap(),
            arc: v["arc"].as_bool().unwrap(),
        }
    }
}

/// what the peer's blob declares, read independently
fn declared(blob: &[u8], id: u64) -> Option<Vec<u8>> {
    tlv(blob).ok()?.iter().find(|(i, _)| *i == id).map(|(_, b)| b.to_vec())
}

enum Handle {
    Bare(Parameters),
    Arc(ArcParameters),
}

impl Handle {
    fn with<T>(&mut self, f: impl FnOnce(&mut Parameters) -> T) -> T {
        match self {
            Handle::Bare(p) => f(p),
            Handle::Arc(a) => {
                let mut g = a.lock_guard().expect("parameters not in error state");
                f(&mut g)
            }
        }
    }
}

/// returns Some((signature, what)) on the first failed expectation
fn run_bind(rep: &mut Report, c: &BindCase) -> Option<(String, String)> {
    let peer = if c.local == Sender::Client { Sender::Server } else { Sender::Client };
    let role = c.local.name();
    // the peer blob must be a legal one; parse it the way tls.rs does
    let parsed = match parse(peer, &c.peer_blob) {
        Ok(Ok(p)) => p,
        _ => {
            rep.inconclusive("binding case with a peer blob the library refuses (generator error)");
            return None;
        }
    };
    let decl_iscid = declared(&c.peer_blob, 0x0f).unwrap_or_default();
    let iscid_match = decl_iscid == c.observed_scid;
    let odcid_match = c.local == Sender::Server || declared(&c.peer_blob, 0x00).unwrap_or_default() == c.origin_dcid;
    let expect_ok = iscid_match && odcid_match;
    let order = if c.params_first { "params-first" } else { "scid-first" };

    let mut h = {
        let p = match c.local {
            Sender::Client => {
                let mut lp = handy::client_parameters();
                lp.set(ParameterId::MaxIdleTimeout, Duration::from_millis(c.local_idle)).unwrap();
                Parameters::new_client(lp, None, ConnectionId::from_slice(&c.origin_dcid))
            }
            Sender::Server => {
                let mut lp = handy::server_parameters();
                lp.set(ParameterId::MaxIdleTimeout, Duration::from_millis(c.local_idle)).unwrap();
                Parameters::new_server(lp)
            }
        };
        if c.arc { Handle::Arc(ArcParameters::from(p)) } else { Handle::Bare(p) }
    };
    let cw = Arc::new(CountWaker(AtomicUsize::new(0)));
    let waker = Waker::from(cw.clone());

    let ready_now = |h: &mut Handle| -> (bool, bool) {
        let mut cx = Context::from_waker(&waker);
        h.with(|p| (p.is_remote_params_ready(), p.poll_ready(&mut cx).is_ready()))
    };

    // before anything arrived
    let (a, b) = ready_now(&mut h);
    if a || b {
        return Some((format!("C18.binding.ready-early:{role}:initially"), "ready before anything arrived".into()));
    }
    let mut parsed = Some(parsed);
    let mut step = |h: &mut Handle, params: bool| -> Result<(), QuicError> {
        if params {
            match parsed.take().unwrap() {
                Parsed::C(p) => h.with(|x| x.recv_remote_params(p)),
                Parsed::S(p) => h.with(|x| x.recv_remote_params(p)),
            }
        } else {
            let cid = ConnectionId::from_slice(&c.observed_scid);
            h.with(|x| x.initial_scid_from_peer_need_equal(cid))
        }
    };
    // first arrival
    let first_is_params = c.params_first;
    let r1 = step(&mut h, first_is_params);
    let what1 = if first_is_params { "params-only" } else { "scid-only" };
    if let Err(e) = &r1 {
        return Some((format!("C18.binding.spurious-error:{role}:after-{what1}"), format!("error after the first of two arrivals: {e}")));
    }
    let (a, b) = ready_now(&mut h);
    if a || b {
        return Some((format!("C18.binding.ready-early:{role}:after-{what1}"), format!("is_remote_params_ready={a} poll_ready={b} after {what1}")));
    }
    if cw.0.load(Ordering::SeqCst) != 0 {
        return Some((format!("C18.binding.ready-early:{role}:woken-after-{what1}"), "waiters woken before both arrived".into()));
    }
    rep.count("binding_not_ready_before_both_checks");
    // second arrival
    let r2 = step(&mut h, !first_is_params);
    let (a, b) = ready_now(&mut h);
    match (expect_ok, r2) {
        (true, Ok(())) => {
            if !(a && b) {
                return Some((format!("C18.binding.not-ready:{role}:{order}"), format!("both arrived and match but is_remote_params_ready={a} poll_ready={b}")));
            }
            if cw.0.load(Ordering::SeqCst) == 0 {
                return Some((format!("C18.binding.no-wake:{role}:{order}"), "became ready but the task that polled poll_ready was not woken".into()));
            }
            rep.count("binding_ready_observed");
            if c.arc {
                if let Handle::Arc(arc) = &h {
                    // remote_ready() must now complete
                    let fut = arc.remote_ready();
                    let mut fut = std::pin::pin!(fut);
                    let mut cx = Context::from_waker(&waker);
                    match std::future::Future::poll(fut.as_mut(), &mut cx) {
                        Poll::Ready(Ok(_)) => rep.count("binding_remote_ready_future_completed"),
                        _ => return Some((format!("C18.binding.not-ready:{role}:remote_ready-future"), "remote_ready() still pending/err after readiness".into())),
                    }
                }
            }
        }
        (true, Err(e)) => {
            return Some((format!("C18.binding.spurious-error:{role}:{order}"), format!("declared ids equal observed ids but: {e}")));
        }
        (false, Ok(())) => {
            let which = if !iscid_match { "iscid" } else { "odcid" };
            return Some((
                format!("C18.binding.mismatch-accepted:{role}:{which}:{order}"),
                format!("declared {which} differs from the observed one but no error was returned (ready={a}/{b}): declared iscid {} observed {}", hex(&decl_iscid), hex(&c.observed_scid)),
            ));
        }
        (false, Err(e)) => {
            if e.kind() != ErrorKind::TransportParameter {
                return Some((format!("C18.binding.mismatch-kind:{}", kind_name(e.kind())), format!("mismatch reported as {:?}", e.kind())));
            }
            if a || b {
                return Some((format!("C18.binding.ready-early:{role}:after-mismatch"), "ready although the ids mismatch".into()));
            }
            rep.count("binding_mismatch_errors_observed");
            return None;
        }
    }
    // idle timeout in force
    let remote_idle = declared(&c.peer_blob, 0x01).and_then(|b| vi(&b)).map(|x| x.0).unwrap_or(0);
    let got = h.with(|p| p.negotiated_max_idle_timeout());
    let (class, expect) = match (c.local_idle, remote_idle) {
        (0, 0) => ("both-zero", None),
        (0, r) => ("local-zero", Some(r)),
        (l, 0) => ("remote-zero", Some(l)),
        (l, r) if l < r => ("local-smaller", Some(l)),
        (l, r) if l > r => ("remote-smaller", Some(r)),
        (l, _) => ("equal", Some(l)),
    };
    rep.count("idle_timeout_checks");
    rep.set("idle_classes", vcore::fnv_str(class));
    let ok = match expect {
        // no timeout at all: the library says Duration::MAX; None is accepted as well
        None => got.is_none() || got == Some(Duration::MAX),
        Some(ms) => got == Some(Duration::from_millis(ms)),
    };
    if !ok {
        return Some((format!("C18.idle-timeout:{class}"), format!("local {} ms, peer {} ms, negotiated_max_idle_timeout() = {:?}", c.local_idle, remote_idle, got)));
    }
    // the value the connection really uses: qbase::time::ArcIdleConfig, created with the local value and fed the
    // peer's value by qconnection's builder.  It has no accessor; its Debug form is read, and a form that cannot
    // be read is counted and skipped, never judged.
    let cfg = qbase::time::ArcIdleConfig::new(Duration::from_millis(c.local_idle), Duration::from_secs(3600));
    cfg.negotiate_max_idle_timeout(Duration::from_millis(remote_idle));
    match debug_duration_field(&format!("{cfg:?}"), "max_idle_timeout") {
        Some(eff) => {
            rep.count("idle_config_effective_checks");
            let want = expect.map(Duration::from_millis).unwrap_or(Duration::ZERO);
            if eff != want {
                return Some((
                    format!("C18.idle-timeout.effective:{class}"),
                    format!("local {} ms, peer {} ms: the idle configuration in force uses {:?}, the smaller non-zero value is {:?} (zero = none)", c.local_idle, remote_idle, eff, want),
                ));
            }
        }
        None => rep.count("idle_config_debug_form_unreadable"),
    }
    None
}

/// `field: <Duration as Debug>` inside a Debug rendering (e.g. `max_idle_timeout: 1.5s`)
fn debug_duration_field(dbg: &str, field: &str) -> Option<Duration> {
    let i = dbg.find(&format!("{field}: "))? + field.len() + 2;
    let rest = &dbg[i..];
    let end = rest.find([',', ' ', '}', ')']).unwrap_or(rest.len());
    let tok = &rest[..end];
    let split = tok.find(|c: char| !(c.is_ascii_digit() || c == '.'))?;
    // exact decimal arithmetic (the values go up to 2^62 ms)
    let digits: u32 = match &tok[split..] {
        "ns" => 0,
        "µs" | "us" => 3,
        "ms" => 6,
        "s" => 9,
        _ => return None,
    };
    let (int, frac) = tok[..split].split_once('.').unwrap_or((&tok[..split], ""));
    let int: u128 = int.parse().ok()?;
    let mut frac: String = frac.chars().take(digits as usize).collect();
    while (frac.len() as u32) < digits {
        frac.push('0');
    }
    let frac: u128 = if frac.is_empty() { 0 } else { frac.parse().ok()? };
    let nanos = int.checked_mul(10u128.pow(digits))?.checked_add(frac)?;
    Some(Duration::new(u64::try_from(nanos / 1_000_000_000).ok()?, (nanos % 1_000_000_000) as u32))
}

fn eval_bind(rep: &mut Report, c: &BindCase) {
    rep.evaluations += 1;
    rep.count("binding_cases");
    let r = vcore::panics::catch(|| {
        let mut sub = Report::new("C18", 0);
        let r = run_bind(&mut sub, c);
        (sub, r)
    });
    match r {
        Ok((sub, res)) => {
            for (k, v) in &sub.counters {
                rep.add(k, *v);
            }
            for (k, s) in &sub.sets {
                for h in s {
                    rep.set(k, *h);
                }
            }
            for i in sub.inconclusive {
                rep.inconclusive(i);
            }
            if let Some((sig, what)) = res {
                rep.violation(sig, format!("{what} :: {}", c.to_json()), c.to_json());
            }
        }
        Err(p) => {
            let loc = vcore::panics::short_location(&p.location);
            rep.violation(format!("C18.panic:{loc}"), format!("panic in the binding calls: {} at {loc}", p.message), c.to_json());
        }
    }
}

/// unequal-by-construction variants of a CID
fn cid_variants(rng: &mut Rng, base: &[u8]) -> Vec<(&'static str, Vec<u8>)> {
    let mut v = vec![("equal", base.to_vec())];
    if !base.is_empty() {
        let mut x = base.to_vec();
        let i = rng.usize(x.len());
        x[i] ^= 1 << rng.below(8);
        v.push(("one-bit", x));
        let mut x = base.to_vec();
        let last = x.len() - 1;
        x[last] = x[last].wrapping_add(1);
        v.push(("last-byte", x));
        v.push(("prefix", base[..base.len() - 1].to_vec()));
        v.push(("empty", vec![]));
    }
    if base.len() < 20 {
        let mut x = base.to_vec();
        x.push(0);
        v.push(("zero-extended", x));
    }
    if !base.is_empty() {
        v.push(("random-same-len", rng.bytes(base.len())));
    }
    v
}

const IDLE: [u64; 9] = [0, 1, 999, 1000, 20_000, 30_000, 30_001, 1 << 32, VMAX];

fn binding(rep: &mut Report, rng: &mut Rng, shard: u64, shards: u64, rounds: u64) {
    let mut idx = 0u64;
    for round in 0..rounds {
        for local in [Sender::Client, Sender::Server] {
            let peer = if local == Sender::Client { Sender::Server } else { Sender::Client };
            for len in [0usize, 1, 4, 8, 19, 20] {
                let iscid = rng.bytes(len);
                let odcid_len = *rng.pick(&[0usize, 1, 8, 20]);
                let odcid = rng.bytes(odcid_len);
                let iv = cid_variants(rng, &iscid);
                let ov = if local == Sender::Client { cid_variants(rng, &odcid) } else { vec![("equal", odcid.clone())] };
                // every single mismatch, a few double mismatches, and the matching pair several times
                let mut pairs: Vec<(&'static str, Vec<u8>, &'static str, Vec<u8>)> = vec![];
                for (iname, observed) in &iv {
                    pairs.push((*iname, observed.clone(), "equal", odcid.clone()));
                }
                for (oname, origin) in ov.iter().skip(1) {
                    pairs.push(("equal", iscid.clone(), *oname, origin.clone()));
                    let (iname, observed) = rng.pick(&iv).clone();
                    pairs.push((iname, observed, *oname, origin.clone()));
                }
                for _ in 0..3 {
                    pairs.push(("equal", iscid.clone(), "equal", odcid.clone()));
                }
                {
                    for (iname, observed, oname, origin) in &pairs {
                        for params_first in [true, false] {
                            idx += 1;
                            if idx % shards != shard {
                                // keep the generator streams aligned across shards
                                let _ = rng.next_u64();
                                continue;
                            }
                            let mut r = rng.fork(idx);
                            // peer blob: mandatory ids with the declared CIDs + random other legal ids
                            let mut e: Vec<Ent> = vec![(0x0f, iscid.clone())];
                            if peer == Sender::Server {
                                e.push((0x00, odcid.clone()));
                            }
                            let remote_idle = *r.pick(&IDLE);
                            let has_idle = remote_idle != 0 || r.bool();
                            for kn in KNOWN.iter().filter(|k| allowed(peer, k) && !matches!(k.id, 0x00 | 0x0f | 0x01)) {
                                if r.chance(1, 3) {
                                    e.push((kn.id, legal_body(&mut r, kn)));
                                }
                            }
                            if has_idle {
                                e.push((0x01, vi_bytes(remote_idle, 0)));
                            }
                            r.shuffle(&mut e);
                            let c = BindCase {
                                local,
                                params_first,
                                peer_blob: encode(&e),
                                observed_scid: observed.clone(),
                                origin_dcid: origin.clone(),
                                local_idle: *r.pick(&IDLE),
                                arc: r.bool(),
                            };
                            rep.set("binding_shapes", vcore::fnv_str(&format!("{}/{iname}/{oname}/{params_first}/{}", local.name(), c.arc)));
                            rep.distinct(vcore::fnv_str(&c.to_json().to_string()));
                            if round == 0 && idx % 97 == 0 {
                                rep.sample(c.to_json());
                            }
                            eval_bind(rep, &c);
                        }
                    }
                }
            }
        }
    }
}

// ------------------------------------------------------------------------------------------------
// 0-RTT
// ------------------------------------------------------------------------------------------------

const ZRTT_IDS: [u64; 8] = [0x04, 0x05, 0x06, 0x07, 0x08, 0x09, 0x0e, 0x20];

fn default_of(id: u64) -> u64 {
    if id == 0x0e { 2 } else { 0 }
}

fn eval_0rtt(rep: &mut Report, old: &[u8], new: &[u8]) {
    rep.evaluations += 1;
    rep.count("zero_rtt_cases");
    let replay = json!({"kind": "0rtt", "old": hex(old), "new": hex(new)});
    // remembered parameters are read back with parse_from_bytes (tls.rs load_zero_rtt)
    let (Ok(Ok(Parsed::S(o))), Ok(Ok(Parsed::S(n)))) = (parse(Sender::Server, old), parse(Sender::Server, new)) else {
        rep.inconclusive("0-RTT case with a blob the library refuses (generator error)");
        return;
    };
    let val = |blob: &[u8], id: u64| declared(blob, id).and_then(|b| vi(&b)).map(|x| x.0).unwrap_or(default_of(id));
    let smaller: Vec<u64> = ZRTT_IDS.iter().copied().filter(|id| val(new, *id) < val(old, *id)).collect();
    let got = match vcore::panics::catch(|| o.is_0rtt_accepted(&n)) {
        Ok(g) => g,
        Err(p) => {
            let loc = vcore::panics::short_location(&p.location);
            rep.violation(format!("C18.panic:{loc}"), format!("is_0rtt_accepted panicked: {}", p.message), replay);
            return;
        }
    };
    if got {
        rep.count("zero_rtt_accepted");
    } else {
        rep.count("zero_rtt_refused");
    }
    if got && !smaller.is_empty() {
        let name = known(smaller[0]).unwrap().name;
        rep.violation(
            format!("C18.0rtt.accepted-smaller:{name}"),
            format!("remembered {name} = {} but new = {}: 0-RTT still accepted", val(old, smaller[0]), val(new, smaller[0])),
            replay,
        );
    } else if !got && smaller.is_empty() {
        rep.violation("C18.0rtt.refused-no-smaller", "no new limit is smaller than the remembered one but 0-RTT is refused".to_string(), replay);
    }
}

fn server_blob_with(rng: &mut Rng, vals: &[(u64, Option<u64>)]) -> Vec<u8> {
    let mut e = minimal_set(rng, Sender::Server);
    for (id, v) in vals {
        if let Some(v) = v {
            e.push((*id, vi_bytes(*v, 0)));
        }
    }
    rng.shuffle(&mut e);
    encode(&e)
}

fn zero_rtt(rep: &mut Report, rng: &mut Rng, shard: u64, shards: u64, random: u64) {
    // table: one id differs, all (old, new) pairs over a small value set incl. absent
    let mut idx = 0u64;
    for id in ZRTT_IDS {
        let lo = if id == 0x0e { 2 } else { 0 };
        let hi = if id == 0x08 || id == 0x09 { P60 - 1 } else { VMAX };
        let vals: Vec<Option<u64>> = vec![None, Some(lo), Some(lo + 1), Some(3), Some(100), Some(101), Some(1 << 20), Some(hi - 1), Some(hi)];
        for a in &vals {
            for b in &vals {
                idx += 1;
                if idx % shards != shard {
                    continue;
                }
                // the other seven: equal, or new larger
                let mut ov = vec![(id, *a)];
                let mut nv = vec![(id, *b)];
                for other in ZRTT_IDS.iter().filter(|x| **x != id) {
                    let base = legal_value(rng, *other).min(P60 - 2).max(2);
                    ov.push((*other, Some(base)));
                    nv.push((*other, Some(base + rng.below(2))));
                }
                eval_0rtt(rep, &server_blob_with(rng, &ov), &server_blob_with(rng, &nv));
            }
        }
    }
    for _ in 0..random {
        let mut ov = vec![];
        let mut nv = vec![];
        for id in ZRTT_IDS {
            let lo = if id == 0x0e { 2 } else { 0 };
            let base = lo + rng.below(1000);
            let o = if rng.chance(1, 6) { None } else { Some(base) };
            let n = match rng.below(8) {
                0 => None,
                1 => Some(base.saturating_sub(1).max(lo)),
                2 => Some(base + 1),
                _ => Some(base),
            };
            ov.push((id, o));
            nv.push((id, n));
        }
        eval_0rtt(rep, &server_blob_with(rng, &ov), &server_blob_with(rng, &nv));
    }
}

// ------------------------------------------------------------------------------------------------

fn replay(rep: &mut Report, v: &Value) {
    match v["kind"].as_str().unwrap_or("") {
        "parse" => {
            let sender = Sender::from_name(v["sender"].as_str().unwrap());
            eval_blob(rep, sender, &unhex(v["blob"].as_str().unwrap()), v["family"].as_str().unwrap_or("replay"));
        }
        "bind" => eval_bind(rep, &BindCase::from_json(v)),
        "0rtt" => eval_0rtt(rep, &unhex(v["old"].as_str().unwrap()), &unhex(v["new"].as_str().unwrap())),
        other => rep.inconclusive(format!("unknown replay kind {other:?}")),
    }
}

pub fn run(args: &Args, rep: &mut Report) {
    rep.rule = "case = (sender role, transport-parameter blob) or (role, arrival order, declared/observed CIDs, idle values) or \
                (remembered, new) server sets; distinct = distinct case bytes; non-trivial = the blob carries at least one \
                defined id besides the mandatory ones, or is malformed, or the case is a binding / 0-RTT case"
        .into();
    if let Some(path) = args.get("replay") {
        let v: Value = serde_json::from_str(&std::fs::read_to_string(path).unwrap()).unwrap();
        let v = if v.get("replay").is_some() { v["replay"].clone() } else { v };
        replay(rep, &v);
        return;
    }
    let thorough = args.get("tier") == Some("thorough");
    let shard = args.u64("shard", 0);
    let shards = args.u64("shards", 1).max(1);
    let seed = args.seed();

    // 1. deterministic table (same base sets in all shards, strided)
    let base = Rng::new(seed ^ 0xc18_7ab1e);
    table(rep, &base, shard, shards);
    rep.exhaustive = Some(true);

    // 2. library's own sets
    let mut rng = Rng::new(seed ^ 0xc18).fork(shard);
    handy_sets(rep, &mut rng);

    // 3. random blobs
    let n = args.budget(if thorough { 400_000 } else { 30_000 });
    for i in 0..n {
        let sender = if rng.bool() { Sender::Client } else { Sender::Server };
        let (blob, family) = random_blob(&mut rng, sender);
        let nontrivial = match tlv(&blob) {
            Err(()) => true,
            Ok(e) => e.iter().any(|(id, _)| known(*id).is_some() && *id != 0x0f && *id != 0x00),
        };
        if nontrivial {
            rep.distinct(vcore::fnv(&[&[sender as u8][..], &blob[..]].concat()));
        }
        if i < 3 {
            rep.sample(json!({"kind": "parse", "sender": sender.name(), "blob": hex(&blob), "family": family}));
        }
        eval_blob(rep, sender, &blob, family);
    }
    rep.add("random_blobs", n);

    // 4. binding + idle timeout
    let mut brng = Rng::new(seed ^ 0xc18_b1d);
    binding(rep, &mut brng, shard, shards, if thorough { 200 } else { 16 });

    // 5. 0-RTT
    zero_rtt(rep, &mut rng, shard, shards, if thorough { 20_000 } else { 2_000 });
}
