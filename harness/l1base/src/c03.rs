//! C03 — decoding untrusted bytes never panics, hangs or mis-frames.
//!
//! Decoders under test (all in qbase, the only dependency of this crate):
//!   packet  `PacketReader` (be_packet / be_header / be_payload) for every DCID length 0..=20
//!   frame   `FrameReader` (be_frame / complete_frame and the per-frame nom parsers) for every packet type
//!   params  `ClientParameters::parse_from_bytes`, `ServerParameters::parse_from_bytes`,
//!           `ServerParameters::try_from_remembered_bytes`
//!   prim    the nom-style primitives (varint, connection id, addresses, reset token, preferred
//!           address, packet number, frame type, stream id, raw parameter, parameter values)
//! The STUN / forward-header parsers of the receive loop live in qtraversal, which this crate
//! does not link: they are not covered here.
//!
//! Oracle per input (every call under `catch`):
//!   panic        a panic anywhere in the decoder                         C03.panic:<file:line>
//!   no-progress  iterators are stepped by hand with a budget of len+2 steps; every Ok step must
//!                consume >= 1 byte and never more than what is left       C03.no-progress:<decoder>
//!   misframe     element boundaries, types and raw field values are compared with the reference
//!                parsers of codec_ref.rs (RFC 9000 §16-§19)               C03.misframe:<decoder>.<what>
//!   accept       the decoder returns Ok where the RFC leaves only an error  C03.accept:<decoder>.<class>
//!   reject       the decoder refuses bytes that are a well-formed element   C03.reject:<decoder>.<what>
//!   errkind      frame::Error -> QuicError must be FRAME_ENCODING_ERROR, or PROTOCOL_VIOLATION for
//!                a frame in a packet type that does not permit it (RFC 9000 §12.4); parameter
//!                errors must be TRANSPORT_PARAMETER_ERROR (§7.4)          C03.errkind:<decoder>.<class>
//!   dropped      after a datagram-level error the reader is exhausted     C03.not-dropped:packet
//!   value        a decoded frame re-encodes and decodes to itself         C03.value:frame.<kind>
use std::time::Duration;

use bytes::{Bytes, BytesMut};
use qbase::{
    cid::{ConnectionId, be_connection_id},
    error::{ErrorKind, QuicError},
    frame::{FrameReader, GetFrameType, be_frame_type, io::be_frame},
    net::{Family, addr::be_endpoint_addr, be_socket_addr, route::be_link},
    packet::{
        DataHeader, GetDcid, GetScid, Packet, PacketReader, long, take_pn_len,
    },
    param::{ClientParameters, ParameterId, ServerParameters, be_parameter_value, be_raw_parameter, core::Parameters, preferred_address::{PreferredAddress, be_preferred_address}},
    sid::be_streamid,
    token::{ResetToken, be_reset_token},
    varint::{VarInt, be_varint},
};
use serde_json::{Value, json};
use vcore::{Args, Report, Rng, panics::catch};

use crate::{
    codec_gen::{self as g, FRAME_KINDS, PKT_NAMES, Src, VB},
    codec_ref::{self as r, K_FE, K_PV, Verdict},
};

struct Fail {
    sig: String,
    what: String,
}

fn fail(out: &mut Vec<Fail>, sig: String, what: String) {
    out.push(Fail { sig: format!("C03.{sig}"), what });
}

fn panic_loc(p: &vcore::panics::PanicRecord) -> String {
    let l = vcore::panics::short_location(&p.location);
    match l.find("registry/src/") {
        Some(i) => l[i + 13..].splitn(2, '/').nth(1).unwrap_or(&l).to_string(),
        None => l,
    }
}

#[derive(Default)]
struct Obs {
    ok_steps: u64,
    err_steps: u64,
    deep: bool,
    counts: std::collections::BTreeMap<String, u64>,
    err_variants: Vec<String>,
}

impl Obs {
    fn count(&mut self, k: String) {
        *self.counts.entry(k).or_insert(0) += 1;
    }
}

fn variant_name(dbg: &str) -> String {
    dbg.split(|c: char| !(c.is_alphanumeric() || c == '_')).next().unwrap_or("").to_string()
}

// ---------------------------------------------------------------------------------------------
// packet
// ---------------------------------------------------------------------------------------------
fn check_packet(bytes: &[u8], dcid_len: usize, obs: &mut Obs) -> Vec<Fail> {
    let mut out = vec![];
    let (refp, referr) = r::ref_datagram(bytes, dcid_len);
    let total = bytes.len();
    let mut reader = PacketReader::new(BytesMut::from(bytes), dcid_len);
    let mut i = 0usize;
    let mut consumed = 0usize;
    let mut steps = 0usize;
    loop {
        steps += 1;
        if steps > total + 2 {
            fail(&mut out, "no-progress:packet".into(), format!("PacketReader (dcid_len {dcid_len}) still yields items after {} steps on a {total}-byte datagram", steps - 1));
            break;
        }
        let item = match catch(|| reader.next()) {
            Err(p) => {
                fail(&mut out, format!("panic:{}", panic_loc(&p)), format!("PacketReader::next (dcid_len {dcid_len}) panicked on packet #{i} of a {total}-byte datagram: {}", p.message));
                break;
            }
            Ok(x) => x,
        };
        match item {
            None => {
                if consumed != total {
                    fail(&mut out, "misframe:packet.ends-early".into(), format!("PacketReader ends after {consumed} of {total} bytes without an error (reference: {} packets, then {:?})", refp.len(), referr));
                }
                break;
            }
            Some(Ok(pkt)) => {
                obs.ok_steps += 1;
                obs.deep = true;
                let rest = total - consumed;
                let (kind, len, offset, dcid, scid, token): (u8, usize, usize, Vec<u8>, Vec<u8>, Vec<u8>) = match &pkt {
                    Packet::VN(h) => (0, rest, 0, h.dcid().to_vec(), h.scid().to_vec(), h.versions().iter().flat_map(|v| v.to_be_bytes()).collect()),
                    Packet::Retry(h) => (1, rest, 0, h.dcid().to_vec(), h.scid().to_vec(), [&h.token()[..], &h.integrity()[..]].concat()),
                    Packet::Data(dp) => match &dp.header {
                        DataHeader::Long(long::DataHeader::Initial(h)) => (2, dp.bytes.len(), dp.offset, h.dcid().to_vec(), h.scid().to_vec(), h.token().clone()),
                        DataHeader::Long(long::DataHeader::ZeroRtt(h)) => (3, dp.bytes.len(), dp.offset, h.dcid().to_vec(), h.scid().to_vec(), vec![]),
                        DataHeader::Long(long::DataHeader::Handshake(h)) => (4, dp.bytes.len(), dp.offset, h.dcid().to_vec(), h.scid().to_vec(), vec![]),
                        DataHeader::Short(h) => (5, dp.bytes.len(), dp.offset, h.dcid().to_vec(), vec![], vec![]),
                    },
                };
                obs.count(format!("packets_decoded.{}", r::PKT_KIND_NAMES[kind as usize]));
                if len == 0 || len > rest {
                    fail(&mut out, "no-progress:packet".into(), format!("packet #{i} ({}) reported as {len} bytes with {rest} bytes left", r::PKT_KIND_NAMES[kind as usize]));
                    break;
                }
                if let Packet::Data(dp) = &pkt {
                    if dp.bytes[..] != bytes[consumed..consumed + len] || dp.offset > len {
                        fail(&mut out, "misframe:packet.bytes".into(), format!("packet #{i}: the returned bytes are not the datagram's bytes {consumed}..{}", consumed + len));
                    }
                }
                match refp.get(i) {
                    None => fail(
                        &mut out,
                        format!("accept:packet.{}", referr.unwrap_or("trailing").replace(' ', "-").replace(':', "")),
                        format!("packet #{i} accepted as {} of {len} bytes; reference: malformed ({:?})", r::PKT_KIND_NAMES[kind as usize], referr),
                    ),
                    Some(rp) => {
                        if rp.kind != kind || rp.len != len || rp.offset != offset || rp.dcid != dcid || rp.scid != scid || rp.token != token {
                            fail(
                                &mut out,
                                format!("misframe:packet.{}", r::PKT_KIND_NAMES[rp.kind as usize]),
                                format!(
                                    "packet #{i}: decoder {} len {len} payload@{offset} dcid {} scid {} token {}B; reference {} len {} payload@{} dcid {} scid {} token {}B",
                                    r::PKT_KIND_NAMES[kind as usize],
                                    vcore::hex(&dcid),
                                    vcore::hex(&scid),
                                    token.len(),
                                    r::PKT_KIND_NAMES[rp.kind as usize],
                                    rp.len,
                                    rp.offset,
                                    vcore::hex(&rp.dcid),
                                    vcore::hex(&rp.scid),
                                    rp.token.len()
                                ),
                            );
                        }
                    }
                }
                consumed += len;
                i += 1;
            }
            Some(Err(e)) => {
                obs.err_steps += 1;
                let vn = variant_name(&format!("{e:?}"));
                if !matches!(vn.as_str(), "IncompleteType" | "UnsupportedVersion") {
                    obs.deep = true;
                }
                obs.count(format!("packet_errors.{vn}"));
                obs.err_variants.push(format!("packet.{vn}"));
                match refp.get(i) {
                    Some(rp) if !rp.lenient => fail(
                        &mut out,
                        format!("reject:packet.{}", r::PKT_KIND_NAMES[rp.kind as usize]),
                        format!("packet #{i} rejected with {e:?}; reference: well-formed {} packet of {} bytes", r::PKT_KIND_NAMES[rp.kind as usize], rp.len),
                    ),
                    _ => {}
                }
                // "simply dropped": nothing more comes out of this datagram
                match catch(|| reader.next()) {
                    Ok(None) => {}
                    Ok(Some(_)) => fail(&mut out, "not-dropped:packet".into(), format!("after the error {e:?} the reader yields another item")),
                    Err(p) => fail(&mut out, format!("panic:{}", panic_loc(&p)), format!("PacketReader::next after an error panicked: {}", p.message)),
                }
                break;
            }
        }
    }
    out
}

// ---------------------------------------------------------------------------------------------
// frames
// ---------------------------------------------------------------------------------------------
fn kind_bit(k: ErrorKind) -> u8 {
    match k {
        ErrorKind::FrameEncoding => K_FE,
        ErrorKind::ProtocolViolation => K_PV,
        _ => 4,
    }
}

fn check_frames(bytes: &[u8], pi: usize, obs: &mut Obs) -> Vec<Fail> {
    let mut out = vec![];
    let pty = g::pkt_types()[pi];
    let total = bytes.len();
    let mut reader = FrameReader::new(Bytes::copy_from_slice(bytes), pty);
    let mut pos = 0usize;
    let mut steps = 0usize;
    loop {
        steps += 1;
        if steps > total + 2 {
            fail(&mut out, "no-progress:frame".into(), format!("FrameReader ({}) still yields items after {} steps on a {total}-byte payload", PKT_NAMES[pi], steps - 1));
            break;
        }
        let before = reader.len();
        let item = match catch(|| reader.next()) {
            Err(p) => {
                fail(&mut out, format!("panic:{}", panic_loc(&p)), format!("FrameReader::next ({}) panicked at offset {pos} of a {total}-byte payload: {}", PKT_NAMES[pi], p.message));
                break;
            }
            Ok(x) => x,
        };
        match item {
            None => {
                if before != 0 {
                    fail(&mut out, "misframe:frame.ends-early".into(), format!("FrameReader ends with {before} bytes left and no error"));
                }
                break;
            }
            Some(Ok((frame, fty))) => {
                obs.ok_steps += 1;
                let after = reader.len();
                if after >= before {
                    fail(&mut out, "no-progress:frame".into(), format!("FrameReader returned {:?} without consuming input ({before} -> {after} bytes left)", fty));
                    break;
                }
                let c = before - after;
                let rf = r::ref_frame(&bytes[pos..], pi);
                let tname = rf.ty.map(r::type_name).unwrap_or("?");
                obs.count(format!("frames_decoded.{tname}"));
                if tname != "padding" && tname != "ping" {
                    obs.deep = true;
                }
                if rf.verdict == Verdict::MustErr {
                    fail(
                        &mut out,
                        format!("accept:frame.{}", rf.class),
                        format!("{} payload offset {pos}: decoder accepts {:?} ({c} bytes); reference: {} ({tname})", PKT_NAMES[pi], fty, rf.class),
                    );
                    break;
                }
                let tval = VarInt::from(fty).into_u64();
                if rf.consumed != Some(c) || rf.ty != Some(tval) {
                    fail(
                        &mut out,
                        format!("misframe:frame.{tname}"),
                        format!("{} payload offset {pos}: decoder frames type {tval:#x} as {c} bytes, reference type {:?} as {:?} bytes", PKT_NAMES[pi], rf.ty, rf.consumed),
                    );
                    break;
                }
                // a decoded value is well-formed: it re-encodes and decodes to itself
                let kind = FRAME_KINDS[g::frame_kind(&frame)];
                match catch(|| {
                    let enc = Bytes::from(g::encode_frame(&frame));
                    be_frame(&enc, pty).map(|(n, f2, _)| n == enc.len() && f2 == frame)
                }) {
                    Ok(Ok(true)) => {}
                    Ok(Ok(false)) => fail(&mut out, format!("value:frame.{kind}"), format!("decoded {} re-encodes to bytes that decode differently", g::describe_frame(&frame))),
                    // values the decoder produced but refuses when re-encoded canonically
                    Ok(Err(e)) => fail(&mut out, format!("value:frame.{kind}"), format!("decoded {} re-encodes to bytes the decoder rejects: {e}", g::describe_frame(&frame))),
                    Err(p) => fail(&mut out, format!("panic:{}", panic_loc(&p)), format!("re-encoding the decoded {} panicked: {}", g::describe_frame(&frame), p.message)),
                }
                pos += c;
            }
            Some(Err(e)) => {
                obs.err_steps += 1;
                let vn = variant_name(&format!("{e:?}"));
                obs.count(format!("frame_errors.{vn}"));
                obs.err_variants.push(format!("frame.{vn}"));
                if !matches!(vn.as_str(), "InvalidType" | "IncompleteType" | "WrongType") {
                    obs.deep = true;
                }
                let rf = r::ref_frame(&bytes[pos..], pi);
                let tname = rf.ty.map(r::type_name).unwrap_or("?");
                if rf.verdict == Verdict::MustOk {
                    fail(
                        &mut out,
                        format!("reject:frame.{tname}"),
                        format!("{} payload offset {pos}: decoder rejects ({e}) what the reference frames as a well-formed {tname} frame of {:?} bytes", PKT_NAMES[pi], rf.consumed),
                    );
                }
                match catch(|| QuicError::from(e.clone())) {
                    Err(p) => fail(&mut out, format!("panic:{}", panic_loc(&p)), format!("frame::Error -> QuicError panicked for {e:?}: {}", p.message)),
                    Ok(qe) => {
                        if rf.verdict != Verdict::MustOk && rf.kinds & kind_bit(qe.kind()) == 0 {
                            fail(
                                &mut out,
                                format!("errkind:frame.{}", rf.class),
                                format!(
                                    "{} payload offset {pos} ({tname}, {}): error {e:?} maps to {:?}; RFC 9000 §12.4 prescribes {}",
                                    PKT_NAMES[pi],
                                    rf.class,
                                    qe.kind(),
                                    if rf.kinds == K_PV { "PROTOCOL_VIOLATION" } else if rf.kinds == K_FE { "FRAME_ENCODING_ERROR" } else { "FRAME_ENCODING_ERROR or PROTOCOL_VIOLATION" }
                                ),
                            );
                        }
                    }
                }
                // production (qconnection/src/space.rs read_plain_packet) stops at the first error
                break;
            }
        }
    }
    out
}

// ---------------------------------------------------------------------------------------------
// transport parameters
// ---------------------------------------------------------------------------------------------
const PARAM_PARSERS: [&str; 3] = ["client", "server", "remembered"];

fn compare_params<R>(p: &Parameters<R>, rp: &r::RefParams, out: &mut Vec<Fail>) {
    for (id, body) in &rp.entries {
        let Ok(pid) = ParameterId::try_from(VarInt::from_u64(*id).unwrap()) else {
            fail(out, "misframe:params.id".into(), format!("reference knows parameter {id:#x}, ParameterId does not"));
            continue;
        };
        let ok = match r::param_type(*id).unwrap() {
            r::PType::VarInt => {
                let mut q = 0;
                let v = r::rv(body, &mut q).unwrap();
                if matches!(*id, 0x01 | 0x0b) { p.get::<Duration>(pid) == Some(Duration::from_millis(v)) } else { p.get::<VarInt>(pid).map(|x| x.into_u64()) == Some(v) }
            }
            r::PType::Flag => p.get::<bool>(pid) == Some(true),
            r::PType::Token => p.get::<ResetToken>(pid).map(|t| t.to_vec()) == Some(body.clone()),
            r::PType::Cid => p.get::<ConnectionId>(pid).map(|c| c.to_vec()) == Some(body.clone()),
            r::PType::Bytes => p.get::<Bytes>(pid).map(|b| b.to_vec()) == Some(body.clone()),
            r::PType::PrefAddr => match p.get::<PreferredAddress>(pid) {
                None => false,
                Some(a) => {
                    let n = body[24] as usize;
                    a.address_v4().ip().octets() == body[0..4]
                        && a.address_v4().port() == u16::from_be_bytes([body[4], body[5]])
                        && a.address_v6().ip().octets() == body[6..22]
                        && a.address_v6().port() == u16::from_be_bytes([body[22], body[23]])
                        && a.connection_id().to_vec() == body[25..25 + n]
                        && a.stateless_reset_token().to_vec() == body[25 + n..]
                }
            },
        };
        if !ok || !p.contains(pid) {
            fail(out, format!("misframe:params.{pid:?}"), format!("parameter {pid:?} with value bytes {} is not what the parsed set holds", vcore::hex(body)));
        }
    }
}

fn check_params(bytes: &[u8], which: usize, obs: &mut Obs) -> Vec<Fail> {
    let mut out = vec![];
    let from_client = which == 0;
    let rp = r::ref_params(bytes, from_client);
    let name = PARAM_PARSERS[which];
    enum P {
        C(ClientParameters),
        S(ServerParameters),
    }
    let res = catch(|| match which {
        0 => ClientParameters::parse_from_bytes(bytes).map(P::C),
        1 => ServerParameters::parse_from_bytes(bytes).map(P::S),
        _ => ServerParameters::try_from_remembered_bytes(bytes).map(P::S),
    });
    match res {
        Err(p) => fail(&mut out, format!("panic:{}", panic_loc(&p)), format!("{name} parameter parser panicked on {} ({} bytes, reference: {:?}): {}", vcore::hex(&bytes[..bytes.len().min(48)]), bytes.len(), rp.malformed, p.message)),
        Ok(Err(qe)) => {
            obs.err_steps += 1;
            if !rp.entries.is_empty() {
                obs.deep = true;
            }
            obs.count(format!("param_errors.{name}"));
            if qe.kind() != ErrorKind::TransportParameter {
                fail(&mut out, format!("errkind:params.{name}"), format!("parameter error {qe} has kind {:?}; RFC 9000 §7.4 prescribes TRANSPORT_PARAMETER_ERROR", qe.kind()));
            }
        }
        Ok(Ok(p)) => {
            obs.ok_steps += 1;
            obs.deep = !rp.entries.is_empty();
            obs.count(format!("params_accepted.{name}"));
            if let Some(why) = rp.malformed {
                fail(&mut out, format!("accept:params.{why}"), format!("{name} parser accepts a malformed blob ({why}): {}", vcore::hex(&bytes[..bytes.len().min(64)])));
            } else if !rp.duplicate {
                match &p {
                    P::C(p) => compare_params(p, &rp, &mut out),
                    P::S(p) => compare_params(p, &rp, &mut out),
                }
            }
        }
    }
    out
}

// ---------------------------------------------------------------------------------------------
// primitives
// ---------------------------------------------------------------------------------------------
const N_PRIM: usize = 14 + 20;

fn is_suffix(whole: &[u8], rest: &[u8]) -> bool {
    // (parsers that take "everything" return a static empty slice)
    rest.is_empty() || (rest.len() <= whole.len() && std::ptr::eq(whole[whole.len() - rest.len()..].as_ptr(), rest.as_ptr()))
}

fn check_prim(bytes: &[u8], k: usize, obs: &mut Obs) -> Vec<Fail> {
    let mut out = vec![];
    let name: String;
    macro_rules! run {
        ($n:expr, $e:expr) => {{
            name = $n.to_string();
            catch(|| $e.map(|(rest, _)| is_suffix(bytes, rest)).map_err(|_| ()))
        }};
    }
    let res = match k {
        0 => {
            name = "varint".into();
            catch(|| {
                let mut p = 0;
                let want = r::rv(bytes, &mut p);
                match be_varint(bytes) {
                    Ok((rest, v)) => Ok(is_suffix(bytes, rest) && want == Some(v.into_u64()) && bytes.len() - rest.len() == p),
                    Err(_) => {
                        if want.is_some() {
                            Ok(false)
                        } else {
                            Err(())
                        }
                    }
                }
            })
        }
        1 => run!("connection_id", be_connection_id(bytes)),
        2 => run!("socket_addr_v4", be_socket_addr(bytes, Family::V4)),
        3 => run!("socket_addr_v6", be_socket_addr(bytes, Family::V6)),
        4 => run!("endpoint_addr_direct_v4", be_endpoint_addr(bytes, 0, Family::V4)),
        5 => run!("endpoint_addr_agent_v4", be_endpoint_addr(bytes, 1, Family::V4)),
        6 => run!("endpoint_addr_agent_v6", be_endpoint_addr(bytes, 1, Family::V6)),
        7 => run!("link", be_link(bytes)),
        8 => run!("reset_token", be_reset_token(bytes)),
        9 => run!("preferred_address", be_preferred_address(bytes)),
        10 => run!("packet_number", take_pn_len(1 + (bytes.len() % 4) as u8)(bytes)),
        11 => run!("frame_type", be_frame_type(bytes)),
        12 => run!("stream_id", be_streamid(bytes)),
        13 => run!("raw_parameter", be_raw_parameter(bytes)),
        _ => {
            let id = g::ALL_PARAM_IDS[(k - 14) % g::ALL_PARAM_IDS.len()];
            run!(format!("parameter_value.{id:?}"), be_parameter_value(bytes, id))
        }
    };
    match res {
        Err(p) => fail(&mut out, format!("panic:{}", panic_loc(&p)), format!("{name} parser panicked on {} ({} bytes): {}", vcore::hex(&bytes[..bytes.len().min(48)]), bytes.len(), p.message)),
        Ok(Ok(true)) => {
            obs.ok_steps += 1;
            obs.deep = true;
        }
        Ok(Ok(false)) => fail(&mut out, format!("misframe:prim.{}", name.split('.').next().unwrap()), format!("{name} parser: result is not a suffix of / disagrees with the reference for the input {}", vcore::hex(&bytes[..bytes.len().min(48)]))),
        Ok(Err(())) => obs.err_steps += 1,
    }
    out
}

// ---------------------------------------------------------------------------------------------
// one case
// ---------------------------------------------------------------------------------------------
const DECODERS: [&str; 4] = ["packet", "frame", "params", "prim"];

struct Ctx<'a> {
    rep: &'a mut Report,
    inputs: u64,
    /// origins of which one input was written to the evidence samples
    sampled: Vec<String>,
}

impl Ctx<'_> {
    fn case(&mut self, decoder: usize, arg: usize, bytes: &[u8], origin: &str) {
        let mut obs = Obs::default();
        // an abort (allocation failure, stack overflow) escapes `catch`: leave the input for the crash dump
        vcore::crash::set_current(DECODERS[decoder], arg as u64, bytes);
        let fails = match decoder {
            0 => check_packet(bytes, arg, &mut obs),
            1 => check_frames(bytes, arg, &mut obs),
            2 => check_params(bytes, arg, &mut obs),
            _ => check_prim(bytes, arg, &mut obs),
        };
        vcore::crash::clear();
        let rep = &mut *self.rep;
        self.inputs += 1;
        rep.evaluations += 1;
        let dn = DECODERS[decoder];
        rep.count(&format!("inputs.{dn}"));
        rep.count(&format!("origin.{origin}"));
        rep.add(&format!("ok_steps.{dn}"), obs.ok_steps);
        rep.add(&format!("err_steps.{dn}"), obs.err_steps);
        rep.max("max_input_len", bytes.len() as u64);
        for (k, v) in obs.counts {
            rep.add(&k, v);
        }
        for v in obs.err_variants {
            rep.set("error_variants", vcore::fnv_str(&v));
        }
        if obs.deep && !self.sampled.iter().any(|o| o == origin) && self.sampled.len() < 6 {
            self.sampled.push(origin.to_string());
            rep.sample(json!({"decoder": dn, "configuration": arg, "origin": origin, "input_hex": vcore::hex(&bytes[..bytes.len().min(96)]),
                "input_len": bytes.len(), "elements_decoded": obs.ok_steps, "errors": obs.err_steps}));
        }
        if obs.deep {
            let mut h = vcore::fnv(bytes);
            h ^= ((decoder as u64) << 60) ^ ((arg as u64) << 52);
            rep.distinct(h);
        }
        for f in fails {
            rep.violation(f.sig, f.what, json!({"kind":"c03","decoder":dn,"arg":arg,"hex":vcore::hex(bytes),"origin":origin}));
        }
    }
}

// ---------------------------------------------------------------------------------------------
// workload
// ---------------------------------------------------------------------------------------------
fn varint_bytes(v: u64, width: usize) -> Vec<u8> {
    match width {
        1 => vec![v as u8 & 0x3f],
        2 => ((v as u16 & 0x3fff) | 0x4000).to_be_bytes().to_vec(),
        4 => ((v as u32 & 0x3fff_ffff) | 0x8000_0000).to_be_bytes().to_vec(),
        _ => ((v & r::VMAX) | 0xc000_0000_0000_0000).to_be_bytes().to_vec(),
    }
}

/// structure-aware mutants of one valid encoding
fn mutants(seed: &[u8], other: &[u8], rng: &mut Rng, thorough: bool, mut emit: impl FnMut(&str, Vec<u8>)) {
    let n = seed.len();
    // truncate at every length
    if n <= 400 {
        for l in 0..n {
            emit("truncate", seed[..l].to_vec());
        }
    } else {
        for l in [0, 1, 2, 5, 19, 20, 21, 63, 64, 65, n / 2, n - 65, n - 64, n - 21, n - 20, n - 17, n - 16, n - 2, n - 1] {
            emit("truncate", seed[..l.min(n)].to_vec());
        }
        for _ in 0..24 {
            emit("truncate", seed[..rng.usize(n)].to_vec());
        }
    }
    if n == 0 {
        return;
    }
    // single bit flips
    if n <= 40 || (thorough && n <= 120) {
        for bit in 0..n * 8 {
            let mut m = seed.to_vec();
            m[bit / 8] ^= 1 << (bit % 8);
            emit("bitflip", m);
        }
    } else {
        for _ in 0..96 {
            let bit = rng.usize(n * 8);
            let mut m = seed.to_vec();
            m[bit / 8] ^= 1 << (bit % 8);
            emit("bitflip", m);
        }
    }
    // boundary varints written over / inserted at every position (this is what inflates length fields)
    let positions: Vec<usize> = if n <= 48 { (0..n).collect() } else { (0..40).map(|_| rng.usize(n)).chain(0..8).collect() };
    for &p in &positions {
        for (bi, &b) in VB.iter().enumerate() {
            let w = r::min_varint_len(b);
            let enc = varint_bytes(b, w);
            // overwrite the varint that starts here (or as many bytes as the new one needs)
            let old = (1usize << (seed[p] >> 6)).min(n - p);
            let mut m = seed[..p].to_vec();
            m.extend_from_slice(&enc);
            m.extend_from_slice(&seed[p + old..]);
            emit("varint-overwrite", m);
            if bi % 2 == 1 || thorough {
                let mut m = seed.to_vec();
                for (k, x) in enc.iter().enumerate() {
                    if p + k < n {
                        m[p + k] = *x;
                    }
                }
                emit("varint-inplace", m);
            }
        }
        // non-minimal encodings of small values and the largest 8-byte value
        for (v, w) in [(0u64, 8usize), (1, 2), (20, 4), (21, 1), (255, 2), (r::VMAX, 8), (seed.len() as u64, 2), (seed.len() as u64 + 1, 2)] {
            let mut m = seed[..p].to_vec();
            m.extend_from_slice(&varint_bytes(v, w));
            let old = (1usize << (seed[p] >> 6)).min(n - p);
            m.extend_from_slice(&seed[p + old..]);
            emit("varint-overwrite", m);
        }
        for x in [0x00u8, 0xff, 0x40, 0x80, 0xc0, 21, 20] {
            let mut m = seed.to_vec();
            m[p] = x;
            emit("byte-set", m);
        }
    }
    // splices with another valid encoding
    for _ in 0..(if thorough { 16 } else { 6 }) {
        let a = rng.usize(n + 1);
        let b = rng.usize(other.len() + 1);
        let mut m = seed[..a].to_vec();
        m.extend_from_slice(&other[b..]);
        emit("splice", m);
        let mut m = other[..b].to_vec();
        m.extend_from_slice(&seed[a..]);
        emit("splice", m);
    }
    // append / duplicate
    let mut m = seed.to_vec();
    m.extend_from_slice(seed);
    emit("append", m);
    let mut m = seed.to_vec();
    let extra = 1 + rng.usize(40);
    m.extend_from_slice(&rng.bytes(extra));
    emit("append", m);
    // stacked random mutations
    for _ in 0..(if thorough { 48 } else { 16 }) {
        let mut m = seed.to_vec();
        for _ in 0..rng.range(2, 5) {
            if m.is_empty() {
                break;
            }
            let p = rng.usize(m.len());
            match rng.below(5) {
                0 => m[p] ^= 1 << rng.below(8),
                1 => m.truncate(p),
                2 => {
                    let b = *rng.pick(&VB);
                    let w = [r::min_varint_len(b), 8][rng.usize(2)];
                    let enc = varint_bytes(b, w);
                    m.splice(p..(p + 1).min(m.len()), enc);
                }
                3 => m.insert(p, rng.next_u64() as u8),
                _ => {
                    m.remove(p);
                }
            }
        }
        emit("stacked", m);
    }
}

/// hand-seeded boundary corpus: (decoder, arg or usize::MAX for "all", bytes)
fn corpus() -> Vec<(usize, usize, Vec<u8>)> {
    const ALL: usize = usize::MAX;
    let mut c: Vec<(usize, usize, Vec<u8>)> = vec![];
    let cat = |parts: &[&[u8]]| parts.concat();
    // --- datagrams -------------------------------------------------------------------------
    let mut long21 = vec![0xc0, 0, 0, 0, 1, 21];
    long21.extend_from_slice(&[0xaa; 60]);
    c.push((0, ALL, long21));
    let mut long255 = vec![0xc0, 0, 0, 0, 1, 255];
    long255.extend_from_slice(&[0xaa; 300]);
    c.push((0, ALL, long255));
    let mut scid21 = vec![0xe0, 0, 0, 0, 1, 0, 21];
    scid21.extend_from_slice(&[0xbb; 60]);
    c.push((0, ALL, scid21));
    c.push((0, ALL, cat(&[&[0x80, 0, 0, 0, 0, 21], &[0xcc; 40]]))); // VN with dcid len 21
    c.push((0, ALL, cat(&[&[0x80, 0, 0, 0, 0, 0, 0], &[1, 2, 3]]))); // VN with partial version
    c.push((0, ALL, vec![0x80, 0, 0, 0, 0, 0, 0])); // VN without versions
    c.push((0, ALL, vec![]));
    c.push((0, ALL, vec![0x40]));
    c.push((0, ALL, vec![0xc0]));
    c.push((0, ALL, vec![0xc0, 0, 0, 0]));
    c.push((0, ALL, vec![0xc0, 0, 0, 0, 1]));
    c.push((0, ALL, vec![0x80, 0, 0, 0, 1, 0, 0, 0, 0])); // long, fixed bit zero
    c.push((0, ALL, vec![0xc0, 0xff, 0xff, 0xff, 0xff, 0, 0, 0, 0])); // unknown version
    for plen in [0usize, 1, 19, 20, 21] {
        // initial, empty cids, empty token, payload of plen bytes
        c.push((0, ALL, cat(&[&[0xc0, 0, 0, 0, 1, 0, 0, 0, plen as u8], &vec![0x11; plen]])));
        // handshake followed by a short-header packet
        c.push((0, ALL, cat(&[&[0xe0, 0, 0, 0, 1, 0, 0, plen as u8], &vec![0x11; plen], &[0x40], &[0x22; 30]])));
        // short header with plen bytes after the first byte
        c.push((0, ALL, cat(&[&[0x40], &vec![0x33; plen]])));
        c.push((0, ALL, cat(&[&[0x40], &vec![0x33; plen + 20]])));
    }
    // length fields: zero, larger than the datagram, 2^62-1, non-minimal
    c.push((0, ALL, cat(&[&[0xd0, 0, 0, 0, 1, 0, 0], &[0xff; 8], &[0x44; 40]])));
    c.push((0, ALL, cat(&[&[0xd0, 0, 0, 0, 1, 0, 0], &[0xc0, 0, 0, 0, 0, 0, 0, 25], &[0x44; 25]])));
    c.push((0, ALL, cat(&[&[0xd0, 0, 0, 0, 1, 0, 0, 0x40, 41], &[0x44; 40]])));
    c.push((0, ALL, cat(&[&[0xc0, 0, 0, 0, 1, 0, 0], &[0xff; 8], &[0x44; 40]]))); // token length 2^62-1
    c.push((0, ALL, cat(&[&[0xc0, 0, 0, 0, 1, 0, 0, 0x40, 30], &[0x44; 29]]))); // token runs into the end
    c.push((0, ALL, cat(&[&[0xf0, 0, 0, 0, 1, 0, 0], &[0x55; 15]]))); // retry with 15 bytes
    c.push((0, ALL, cat(&[&[0xf0, 0, 0, 0, 1, 0, 0], &[0x55; 16]])));
    c.push((0, ALL, cat(&[&[0xf0, 0, 0, 0, 1, 20], &[0x55; 20], &[20], &[0x66; 20], &[0x77; 40]])));
    // three coalesced long packets and junk
    let one = cat(&[&[0xe0, 0, 0, 0, 1, 4, 1, 2, 3, 4, 0, 20], &[0x11; 20]]);
    c.push((0, ALL, cat(&[&one, &one, &one, &[0xc0]])));
    // --- frames ------------------------------------------------------------------------------
    c.push((1, ALL, vec![0x02, 0x05, 0x00, 0x00, 0x0a])); // ACK first_range > largest
    c.push((1, ALL, vec![0x02, 0x00, 0x00, 0x01, 0x00, 0x00, 0x00])); // ACK range below zero
    c.push((1, ALL, cat(&[&[0x02, 0x05, 0x00], &[0xff; 8], &[0x00]]))); // ACK range count 2^62-1
    c.push((1, ALL, cat(&[&[0x03, 0x3f, 0x00, 0x00, 0x00], &[0xff; 8], &[0xff; 8], &[0xff; 7]]))); // ECN truncated
    c.push((1, ALL, cat(&[&[0x06], &[0xff; 8], &[0x00]]))); // CRYPTO offset 2^62-1 len 0
    c.push((1, ALL, cat(&[&[0x06], &[0xff; 8], &[0x01, 0xaa]]))); // offset + len overflow
    c.push((1, ALL, cat(&[&[0x06, 0x00], &[0xff; 8], &[0xaa; 9]]))); // length 2^62-1
    c.push((1, ALL, cat(&[&[0x0e, 0x00], &[0xff; 8], &[0x01, 0xaa]]))); // STREAM off+len overflow
    c.push((1, ALL, cat(&[&[0x0c, 0x00], &[0xff; 8], &[0xaa; 3]]))); // STREAM without length near 2^62
    c.push((1, ALL, cat(&[&[0x0f], &[0xff; 8], &[0xff; 8], &[0xff; 8]]))); // every field 2^62-1
    c.push((1, ALL, vec![0x08])); // STREAM with nothing
    c.push((1, ALL, vec![0x07, 0x00])); // NEW_TOKEN empty
    c.push((1, ALL, cat(&[&[0x07, 0x40, 0x40], &[0x99; 64]])));
    c.push((1, ALL, cat(&[&[0x07], &[0xff; 8]])));
    for l in [0u8, 1, 20, 21, 255] {
        c.push((1, ALL, cat(&[&[0x18, 0x01, 0x00, l], &vec![0xab; l as usize], &[0xcd; 16]])));
    }
    c.push((1, ALL, cat(&[&[0x18, 0x01, 0x02, 4], &[0xab; 4], &[0xcd; 16]]))); // retire_prior_to > seq
    c.push((1, ALL, cat(&[&[0x18, 0x01, 0x00, 4], &[0xab; 4], &[0xcd; 15]]))); // token short
    c.push((1, ALL, cat(&[&[0x12], &[0xd0, 0, 0, 0, 0, 0, 0, 0]]))); // MAX_STREAMS 2^60
    c.push((1, ALL, cat(&[&[0x13], &[0xd0, 0, 0, 0, 0, 0, 0, 1]]))); // 2^60+1
    c.push((1, ALL, cat(&[&[0x16], &[0xff; 8]])));
    c.push((1, ALL, cat(&[&[0x1c, 0x0a, 0x08, 0x05], b"abc"]))); // reason longer than the payload
    c.push((1, ALL, cat(&[&[0x1c, 0x11, 0x00, 0x00]]))); // unknown error code
    c.push((1, ALL, cat(&[&[0x1c, 0x0a, 0x1f, 0x00]]))); // unknown frame type in close
    c.push((1, ALL, cat(&[&[0x1c, 0x41, 0xff, 0x00, 0x02, 0xff, 0xfe]]))); // crypto alert, invalid utf-8 reason
    c.push((1, ALL, cat(&[&[0x1d], &[0xff; 8], &[0xff; 8]])));
    c.push((1, ALL, vec![0x31, 0x05, 1, 2, 3, 4])); // DATAGRAM length beyond the payload
    c.push((1, ALL, vec![0x30]));
    c.push((1, ALL, vec![0x31, 0x00]));
    c.push((1, ALL, vec![0x1a, 1, 2, 3, 4, 5, 6, 7])); // PATH_CHALLENGE 7 bytes
    c.push((1, ALL, vec![0x1b, 1, 2, 3, 4, 5, 6, 7]));
    c.push((1, ALL, vec![0x40, 0x01])); // PING, 2-byte type
    c.push((1, ALL, vec![0xc0, 0, 0, 0, 0, 0, 0, 0x06, 0x00, 0x00])); // CRYPTO, 8-byte type
    c.push((1, ALL, vec![0x1f]));
    c.push((1, ALL, vec![0x21]));
    c.push((1, ALL, vec![0x80, 0x3d, 0x7e]));
    c.push((1, ALL, vec![0x80, 0x3d, 0x7e, 0x90])); // ADD_ADDRESS with nothing
    c.push((1, ALL, vec![0x80, 0x3d, 0x7e, 0x90, 1, 0x11, 0x51, 127, 0, 0, 1, 2, 6])); // nat type 6
    c.push((1, ALL, vec![0x80, 0x3d, 0x7e, 0x90, 1, 0x11, 0x51, 127, 0, 0, 1, 2, 0x41, 0x00])); // nat type 256
    c.push((1, ALL, vec![0x80, 0x3d, 0x7e, 0x93, 1, 2, 0x11, 0x51, 0, 0, 0, 0, 0, 0, 0, 0, 0, 0, 0, 0, 0, 0, 0])); // v6 truncated
    c.push((1, ALL, vec![0x80, 0x3d, 0x7e, 0x97]));
    c.push((1, ALL, vec![0x00; 1500]));
    // --- transport parameters --------------------------------------------------------------
    c.push((2, ALL, vec![0x04, 0x02, 0x05, 0x00, 0x0f, 0x00])); // varint with trailing value byte
    c.push((2, ALL, cat(&[&[0x0f, 21], &[0xaa; 21]]))); // 21-byte cid
    c.push((2, ALL, cat(&[&[0x0f, 0x40, 0xff], &[0xaa; 255]])));
    c.push((2, ALL, cat(&[&[0x0f, 0x00, 0x02, 15], &[0xbb; 15]]))); // reset token 15
    c.push((2, ALL, cat(&[&[0x0f, 0x00, 0x02, 17], &[0xbb; 17]])));
    c.push((2, ALL, cat(&[&[0x0f, 0x00, 0x00, 0x00, 0x02, 16], &[0xbb; 16]])));
    c.push((2, ALL, vec![0x0f, 0x00, 0x0c, 0x01, 0x00])); // flag with a value byte
    c.push((2, ALL, vec![0x0f, 0x00, 0x40, 0x0c, 0x00]));
    c.push((2, ALL, vec![0x0f, 0x00, 0x04, 0x00])); // varint parameter with empty value
    c.push((2, ALL, vec![0x0f, 0x00, 0x04, 0x01, 0x40])); // value varint truncated
    c.push((2, ALL, vec![0x0f, 0x00, 0x04, 0x08, 0xff, 0xff, 0xff, 0xff, 0xff, 0xff, 0xff, 0xff]));
    c.push((2, ALL, vec![0x0f, 0x00, 0x03, 0x02, 0x44, 0xaf])); // max_udp_payload_size 1199
    c.push((2, ALL, vec![0x0f, 0x00, 0x0a, 0x01, 21])); // ack_delay_exponent 21
    c.push((2, ALL, vec![0x0f, 0x00, 0x0e, 0x01, 1])); // active_connection_id_limit 1
    c.push((2, ALL, vec![0x0f, 0x00, 0x0f, 0x00])); // duplicate
    c.push((2, ALL, vec![0x0f])); // id only
    c.push((2, ALL, vec![0x0f, 0x05, 1, 2])); // value shorter than its length
    c.push((2, ALL, cat(&[&[0x0f, 0x00, 0x01], &[0xff; 8]]))); // length 2^62-1
    c.push((2, ALL, cat(&[&[0xff; 8], &[0x00]]))); // unknown id 2^62-1
    c.push((2, ALL, cat(&[&[0x40]])));
    c.push((2, ALL, vec![]));
    for n in [0usize, 20, 21] {
        for tok in [15usize, 16, 17] {
            // preferred address with cid of n bytes and a token of tok bytes
            let mut body = vec![1, 2, 3, 4, 0x11, 0x51];
            body.extend_from_slice(&[0x20; 16]);
            body.extend_from_slice(&[0x11, 0x51, n as u8]);
            body.extend_from_slice(&vec![0xcc; n]);
            body.extend_from_slice(&vec![0xdd; tok]);
            c.push((2, ALL, cat(&[&[0x0f, 0x00, 0x00, 0x00, 0x0d, body.len() as u8], &body])));
        }
    }
    c.push((2, ALL, cat(&[&[0x0f, 0x00, 0x00, 0x00, 0x0d, 10], &[0x01; 10]])));
    c.push((2, ALL, cat(&[&[0x0f, 0x00, 0x80, 0x00, 0xff, 0xee, 0x03], b"abc"]))); // client name
    // every server-only parameter alone next to the required initial_source_connection_id
    c.push((2, ALL, cat(&[&[0x0f, 0x00, 0x02, 16], &[0xbb; 16]])));
    c.push((2, ALL, vec![0x0f, 0x00, 0x00, 0x00]));
    c.push((2, ALL, vec![0x0f, 0x00, 0x10, 0x00]));
    c.push((2, ALL, cat(&[&[0x0f, 0x00, 0x0d, 45, 1, 2, 3, 4, 0x11, 0x51], &[0x20; 16], &[0x11, 0x51, 4, 9, 9, 9, 9], &[0xdd; 16]])));
    c
}

fn frame_first_bytes() -> Vec<Vec<u8>> {
    let mut v: Vec<Vec<u8>> = (0u8..=0x3f).map(|b| vec![b]).collect();
    for t in 0x3d7e8fu32..=0x3d7e98 {
        v.push((t | 0x8000_0000).to_be_bytes().to_vec());
    }
    v.push(vec![0x40, 0x06]);
    v.push(vec![0x80, 0, 0, 0x08]);
    v
}

pub fn run(args: &Args, rep: &mut Report) {
    rep.rule = "input = (decoder, configuration, byte string); distinct = distinct such triples; non-trivial = decoding got past the \
                type field: at least one element (other than PADDING/PING) was decoded, or the error is not an unknown / truncated / \
                misplaced type"
        .into();
    if let Some(path) = args.get("replay") {
        let v: Value = serde_json::from_str(&std::fs::read_to_string(path).unwrap()).unwrap();
        let v = if v.get("replay").is_some() { v["replay"].clone() } else { v };
        let dn = v["decoder"].as_str().unwrap();
        let decoder = DECODERS.iter().position(|d| *d == dn).unwrap();
        let bytes = vcore::unhex(v["hex"].as_str().unwrap());
        let mut cx = Ctx { rep, inputs: 0, sampled: vec![] };
        cx.case(decoder, v["arg"].as_u64().unwrap() as usize, &bytes, "replay");
        return;
    }
    let thorough = args.get("tier") == Some("thorough");
    let shard = args.u64("shard", 0);
    let shards = args.u64("shards", 1);
    let seed = args.seed();
    let mut cx = Ctx { rep, inputs: 0, sampled: vec![] };

    // (c) hand-seeded corpus, every configuration of the decoder
    for (i, (dec, arg, bytes)) in corpus().iter().enumerate() {
        if i as u64 % shards != shard {
            continue;
        }
        let args_: Vec<usize> = if *arg != usize::MAX {
            vec![*arg]
        } else {
            match dec {
                0 => (0..=20).collect(),
                1 => (0..5).collect(),
                _ => (0..3).collect(),
            }
        };
        for a in args_ {
            cx.case(*dec, a, bytes, "corpus");
        }
    }

    // (b) structure-aware mutation of valid encodings
    let n_seeds = args.budget(if thorough { 3000 } else { 160 });
    let mut rng = Rng::new(seed ^ 0xc03).fork(shard);
    let mut prev: [Vec<u8>; 3] = [vec![0x40; 30], vec![0x01], vec![0x0f, 0x00]];
    for i in 0..n_seeds {
        let case_seed = vcore::fnv(format!("c03/{seed}/{shard}/{i}").as_bytes());
        let mut s = Src::random(case_seed);
        match i % 4 {
            0 => {
                // datagram
                let (bytes, dlen) = g::gen_datagram(&mut s);
                cx.case(0, dlen, &bytes, "valid");
                let other = prev[0].clone();
                let alt = rng.usize(21);
                let mut batch = vec![];
                mutants(&bytes, &other, &mut rng, thorough, |o, m| batch.push((o.to_string(), m)));
                for (k, (o, m)) in batch.iter().enumerate() {
                    cx.case(0, dlen, m, o);
                    if k % 4 == 0 {
                        cx.case(0, alt, m, o);
                    }
                }
                prev[0] = bytes;
            }
            1 | 2 => {
                // payload of 1..4 frames valid for one packet type
                let pi = s.pick(5) as usize;
                let mut bytes = vec![];
                let n = 1 + s.wide(4);
                let mut k = 0;
                let mut guard = 0;
                while k < n && guard < 100 {
                    guard += 1;
                    let kind = s.wide(FRAME_KINDS.len() as u64) as usize;
                    let f = g::gen_frame_of(&mut s, kind, 40);
                    let t = VarInt::from(f.frame_type()).into_u64();
                    if !r::permitted(t, pi).unwrap() || g::data_len(&f) > 300 {
                        continue;
                    }
                    let enc = g::encode_frame(&f);
                    if enc.len() > 400 || (!g::is_delimited(&f) && k + 1 != n) {
                        continue;
                    }
                    bytes.extend_from_slice(&enc);
                    k += 1;
                }
                for p in 0..5 {
                    cx.case(1, p, &bytes, "valid");
                }
                let other = prev[1].clone();
                let alt = rng.usize(5);
                let mut batch = vec![];
                mutants(&bytes, &other, &mut rng, thorough, |o, m| batch.push((o.to_string(), m)));
                for (k, (o, m)) in batch.iter().enumerate() {
                    cx.case(1, pi, m, o);
                    if k % 4 == 0 {
                        cx.case(1, alt, m, o);
                    }
                }
                prev[1] = bytes;
            }
            _ => {
                let c = g::gen_params(&mut s);
                let Ok(bytes) = g::encode_params(&c) else { continue };
                let own = if c.role == qbase::role::Role::Client { 0 } else { 1 };
                for w in 0..3 {
                    cx.case(2, w, &bytes, "valid");
                }
                let other = prev[2].clone();
                let mut batch = vec![];
                mutants(&bytes, &other, &mut rng, thorough, |o, m| batch.push((o.to_string(), m)));
                for (k, (o, m)) in batch.iter().enumerate() {
                    cx.case(2, own, m, o);
                    if k % 3 == 0 {
                        cx.case(2, (own + 1 + k / 3 % 2) % 3, m, o);
                    }
                    // the primitives see the same hostile bytes
                    if k % 8 == 0 {
                        cx.case(3, (k / 8) % N_PRIM, m, o);
                    }
                }
                // a well-formed parameter of every known id (possibly one the sender's role must not
                // use) put behind / in front of the valid set
                for id in g::ALL_PARAM_IDS {
                    use qbase::param::WriteParameter;
                    let v = g::param_value(&mut s, id);
                    let mut one: Vec<u8> = vec![];
                    one.put_parameter(id, &v);
                    let mut m = bytes.clone();
                    m.extend_from_slice(&one);
                    for w in 0..3 {
                        cx.case(2, w, &m, "foreign-param");
                    }
                    one.extend_from_slice(&bytes);
                    cx.case(2, own, &one, "foreign-param");
                }
                prev[2] = bytes;
            }
        }
    }

    // (a) random bytes with a biased first byte
    let n_random = args.u64("random", if thorough { 400_000 } else { 12_000 });
    let firsts = frame_first_bytes();
    for i in 0..n_random {
        let len = match rng.below(6) {
            0 => rng.usize(8),
            1 | 2 => rng.usize(64),
            3 | 4 => rng.usize(300),
            _ => rng.usize(1501),
        };
        let mut bytes = rng.bytes(len);
        match i % 4 {
            0 => {
                if !bytes.is_empty() {
                    // header form / fixed bit / type bits, and a plausible version
                    bytes[0] = [0x40, 0x60, 0x00, 0xc0, 0xd0, 0xe0, 0xf0, 0x80, 0xcf, 0x7f][rng.usize(10)] | (rng.next_u64() as u8 & 0x0f);
                    if bytes[0] & 0x80 != 0 && bytes.len() >= 7 && rng.chance(9, 10) {
                        let v = [0u32, 1, 1, 1, 1, 2][rng.usize(6)];
                        bytes[1..5].copy_from_slice(&v.to_be_bytes());
                        if rng.chance(7, 10) {
                            bytes[5] = rng.below(24) as u8;
                        }
                    }
                }
                cx.case(0, rng.usize(21), &bytes, "random");
            }
            1 | 2 => {
                let f = rng.pick(&firsts).clone();
                let mut m = f;
                m.extend_from_slice(&bytes);
                // small varints make the following fields parse more often
                if rng.bool() {
                    for b in m.iter_mut().skip(1).take(12) {
                        if rng.chance(2, 3) {
                            *b &= 0x3f;
                        }
                    }
                }
                cx.case(1, rng.usize(5), &m, "random");
            }
            _ => {
                if rng.bool() {
                    // a sequence of (known id, small length, value) with random content
                    let mut m = vec![];
                    for _ in 0..rng.range(1, 6) {
                        let id = *rng.pick(&[0u64, 1, 2, 3, 4, 5, 8, 0x0a, 0x0b, 0x0c, 0x0d, 0x0e, 0x0f, 0x10, 0x20, 0x2ab2, 0xffee, 0x1b]);
                        m.extend_from_slice(&varint_bytes(id, r::min_varint_len(id)));
                        let l = *rng.pick(&[0usize, 1, 2, 4, 8, 15, 16, 17, 20, 21, 41, 45, 61, 62]);
                        let l = if rng.chance(1, 6) { rng.usize(70) } else { l };
                        m.extend_from_slice(&varint_bytes(l as u64, r::min_varint_len(l as u64)));
                        let mut body = rng.bytes(l);
                        if l > 0 && rng.chance(2, 3) {
                            // make the value a varint of exactly l bytes when possible
                            if let Some(p) = [1usize, 2, 4, 8].iter().position(|w| *w == l) {
                                body[0] = (body[0] & 0x3f) | ((p as u8) << 6);
                            }
                        }
                        m.extend_from_slice(&body);
                    }
                    bytes = m;
                }
                cx.case(2, rng.usize(3), &bytes, "random");
                cx.case(3, rng.usize(N_PRIM), &bytes, "random");
            }
        }
    }
}
