//! Value generators shared by the C05 (round-trip / declared size) and C03 (hostile decoding)
//! monitors.
//!
//! Every generator reads its decisions from a [`Src`], a recorded choice sequence.  The same
//! generator therefore serves three purposes:
//!   * exhaustive enumeration of all boundary combinations (`Src::enumerate` + `next_digits`,
//!     a depth-first odometer over the `pick` calls the generator makes),
//!   * seeded random sampling (`Src::random`),
//!   * exact replay of one case from its recorded trace (`Src::replay`).
#![allow(dead_code)]
use std::net::{IpAddr, Ipv4Addr, Ipv6Addr, SocketAddr, SocketAddrV4, SocketAddrV6};

use bytes::Bytes;
use qbase::{
    cid::ConnectionId,
    error::{ErrorFrameType, ErrorKind},
    frame::{io::WriteFrame, *},
    net::{Family, NatType},
    packet::r#type::{
        Type,
        long::{Type as LongType, Ver1},
        short::OneRtt,
    },
    param::{ClientParameters, ParameterId, ParameterValue, ServerParameters, preferred_address::PreferredAddress},
    role::Role,
    sid::{Dir, StreamId},
    token::ResetToken,
    varint::VarInt,
};
use vcore::Rng;

/// varint width boundaries named by the property
pub const VB: [u64; 8] = [0, 63, 64, 16383, 16384, (1 << 30) - 1, 1 << 30, (1 << 62) - 1];
/// byte-field lengths named by the property
pub const LB: [usize; 7] = [0, 1, 63, 64, 65, 16383, 16384];
pub const U32B: [u32; 8] = [0, 63, 64, 16383, 16384, (1 << 30) - 1, 1 << 30, u32::MAX];

enum Mode {
    Enum,
    Random(Rng),
    Replay,
}

/// Recorded choice sequence.
pub struct Src {
    mode: Mode,
    preset: Vec<u64>,
    pub trace: Vec<u64>,
    radix: Vec<u64>,
}

impl Src {
    pub fn enumerate(digits: Vec<u64>) -> Self {
        Src { mode: Mode::Enum, preset: digits, trace: vec![], radix: vec![] }
    }
    pub fn random(seed: u64) -> Self {
        Src { mode: Mode::Random(Rng::new(seed)), preset: vec![], trace: vec![], radix: vec![] }
    }
    /// random after a fixed prefix of choices (used to force the top-level kind)
    pub fn random_with_prefix(seed: u64, prefix: Vec<u64>) -> Self {
        Src { mode: Mode::Random(Rng::new(seed)), preset: prefix, trace: vec![], radix: vec![] }
    }
    pub fn replay(trace: Vec<u64>) -> Self {
        Src { mode: Mode::Replay, preset: trace, trace: vec![], radix: vec![] }
    }
    pub fn is_enum(&self) -> bool {
        matches!(self.mode, Mode::Enum)
    }

    /// one of `n` alternatives; enumerated in `Enum` mode
    pub fn pick(&mut self, n: u64) -> u64 {
        debug_assert!(n > 0);
        let i = self.trace.len();
        let v = match &mut self.mode {
            Mode::Enum => self.preset.get(i).copied().unwrap_or(0).min(n - 1),
            Mode::Random(r) => match self.preset.get(i) {
                Some(p) => *p % n,
                None => r.below(n),
            },
            Mode::Replay => self.preset.get(i).copied().unwrap_or(0) % n,
        };
        self.trace.push(v);
        self.radix.push(n);
        v
    }

    /// a value in [0, n) that is *not* enumerated: in `Enum` mode it is derived from the path
    pub fn wide(&mut self, n: u64) -> u64 {
        debug_assert!(n > 0);
        let i = self.trace.len();
        let v = match &mut self.mode {
            Mode::Enum => {
                let mut h: u64 = 0x9e3779b97f4a7c15 ^ i as u64;
                for t in &self.trace {
                    h = (h ^ *t).wrapping_mul(0x100000001b3).rotate_left(17);
                }
                h ^= h >> 29;
                h = h.wrapping_mul(0xbf58476d1ce4e5b9);
                h ^= h >> 32;
                ((h as u128 * n as u128) >> 64) as u64
            }
            Mode::Random(r) => match self.preset.get(i) {
                Some(p) => *p % n,
                None => r.below(n),
            },
            Mode::Replay => self.preset.get(i).copied().unwrap_or(0) % n,
        };
        self.trace.push(v);
        self.radix.push(1);
        v
    }

    /// next digit vector in depth-first odometer order; `None` when the tree is exhausted
    pub fn next_digits(&self) -> Option<Vec<u64>> {
        let mut d = self.trace.clone();
        for i in (0..d.len()).rev() {
            if self.radix[i] > 1 && d[i] + 1 < self.radix[i] {
                d[i] += 1;
                d.truncate(i + 1);
                return Some(d);
            }
        }
        None
    }

    // ---- field helpers ------------------------------------------------------------------
    /// any varint value: the 8 width boundaries, a small one, a 2-byte one, any
    pub fn varint(&mut self) -> u64 {
        match self.pick(11) {
            i @ 0..=7 => VB[i as usize],
            8 => 1 + self.wide(62),
            9 => 64 + self.wide((1 << 14) - 64),
            _ => self.wide(1 << 62),
        }
    }
    pub fn varint_few(&mut self) -> u64 {
        match self.pick(4) {
            0 => 0,
            1 => 64,
            2 => 1 << 30,
            _ => (1 << 62) - 1,
        }
    }
    /// varint chosen without enumeration (still hits all boundaries over a run)
    pub fn varint_wide(&mut self) -> u64 {
        match self.wide(11) {
            i @ 0..=7 => VB[i as usize],
            8 => 1 + self.wide(62),
            9 => 64 + self.wide((1 << 14) - 64),
            _ => self.wide(1 << 62),
        }
    }
    pub fn u32b(&mut self) -> u32 {
        match self.pick(9) {
            i @ 0..=7 => U32B[i as usize],
            _ => self.wide(1 << 32) as u32,
        }
    }
    pub fn u32_few(&mut self) -> u32 {
        match self.pick(4) {
            0 => 0,
            1 => 64,
            2 => 16384,
            _ => u32::MAX,
        }
    }
    /// a byte-field length: the boundary lengths or an arbitrary one below `max_other`
    pub fn blen(&mut self, max_other: u64) -> usize {
        match self.pick(8) {
            i @ 0..=6 => LB[i as usize],
            _ => self.wide(max_other) as usize,
        }
    }
    pub fn bytes(&mut self, n: usize) -> Vec<u8> {
        let salt = self.wide(u64::MAX);
        let mut v = vec![0u8; n];
        vcore::prf_fill(salt, 0x05, 0, &mut v);
        v
    }
    pub fn cid(&mut self, len: usize) -> ConnectionId {
        ConnectionId::from_slice(&self.bytes(len))
    }
    pub fn cid_any(&mut self) -> ConnectionId {
        let n = self.pick(21) as usize;
        self.cid(n)
    }
    pub fn reset_token(&mut self) -> ResetToken {
        match self.pick(3) {
            0 => ResetToken::new(&[0u8; 16]),
            1 => ResetToken::new(&[0xffu8; 16]),
            _ => ResetToken::new(&self.bytes(16)),
        }
    }
    pub fn sock_addr(&mut self, family: Family) -> SocketAddr {
        let port = match self.pick(3) {
            0 => 0,
            1 => u16::MAX,
            _ => self.wide(65536) as u16,
        };
        let b = self.bytes(16);
        // address classes an encoder might be tempted to normalise: IPv4-mapped / IPv4-compatible IPv6,
        // unspecified, loopback, link-local, multicast, all-ones
        let class = self.pick(10);
        match family {
            Family::V4 => {
                let ip = match class {
                    0 => Ipv4Addr::UNSPECIFIED,
                    1 => Ipv4Addr::BROADCAST,
                    2 => Ipv4Addr::LOCALHOST,
                    _ => Ipv4Addr::new(b[0], b[1], b[2], b[3]),
                };
                SocketAddr::new(IpAddr::V4(ip), port)
            }
            Family::V6 => {
                let mut o = [0u8; 16];
                o.copy_from_slice(&b);
                match class {
                    0 | 1 => {
                        // ::ffff:a.b.c.d
                        o[..10].fill(0);
                        o[10] = 0xff;
                        o[11] = 0xff;
                    }
                    2 => o[..12].fill(0), // ::a.b.c.d
                    3 => o = [0; 16],
                    4 => {
                        o = [0; 16];
                        o[15] = 1;
                    }
                    5 => {
                        o[0] = 0xfe;
                        o[1] = 0x80;
                    }
                    6 => {
                        o[0] = 0xff;
                        o[1] = 0x02;
                    }
                    7 => o = [0xff; 16],
                    _ => {}
                }
                SocketAddr::new(IpAddr::V6(Ipv6Addr::from(o)), port)
            }
        }
    }
    pub fn family(&mut self) -> Family {
        if self.pick(2) == 0 { Family::V4 } else { Family::V6 }
    }
    pub fn nat(&mut self) -> NatType {
        match self.pick(6) {
            0 => NatType::Blocked,
            1 => NatType::FullCone,
            2 => NatType::RestrictedCone,
            3 => NatType::RestrictedPort,
            4 => NatType::Symmetric,
            _ => NatType::Dynamic,
        }
    }
    pub fn stream_id(&mut self) -> StreamId {
        StreamId::from(VarInt::from_u64(self.varint()).unwrap())
    }
    /// valid UTF-8 of exactly `n` bytes
    pub fn reason(&mut self, n: usize) -> String {
        let salt = self.wide(u64::MAX);
        let mut s = String::with_capacity(n);
        let mut i = 0u64;
        while s.len() < n {
            let left = n - s.len();
            let r = vcore::prf_byte(salt, 0x51, i);
            i += 1;
            if left >= 3 && r % 16 == 0 {
                s.push('\u{20ac}'); // 3 bytes
            } else if left >= 2 && r % 16 == 1 {
                s.push('\u{e9}'); // 2 bytes
            } else {
                s.push((b' ' + r % 95) as char);
            }
        }
        s
    }
}

pub fn vi(x: u64) -> VarInt {
    VarInt::from_u64(x).expect("generator produced a value >= 2^62")
}

// ---------------------------------------------------------------------------------------------
// packet types
// ---------------------------------------------------------------------------------------------
pub fn pkt_types() -> [Type; 5] {
    [
        Type::Long(LongType::V1(Ver1::INITIAL)),
        Type::Long(LongType::V1(Ver1::ZERO_RTT)),
        Type::Long(LongType::V1(Ver1::HANDSHAKE)),
        Type::Short(OneRtt(false.into())),
        Type::Short(OneRtt(true.into())),
    ]
}
pub const PKT_NAMES: [&str; 5] = ["initial", "0rtt", "handshake", "1rtt", "1rtt-spin"];

/// RFC 9000 Table 3 ("Pkts" column), RFC 9221 §4 for DATAGRAM, written independently of
/// `FrameType::belongs_to`.  `pkt` indexes `pkt_types()`.  The traversal extension frames are
/// not covered by an RFC: `None` = no requirement.
pub fn rfc_permits(fty: FrameType, pkt: usize) -> Option<bool> {
    let (i, o, h, l) = (pkt == 0, pkt == 1, pkt == 2, pkt >= 3);
    Some(match fty {
        FrameType::Padding | FrameType::Ping => true,
        FrameType::Ack(_) | FrameType::Crypto => i || h || l,
        FrameType::ResetStream
        | FrameType::StopSending
        | FrameType::Stream(..)
        | FrameType::MaxData
        | FrameType::MaxStreamData
        | FrameType::MaxStreams(_)
        | FrameType::DataBlocked
        | FrameType::StreamDataBlocked
        | FrameType::StreamsBlocked(_)
        | FrameType::NewConnectionId
        | FrameType::RetireConnectionId
        | FrameType::PathChallenge
        | FrameType::Datagram(_) => o || l,
        FrameType::NewToken | FrameType::PathResponse | FrameType::HandshakeDone => l,
        FrameType::ConnectionClose(Layer::Quic) => true,
        FrameType::ConnectionClose(Layer::App) => o || l,
        FrameType::AddAddress(_)
        | FrameType::RemoveAddress
        | FrameType::PunchMeNow(_)
        | FrameType::PunchHello
        | FrameType::PunchDone => return None,
    })
}

pub fn all_frame_types() -> Vec<FrameType> {
    let mut v = vec![
        FrameType::Padding,
        FrameType::Ping,
        FrameType::Ack(Ecn::None),
        FrameType::Ack(Ecn::Exist),
        FrameType::ResetStream,
        FrameType::StopSending,
        FrameType::Crypto,
        FrameType::NewToken,
    ];
    for o in [Offset::Zero, Offset::NonZero] {
        for l in [Len::Omit, Len::Explicit] {
            for f in [Fin::No, Fin::Yes] {
                v.push(FrameType::Stream(o, l, f));
            }
        }
    }
    v.extend([
        FrameType::MaxData,
        FrameType::MaxStreamData,
        FrameType::MaxStreams(Dir::Bi),
        FrameType::MaxStreams(Dir::Uni),
        FrameType::DataBlocked,
        FrameType::StreamDataBlocked,
        FrameType::StreamsBlocked(Dir::Bi),
        FrameType::StreamsBlocked(Dir::Uni),
        FrameType::NewConnectionId,
        FrameType::RetireConnectionId,
        FrameType::PathChallenge,
        FrameType::PathResponse,
        FrameType::ConnectionClose(Layer::Quic),
        FrameType::ConnectionClose(Layer::App),
        FrameType::HandshakeDone,
        FrameType::Datagram(0),
        FrameType::Datagram(1),
        FrameType::AddAddress(Family::V4),
        FrameType::AddAddress(Family::V6),
        FrameType::PunchMeNow(Family::V4),
        FrameType::PunchMeNow(Family::V6),
        FrameType::RemoveAddress,
        FrameType::PunchHello,
        FrameType::PunchDone,
    ]);
    v
}

// ---------------------------------------------------------------------------------------------
// frames
// ---------------------------------------------------------------------------------------------
pub const FRAME_KINDS: [&str; 26] = [
    "padding",
    "ping",
    "ack",
    "reset_stream",
    "stop_sending",
    "crypto",
    "new_token",
    "stream",
    "max_data",
    "max_stream_data",
    "max_streams",
    "data_blocked",
    "stream_data_blocked",
    "streams_blocked",
    "new_connection_id",
    "retire_connection_id",
    "path_challenge",
    "path_response",
    "connection_close",
    "handshake_done",
    "datagram",
    "add_address",
    "remove_address",
    "punch_me_now",
    "punch_hello",
    "punch_done",
];

pub fn frame_kind(f: &Frame) -> usize {
    match f {
        Frame::Padding(_) => 0,
        Frame::Ping(_) => 1,
        Frame::Ack(_) => 2,
        Frame::StreamCtl(StreamCtlFrame::ResetStream(_)) => 3,
        Frame::StreamCtl(StreamCtlFrame::StopSending(_)) => 4,
        Frame::Crypto(..) => 5,
        Frame::NewToken(_) => 6,
        Frame::Stream(..) => 7,
        Frame::MaxData(_) => 8,
        Frame::StreamCtl(StreamCtlFrame::MaxStreamData(_)) => 9,
        Frame::StreamCtl(StreamCtlFrame::MaxStreams(_)) => 10,
        Frame::DataBlocked(_) => 11,
        Frame::StreamCtl(StreamCtlFrame::StreamDataBlocked(_)) => 12,
        Frame::StreamCtl(StreamCtlFrame::StreamsBlocked(_)) => 13,
        Frame::NewConnectionId(_) => 14,
        Frame::RetireConnectionId(_) => 15,
        Frame::PathChallenge(_) => 16,
        Frame::PathResponse(_) => 17,
        Frame::Close(_) => 18,
        Frame::HandshakeDone(_) => 19,
        Frame::Datagram(..) => 20,
        Frame::AddAddress(_) => 21,
        Frame::RemoveAddress(_) => 22,
        Frame::PunchMeNow(_) => 23,
        Frame::PunchHello(_) => 24,
        Frame::PunchDone(_) => 25,
    }
}

pub fn error_kind(s: &mut Src) -> ErrorKind {
    const K: [ErrorKind; 17] = [
        ErrorKind::None,
        ErrorKind::Internal,
        ErrorKind::ConnectionRefused,
        ErrorKind::FlowControl,
        ErrorKind::StreamLimit,
        ErrorKind::StreamState,
        ErrorKind::FinalSize,
        ErrorKind::FrameEncoding,
        ErrorKind::TransportParameter,
        ErrorKind::ConnectionIdLimit,
        ErrorKind::ProtocolViolation,
        ErrorKind::InvalidToken,
        ErrorKind::Application,
        ErrorKind::CryptoBufferExceeded,
        ErrorKind::KeyUpdate,
        ErrorKind::AeadLimitReached,
        ErrorKind::NoViablePath,
    ];
    match s.pick(20) {
        i @ 0..=16 => K[i as usize],
        17 => ErrorKind::Crypto(0),
        18 => ErrorKind::Crypto(0xff),
        _ => ErrorKind::Crypto(s.wide(256) as u8),
    }
}

/// the data of a data-bearing frame must be told apart by offset: PRF content
fn data(s: &mut Src, n: usize) -> Bytes {
    Bytes::from(s.bytes(n))
}

/// One frame value of kind `s.pick(26)`.  `max_len` bounds the "arbitrary" byte-field length.
pub fn gen_frame(s: &mut Src) -> Frame {
    let kind = s.pick(FRAME_KINDS.len() as u64) as usize;
    gen_frame_of(s, kind, 1500)
}

pub fn gen_frame_of(s: &mut Src, kind: usize, max_len: u64) -> Frame {
    match kind {
        0 => Frame::Padding(PaddingFrame),
        1 => Frame::Ping(PingFrame),
        2 => {
            let largest = s.varint();
            let delay = s.varint_few();
            // a first range reaching below packet number 0 is not a frame value (RFC 9000 §19.3.1; the
            // decoder rejects it with FRAME_ENCODING_ERROR): clamp, keeping the draw sequence unchanged
            let first = s.varint().min(largest);
            let n = match s.pick(6) {
                0 => 0,
                1 => 1,
                2 => 2,
                3 => 63,
                4 => 64,
                _ => s.wide(300) as usize,
            };
            let ranges = (0..n).map(|_| (vi(s.varint_wide()), vi(s.varint_wide()))).collect();
            let ecn = match s.pick(3) {
                0 => None,
                1 => Some(EcnCounts::new(vi(0), vi(0), vi(0))),
                _ => Some(EcnCounts::new(vi(s.varint_wide()), vi(s.varint_wide()), vi(s.varint_wide()))),
            };
            Frame::Ack(AckFrame::new(vi(largest), vi(delay), vi(first), ranges, ecn))
        }
        3 => {
            let sid = s.stream_id();
            Frame::StreamCtl(StreamCtlFrame::ResetStream(ResetStreamFrame::new(sid, vi(s.varint()), vi(s.varint()))))
        }
        4 => {
            let sid = s.stream_id();
            Frame::StreamCtl(StreamCtlFrame::StopSending(StopSendingFrame::new(sid, vi(s.varint()))))
        }
        5 => {
            let len = s.blen(max_len);
            // RFC 9000 §19.6: offset + length cannot exceed 2^62-1
            let off = s.varint().min((1 << 62) - 1 - len as u64);
            Frame::Crypto(CryptoFrame::new(vi(off), vi(len as u64)), data(s, len))
        }
        6 => {
            let len = s.blen(max_len);
            Frame::NewToken(NewTokenFrame::new(s.bytes(len)))
        }
        7 => {
            let sid = s.stream_id();
            let len = s.blen(max_len);
            let off = s.varint().min((1 << 62) - 1 - len as u64);
            let mut f = StreamFrame::new(sid, off, len);
            f.set_len_bit(if s.pick(2) == 0 { Len::Omit } else { Len::Explicit });
            f.set_eos_flag(s.pick(2) == 1);
            Frame::Stream(f, data(s, len))
        }
        8 => Frame::MaxData(MaxDataFrame::new(vi(s.varint()))),
        9 => {
            let sid = s.stream_id();
            Frame::StreamCtl(StreamCtlFrame::MaxStreamData(MaxStreamDataFrame::new(sid, vi(s.varint()))))
        }
        10 => {
            let dir = if s.pick(2) == 0 { Dir::Bi } else { Dir::Uni };
            // RFC 9000 §19.11: the value cannot exceed 2^60
            let v = match s.pick(10) {
                i @ 0..=6 => VB[i as usize],
                7 => (1 << 60) - 1,
                8 => 1 << 60,
                _ => s.wide(1 << 60),
            };
            Frame::StreamCtl(StreamCtlFrame::MaxStreams(MaxStreamsFrame::with(dir, vi(v))))
        }
        11 => Frame::DataBlocked(DataBlockedFrame::new(vi(s.varint()))),
        12 => {
            let sid = s.stream_id();
            Frame::StreamCtl(StreamCtlFrame::StreamDataBlocked(StreamDataBlockedFrame::new(sid, vi(s.varint()))))
        }
        13 => {
            let dir = if s.pick(2) == 0 { Dir::Bi } else { Dir::Uni };
            let v = match s.pick(10) {
                i @ 0..=6 => VB[i as usize],
                7 => (1 << 60) - 1,
                8 => 1 << 60,
                _ => s.wide(1 << 60),
            };
            Frame::StreamCtl(StreamCtlFrame::StreamsBlocked(StreamsBlockedFrame::with(dir, vi(v))))
        }
        14 => {
            let seq = s.varint();
            let rpt = match s.pick(3) {
                0 => 0,
                1 => seq,
                _ => seq / 2,
            };
            let len = 1 + s.pick(20) as usize;
            let cid = s.cid(len);
            Frame::NewConnectionId(NewConnectionIdFrame::new(cid, vi(seq), vi(rpt)))
        }
        15 => Frame::RetireConnectionId(RetireConnectionIdFrame::new(vi(s.varint()))),
        16 => {
            let b = match s.pick(3) {
                0 => vec![0u8; 8],
                1 => vec![0xffu8; 8],
                _ => s.bytes(8),
            };
            Frame::PathChallenge(PathChallengeFrame::from_slice(&b))
        }
        17 => {
            let b = match s.pick(3) {
                0 => vec![0u8; 8],
                1 => vec![0xffu8; 8],
                _ => s.bytes(8),
            };
            Frame::PathResponse(PathChallengeFrame::from_slice(&b).into())
        }
        18 => {
            if s.pick(2) == 0 {
                let kind = error_kind(s);
                let ftys = all_frame_types();
                let fty = ftys[s.pick(ftys.len() as u64) as usize];
                let len = s.blen(max_len);
                let reason = s.reason(len);
                Frame::Close(ConnectionCloseFrame::new_quic(kind, ErrorFrameType::V1(fty), reason))
            } else {
                let code = s.varint();
                let len = s.blen(max_len);
                let reason = s.reason(len);
                Frame::Close(ConnectionCloseFrame::new_app(vi(code), reason))
            }
        }
        19 => Frame::HandshakeDone(HandshakeDoneFrame),
        20 => {
            let with_len = s.pick(2) == 1;
            let len = s.blen(max_len);
            Frame::Datagram(DatagramFrame::new(with_len, vi(len as u64)), data(s, len))
        }
        21 => {
            let seq = s.u32b();
            let fam = s.family();
            let addr = s.sock_addr(fam);
            let tire = s.u32_few();
            let nat = s.nat();
            Frame::AddAddress(AddAddressFrame::new(seq, addr, tire, nat))
        }
        22 => Frame::RemoveAddress(RemoveAddressFrame { seq_num: vi(s.varint()) }),
        23 => {
            let l = s.u32b();
            let r = s.u32_few();
            let fam = s.family();
            let addr = s.sock_addr(fam);
            let tire = s.u32_few();
            let nat = s.nat();
            Frame::PunchMeNow(PunchMeNowFrame::new(l, r, addr, tire, nat))
        }
        24 => Frame::PunchHello(PunchHelloFrame::new(s.u32b(), s.u32b(), s.u32b())),
        _ => Frame::PunchDone(PunchDoneFrame::new(s.u32b(), s.u32b(), s.u32b())),
    }
}

/// whether the encoding of the frame carries its own end (false: extends to the end of the packet)
pub fn is_delimited(f: &Frame) -> bool {
    match f {
        Frame::Stream(sf, _) => matches!(sf.frame_type(), FrameType::Stream(_, Len::Explicit, _)),
        Frame::Datagram(df, _) => df.encode_len(),
        _ => true,
    }
}

pub fn data_len(f: &Frame) -> usize {
    match f {
        Frame::Stream(_, d) | Frame::Crypto(_, d) | Frame::Datagram(_, d) => d.len(),
        _ => 0,
    }
}

pub fn encode_frame(f: &Frame) -> Vec<u8> {
    let mut v: Vec<u8> = Vec::new();
    v.put_frame(f);
    v
}

/// short human description (values, not the data bytes)
pub fn describe_frame(f: &Frame) -> String {
    match f {
        Frame::Stream(sf, d) => format!("{:?} + {} data bytes", sf, d.len()),
        Frame::Crypto(cf, d) => format!("{:?} + {} data bytes", cf, d.len()),
        Frame::Datagram(df, d) => format!("{:?} + {} data bytes", df, d.len()),
        Frame::NewToken(t) => format!("NewTokenFrame(token of {} bytes)", t.token().len()),
        Frame::Close(ConnectionCloseFrame::Quic(q)) => {
            format!("QuicClose({:?}, {:?}, reason of {} bytes)", q.error_kind(), q.frame_type(), q.reason().len())
        }
        Frame::Close(ConnectionCloseFrame::App(a)) => format!("AppClose({}, reason of {} bytes)", a.error_code(), a.reason().len()),
        Frame::Ack(a) => format!(
            "Ack(largest {}, delay {}, first {}, {} ranges, ecn {:?})",
            a.largest(),
            a.delay(),
            a.first_range(),
            a.ranges().len(),
            a.ecn()
        ),
        other => {
            let s = format!("{:?}", other);
            if s.len() > 300 { format!("{}…", &s[..300]) } else { s }
        }
    }
}

// ---------------------------------------------------------------------------------------------
// transport parameters
// ---------------------------------------------------------------------------------------------
pub const ALL_PARAM_IDS: [ParameterId; 20] = [
    ParameterId::OriginalDestinationConnectionId,
    ParameterId::MaxIdleTimeout,
    ParameterId::StatelessResetToken,
    ParameterId::MaxUdpPayloadSize,
    ParameterId::InitialMaxData,
    ParameterId::InitialMaxStreamDataBidiLocal,
    ParameterId::InitialMaxStreamDataBidiRemote,
    ParameterId::InitialMaxStreamDataUni,
    ParameterId::InitialMaxStreamsBidi,
    ParameterId::InitialMaxStreamsUni,
    ParameterId::AckDelayExponent,
    ParameterId::MaxAckDelay,
    ParameterId::DisableActiveMigration,
    ParameterId::PreferredAddress,
    ParameterId::ActiveConnectionIdLimit,
    ParameterId::InitialSourceConnectionId,
    ParameterId::RetrySourceConnectionId,
    ParameterId::MaxDatagramFrameSize,
    ParameterId::GreaseQuicBit,
    ParameterId::ClientName,
];

pub fn server_only(id: ParameterId) -> bool {
    matches!(
        id,
        ParameterId::OriginalDestinationConnectionId
            | ParameterId::StatelessResetToken
            | ParameterId::PreferredAddress
            | ParameterId::RetrySourceConnectionId
    )
}

pub fn preferred_address(s: &mut Src) -> PreferredAddress {
    let SocketAddr::V4(a4) = s.sock_addr(Family::V4) else { unreachable!() };
    let SocketAddr::V6(a6) = s.sock_addr(Family::V6) else { unreachable!() };
    let a4 = SocketAddrV4::new(*a4.ip(), a4.port());
    let a6 = SocketAddrV6::new(*a6.ip(), a6.port(), 0, 0);
    // RFC 9000 §18.2: a zero-length connection ID is not allowed in preferred_address
    let n = 1 + s.pick(20) as usize;
    let cid = s.cid(n);
    PreferredAddress::new(a4, a6, cid, s.reset_token())
}

/// A value the library's own `set` accepts for `id` (type-correct, inside the declared bounds).
pub fn param_value(s: &mut Src, id: ParameterId) -> ParameterValue {
    use std::time::Duration;
    match id {
        ParameterId::OriginalDestinationConnectionId | ParameterId::InitialSourceConnectionId | ParameterId::RetrySourceConnectionId => {
            ParameterValue::ConnectionId(s.cid_any())
        }
        ParameterId::MaxIdleTimeout => ParameterValue::Duration(Duration::from_millis(s.varint())),
        // RFC 9000 §18.2: values of 2^14 or greater are invalid
        ParameterId::MaxAckDelay => ParameterValue::Duration(Duration::from_millis(match s.pick(6) {
            0 => 0,
            1 => 25,
            2 => 63,
            3 => 64,
            4 => 16383,
            _ => s.wide(16384),
        })),
        // RFC 9000 §18.2: a value greater than 2^60 is invalid
        ParameterId::InitialMaxStreamsBidi | ParameterId::InitialMaxStreamsUni => ParameterValue::VarInt(vi(match s.pick(10) {
            i @ 0..=6 => VB[i as usize],
            7 => (1 << 60) - 1,
            8 => 1 << 60,
            _ => s.wide(1 << 60),
        })),
        ParameterId::StatelessResetToken => ParameterValue::ResetToken(s.reset_token()),
        ParameterId::MaxUdpPayloadSize => ParameterValue::VarInt(vi(match s.pick(5) {
            0 => 1200,
            1 => 1201,
            2 => 16383,
            3 => 16384,
            _ => 65527,
        })),
        ParameterId::AckDelayExponent => ParameterValue::VarInt(vi(match s.pick(4) {
            0 => 0,
            1 => 3,
            2 => 19,
            _ => 20,
        })),
        ParameterId::ActiveConnectionIdLimit => ParameterValue::VarInt(vi(s.varint().max(2))),
        ParameterId::DisableActiveMigration | ParameterId::GreaseQuicBit => ParameterValue::True,
        ParameterId::PreferredAddress => ParameterValue::PreferredAddress(preferred_address(s)),
        ParameterId::ClientName => {
            let n = s.blen(300);
            ParameterValue::Bytes(Bytes::from(s.bytes(n)))
        }
        _ => ParameterValue::VarInt(vi(s.varint())),
    }
}

#[derive(Debug, Clone)]
pub struct ParamCase {
    pub role: Role,
    /// include the ids the parser requires for the role
    pub complete: bool,
    pub list: Vec<(ParameterId, ParameterValue)>,
}

/// A parameter assignment valid for a role.  Enumeration shape: role x one "focus" id that takes
/// every boundary value while the presence of the other ids is drawn without enumeration.
pub fn gen_params(s: &mut Src) -> ParamCase {
    let role = if s.pick(2) == 0 { Role::Client } else { Role::Server };
    let complete = s.pick(4) != 0;
    let ids: Vec<ParameterId> = ALL_PARAM_IDS
        .iter()
        .copied()
        .filter(|id| match role {
            Role::Client => !server_only(*id),
            Role::Server => *id != ParameterId::ClientName,
        })
        .collect();
    let focus = ids[s.pick(ids.len() as u64) as usize];
    let mut list = vec![];
    let fv = param_value(s, focus);
    list.push((focus, fv));
    let density = s.wide(4); // 0: only focus, 1: sparse, 2: half, 3: all
    for id in &ids {
        if *id == focus {
            continue;
        }
        let required = *id == ParameterId::InitialSourceConnectionId || (role == Role::Server && *id == ParameterId::OriginalDestinationConnectionId);
        let present = match density {
            0 => false,
            1 => s.wide(5) == 0,
            2 => s.wide(2) == 0,
            _ => true,
        };
        if present || (complete && required) {
            // the other ids take un-enumerated values
            let mut sub = Src::replay(vec![s.wide(u64::MAX), s.wide(u64::MAX), s.wide(u64::MAX), s.wide(u64::MAX), s.wide(u64::MAX), s.wide(u64::MAX)]);
            list.push((*id, param_value(&mut sub, *id)));
        }
    }
    ParamCase { role, complete, list }
}

pub fn build_client(list: &[(ParameterId, ParameterValue)]) -> Result<ClientParameters, String> {
    let mut p = ClientParameters::new();
    for (id, v) in list {
        p.set(*id, v.clone()).map_err(|e| format!("set({id:?}) refused: {e}"))?;
    }
    Ok(p)
}
pub fn build_server(list: &[(ParameterId, ParameterValue)]) -> Result<ServerParameters, String> {
    let mut p = ServerParameters::new();
    for (id, v) in list {
        p.set(*id, v.clone()).map_err(|e| format!("set({id:?}) refused: {e}"))?;
    }
    Ok(p)
}

pub fn encode_params(c: &ParamCase) -> Result<Vec<u8>, String> {
    use qbase::param::WriteParameters;
    let mut v: Vec<u8> = Vec::new();
    match c.role {
        Role::Client => v.put_parameters(&build_client(&c.list)?),
        Role::Server => v.put_parameters(&build_server(&c.list)?),
    }
    Ok(v)
}

// ---------------------------------------------------------------------------------------------
// packet headers / datagrams
// ---------------------------------------------------------------------------------------------
#[derive(Debug, Clone)]
pub enum HeaderCase {
    Vn { dcid: ConnectionId, scid: ConnectionId, versions: Vec<u32> },
    Retry { dcid: ConnectionId, scid: ConnectionId, token: Vec<u8>, integrity: [u8; 16] },
    Initial { dcid: ConnectionId, scid: ConnectionId, token: Vec<u8> },
    ZeroRtt { dcid: ConnectionId, scid: ConnectionId },
    Handshake { dcid: ConnectionId, scid: ConnectionId },
    OneRtt { spin: bool, dcid: ConnectionId },
}

pub const HEADER_KINDS: [&str; 6] = ["vn", "retry", "initial", "0rtt", "handshake", "1rtt"];

pub fn gen_header(s: &mut Src) -> HeaderCase {
    let kind = s.pick(6);
    let dcid = s.cid_any();
    match kind {
        0 => {
            let scid = s.cid_any();
            let n = match s.pick(4) {
                0 => 0,
                1 => 1,
                2 => 2,
                _ => s.wide(40) as usize,
            };
            let versions = (0..n).map(|_| s.wide(1 << 32) as u32).collect();
            HeaderCase::Vn { dcid, scid, versions }
        }
        1 => {
            let scid = s.cid_any();
            let n = s.blen(400);
            let token = s.bytes(n);
            let mut integrity = [0u8; 16];
            integrity.copy_from_slice(&s.bytes(16));
            HeaderCase::Retry { dcid, scid, token, integrity }
        }
        2 => {
            let scid = s.cid_any();
            let n = s.blen(400);
            HeaderCase::Initial { dcid, scid, token: s.bytes(n) }
        }
        3 => HeaderCase::ZeroRtt { dcid, scid: s.cid_any() },
        4 => HeaderCase::Handshake { dcid, scid: s.cid_any() },
        _ => HeaderCase::OneRtt { spin: s.pick(2) == 1, dcid },
    }
}

/// Serialise a long/short packet by hand (header, length field, `payload` opaque bytes).
/// `len_width` is the width of the Length varint (1, 2, 4 or 8; the value must fit).
pub fn raw_packet(h: &HeaderCase, payload: &[u8], len_width: usize) -> Vec<u8> {
    use bytes::BufMut;
    use qbase::packet::header::{LongHeaderBuilder, OneRttHeader, io::WriteHeader};
    let mut v: Vec<u8> = Vec::new();
    let put_len = |v: &mut Vec<u8>, n: usize| match len_width {
        1 => v.put_u8(n as u8),
        2 => v.put_u16(0x4000 | n as u16),
        4 => v.put_u32(0x8000_0000 | n as u32),
        _ => v.put_u64(0xc000_0000_0000_0000 | n as u64),
    };
    match h {
        HeaderCase::Vn { dcid, scid, versions } => v.put_header(&LongHeaderBuilder::with_cid(*dcid, *scid).vn(versions.clone())),
        HeaderCase::Retry { dcid, scid, token, integrity } => v.put_header(&LongHeaderBuilder::with_cid(*dcid, *scid).retry(token.clone(), *integrity)),
        HeaderCase::Initial { dcid, scid, token } => {
            v.put_header(&LongHeaderBuilder::with_cid(*dcid, *scid).initial(token.clone()));
            put_len(&mut v, payload.len());
            v.extend_from_slice(payload);
        }
        HeaderCase::ZeroRtt { dcid, scid } => {
            v.put_header(&LongHeaderBuilder::with_cid(*dcid, *scid).zero_rtt());
            put_len(&mut v, payload.len());
            v.extend_from_slice(payload);
        }
        HeaderCase::Handshake { dcid, scid } => {
            v.put_header(&LongHeaderBuilder::with_cid(*dcid, *scid).handshake());
            put_len(&mut v, payload.len());
            v.extend_from_slice(payload);
        }
        HeaderCase::OneRtt { spin, dcid } => {
            v.put_header(&OneRttHeader::new((*spin).into(), *dcid));
            v.extend_from_slice(payload);
        }
    }
    v
}

/// A syntactically valid datagram: 1..3 coalesced packets, a short-header packet only last.
/// Returns the bytes and the DCID length a reader must be configured with.
pub fn gen_datagram(s: &mut Src) -> (Vec<u8>, usize) {
    let n = 1 + s.pick(3);
    let dlen = s.pick(21) as usize;
    let mut out = vec![];
    for i in 0..n {
        let last = i + 1 == n;
        let kind = if last { s.wide(6) } else { 2 + s.wide(3) };
        let dcid = s.cid(dlen);
        let scid = s.cid_any();
        let plen = match s.wide(4) {
            0 => 20,
            1 => 21,
            2 => 20 + s.wide(44) as usize,
            _ => 64 + s.wide(1100) as usize,
        };
        let payload = s.bytes(plen);
        let h = match kind {
            0 => HeaderCase::Vn { dcid, scid, versions: (0..s.wide(5)).map(|_| s.wide(1 << 32) as u32).collect() },
            1 => {
                let n = s.wide(60) as usize;
                let mut integrity = [0u8; 16];
                integrity.copy_from_slice(&s.bytes(16));
                HeaderCase::Retry { dcid, scid, token: s.bytes(n), integrity }
            }
            2 => {
                let n = match s.wide(3) {
                    0 => 0,
                    1 => s.wide(63) as usize,
                    _ => 64 + s.wide(100) as usize,
                };
                HeaderCase::Initial { dcid, scid, token: s.bytes(n) }
            }
            3 => HeaderCase::ZeroRtt { dcid, scid },
            4 => HeaderCase::Handshake { dcid, scid },
            _ => HeaderCase::OneRtt { spin: s.wide(2) == 1, dcid },
        };
        let w = if plen < 64 && s.wide(2) == 0 { 1 } else { [2usize, 4, 8][s.wide(3) as usize] };
        out.extend_from_slice(&raw_packet(&h, &payload, w));
    }
    (out, dlen)
}
