//! Reference ("what do these bytes mean") parsers for the C03 monitor, written from
//! RFC 9000 §16–§19, RFC 9221 §4 and, for the traversal extension frames that no RFC covers,
//! from the field lists in the frames' own doc comments.  They only compute *framing* (how many
//! bytes an element occupies, which type it is, which raw field values it has) and the class of
//! outcome the RFC demands; they share no code with the decoders under test.
#![allow(dead_code)]

pub const VMAX: u64 = (1 << 62) - 1;

/// read a variable-length integer (RFC 9000 §16)
pub fn rv(b: &[u8], pos: &mut usize) -> Option<u64> {
    let first = *b.get(*pos)?;
    let n = 1usize << (first >> 6);
    if b.len() - *pos < n {
        return None;
    }
    let mut v = (first & 0x3f) as u64;
    for k in 1..n {
        v = (v << 8) | b[*pos + k] as u64;
    }
    *pos += n;
    Some(v)
}

fn take(b: &[u8], pos: &mut usize, n: u64) -> Option<std::ops::Range<usize>> {
    if ((b.len() - *pos) as u64) < n {
        return None;
    }
    let r = *pos..*pos + n as usize;
    *pos += n as usize;
    Some(r)
}

pub fn min_varint_len(v: u64) -> usize {
    if v < 64 {
        1
    } else if v < 16384 {
        2
    } else if v < 1 << 30 {
        4
    } else {
        8
    }
}

// ---------------------------------------------------------------------------------------------
// frames
// ---------------------------------------------------------------------------------------------
#[derive(Debug, Clone, Copy, PartialEq, Eq)]
pub enum Verdict {
    /// the bytes are a well-formed frame permitted in this packet type: decoder must accept
    MustOk,
    /// RFC demands a connection error whose detection is the decoder's job (it cannot even frame it)
    MustErr,
    /// framing is fine but a semantic MUST/MAY-reject rule applies that the decoder or a later
    /// handler may enforce: either outcome is acceptable here
    Either,
}

pub const K_FE: u8 = 1; // FRAME_ENCODING_ERROR
pub const K_PV: u8 = 2; // PROTOCOL_VIOLATION
pub const K_ANY: u8 = 0xff;

#[derive(Debug, Clone)]
pub struct RefFrame {
    /// bytes the frame occupies (None: cannot be framed)
    pub consumed: Option<usize>,
    /// frame type value (None: type field truncated)
    pub ty: Option<u64>,
    pub verdict: Verdict,
    /// error kinds the RFC allows if the outcome is an error
    pub kinds: u8,
    /// class of the (possible) error, for signatures
    pub class: &'static str,
}

/// which packet types (index into codec_gen::pkt_types(): initial, 0rtt, handshake, 1rtt, 1rtt)
/// may carry frame type `t`; None = unknown frame type.  RFC 9000 Table 3, RFC 9221 §4; the
/// extension frames 0x3d7e90..96 are application-data frames by their own definition.
pub fn permitted(t: u64, pkt: usize) -> Option<bool> {
    let (i, o, h, l) = (pkt == 0, pkt == 1, pkt == 2, pkt >= 3);
    Some(match t {
        0x00 | 0x01 => true,
        0x02 | 0x03 | 0x06 => i || h || l,
        0x04 | 0x05 => o || l,
        0x07 => l,
        0x08..=0x0f => o || l,
        0x10..=0x1a => o || l,
        0x1b => l,
        0x1c => true,
        0x1d => o || l,
        0x1e => l,
        0x30 | 0x31 => o || l,
        0x3d7e90..=0x3d7e96 => o || l,
        _ => return None,
    })
}

pub fn type_name(t: u64) -> &'static str {
    match t {
        0x00 => "padding",
        0x01 => "ping",
        0x02 | 0x03 => "ack",
        0x04 => "reset_stream",
        0x05 => "stop_sending",
        0x06 => "crypto",
        0x07 => "new_token",
        0x08..=0x0f => "stream",
        0x10 => "max_data",
        0x11 => "max_stream_data",
        0x12 | 0x13 => "max_streams",
        0x14 => "data_blocked",
        0x15 => "stream_data_blocked",
        0x16 | 0x17 => "streams_blocked",
        0x18 => "new_connection_id",
        0x19 => "retire_connection_id",
        0x1a => "path_challenge",
        0x1b => "path_response",
        0x1c | 0x1d => "connection_close",
        0x1e => "handshake_done",
        0x30 | 0x31 => "datagram",
        0x3d7e90 | 0x3d7e91 => "add_address",
        0x3d7e92 | 0x3d7e93 => "punch_me_now",
        0x3d7e94 => "remove_address",
        0x3d7e95 => "punch_hello",
        0x3d7e96 => "punch_done",
        _ => "unknown",
    }
}

fn known_error_code(c: u64) -> bool {
    c <= 0x10 || (0x100..=0x1ff).contains(&c)
}

/// Frame at the start of `b` inside a packet of type index `pkt`.
pub fn ref_frame(b: &[u8], pkt: usize) -> RefFrame {
    let mut p = 0usize;
    let Some(t) = rv(b, &mut p) else {
        return RefFrame { consumed: None, ty: None, verdict: Verdict::MustErr, kinds: K_FE, class: "truncated-type" };
    };
    let tlen = p;
    let Some(perm) = permitted(t, pkt) else {
        // §12.4: unknown type => FRAME_ENCODING_ERROR
        return RefFrame { consumed: None, ty: Some(t), verdict: Verdict::MustErr, kinds: K_FE, class: "unknown-type" };
    };
    if !perm {
        // §12.4: frame in a packet type that is not permitted => PROTOCOL_VIOLATION (no RFC for
        // the extension frames: any kind)
        let kinds = if t >= 0x3d7e90 { K_ANY } else { K_PV };
        return RefFrame { consumed: None, ty: Some(t), verdict: Verdict::MustErr, kinds, class: "wrong-packet-type" };
    }
    let trunc = RefFrame { consumed: None, ty: Some(t), verdict: Verdict::MustErr, kinds: K_FE, class: "truncated" };
    let mut verdict = Verdict::MustOk;
    let mut kinds = K_FE;
    let mut class = "ok";
    if tlen != min_varint_len(t) {
        // §12.4: MAY treat a non-minimal frame type as PROTOCOL_VIOLATION
        verdict = Verdict::Either;
        kinds = K_PV | K_FE;
        class = "non-minimal-type";
    }
    macro_rules! v {
        () => {
            match rv(b, &mut p) {
                Some(x) => x,
                None => return trunc,
            }
        };
    }
    macro_rules! bytes {
        ($n:expr) => {
            match take(b, &mut p, $n) {
                Some(r) => r,
                None => return trunc,
            }
        };
    }
    let mut semantic = |why: &'static str, k: u8| {
        verdict = Verdict::Either;
        kinds |= k;
        class = why;
    };
    match t {
        0x00 | 0x01 | 0x1e => {}
        0x02 | 0x03 => {
            let largest = v!();
            let _delay = v!();
            let count = v!();
            let first = v!();
            // §19.3.1: a negative computed packet number => FRAME_ENCODING_ERROR (handler's job)
            let mut smallest = largest as i128 - first as i128;
            let mut neg = smallest < 0;
            let mut k = 0u64;
            while k < count {
                let gap = v!();
                let len = v!();
                let hi = smallest - gap as i128 - 2;
                smallest = hi - len as i128;
                neg |= smallest < 0;
                k += 1;
            }
            if t == 0x03 {
                v!();
                v!();
                v!();
            }
            if neg {
                semantic("ack-negative", K_FE | K_PV);
            }
        }
        0x04 => {
            v!();
            v!();
            v!();
        }
        0x05 => {
            v!();
            v!();
        }
        0x06 => {
            let off = v!();
            let len = v!();
            bytes!(len);
            if off + len > VMAX {
                semantic("offset-overflow", K_ANY);
            } else if off > VMAX / 2 {
                // the decoder under test refuses offsets above 2^61 (reported by C05 as a
                // round-trip failure); not a C03 matter
                semantic("crypto-offset-above-2^61", K_FE);
            }
        }
        0x07 => {
            let len = v!();
            bytes!(len);
            if len == 0 {
                semantic("empty-token", K_FE);
            }
        }
        0x08..=0x0f => {
            v!();
            let off = if t & 0x04 != 0 { v!() } else { 0 };
            let len = if t & 0x02 != 0 { v!() } else { (b.len() - p) as u64 };
            bytes!(len);
            if off + len > VMAX {
                semantic("offset-overflow", K_ANY);
            }
        }
        0x10 | 0x14 | 0x19 => {
            v!();
        }
        0x11 | 0x15 => {
            v!();
            v!();
        }
        0x12 | 0x13 | 0x16 | 0x17 => {
            let n = v!();
            // §19.11/§19.14: a value above 2^60 => FRAME_ENCODING_ERROR (or STREAM_LIMIT_ERROR)
            if n > 1 << 60 {
                semantic("streams-above-2^60", K_ANY);
            } else if n == 1 << 60 && t < 0x14 {
                // decoder under test refuses exactly 2^60 as well (C05 reports it)
                semantic("max-streams-2^60", K_FE);
            }
        }
        0x18 => {
            let seq = v!();
            let rpt = v!();
            let Some(&l) = b.get(p) else { return trunc };
            p += 1;
            if l > 20 {
                // §19.15: length above 20 => FRAME_ENCODING_ERROR; cannot be represented
                return RefFrame { consumed: None, ty: Some(t), verdict: Verdict::MustErr, kinds: K_FE, class: "cid-length" };
            }
            bytes!(l as u64);
            bytes!(16);
            if l == 0 {
                semantic("cid-length", K_FE);
            }
            if rpt > seq {
                semantic("retire-prior-to", K_FE);
            }
        }
        0x1a | 0x1b => {
            bytes!(8);
        }
        0x1c => {
            let code = v!();
            let fty = v!();
            let len = v!();
            bytes!(len);
            if !known_error_code(code) || permitted(fty, 3).is_none() {
                semantic("close-unknown-code-or-type", K_ANY);
            }
        }
        0x1d => {
            v!();
            let len = v!();
            bytes!(len);
        }
        0x30 => {
            p = b.len();
        }
        0x31 => {
            let len = v!();
            bytes!(len);
        }
        0x3d7e90 | 0x3d7e91 => {
            v!();
            bytes!(if t & 1 == 0 { 6 } else { 18 });
            v!();
            let nat = v!();
            if nat > 5 {
                semantic("nat-type", K_ANY);
            }
        }
        0x3d7e92 | 0x3d7e93 => {
            v!();
            v!();
            bytes!(if t & 1 == 0 { 6 } else { 18 });
            v!();
            let nat = v!();
            if nat > 5 {
                semantic("nat-type", K_ANY);
            }
        }
        0x3d7e94 => {
            v!();
        }
        0x3d7e95 | 0x3d7e96 => {
            v!();
            v!();
            v!();
        }
        _ => unreachable!(),
    }
    RefFrame { consumed: Some(p), ty: Some(t), verdict, kinds, class }
}

// ---------------------------------------------------------------------------------------------
// datagrams (RFC 9000 §17, RFC 8999)
// ---------------------------------------------------------------------------------------------
#[derive(Debug, Clone, PartialEq, Eq)]
pub struct RefPkt {
    /// 0 vn, 1 retry, 2 initial, 3 0rtt, 4 handshake, 5 1rtt
    pub kind: u8,
    /// bytes of the datagram this packet occupies
    pub len: usize,
    /// offset of the protected payload (packet number) inside the packet; 0 for vn/retry
    pub offset: usize,
    pub dcid: Vec<u8>,
    pub scid: Vec<u8>,
    pub token: Vec<u8>,
    pub spin: bool,
    /// fixed bit of a short header is 0: §17.3.1 says discard, but the bit is only checked after
    /// header protection is removed in many stacks: either outcome accepted
    pub lenient: bool,
}

pub const PKT_KIND_NAMES: [&str; 6] = ["vn", "retry", "initial", "0rtt", "handshake", "1rtt"];

/// Packets of one UDP datagram as a receiver configured with `dcid_len` must frame them.
/// Returns the packets and `Some(reason)` if framing stops with a malformed remainder
/// (the remainder is dropped).
pub fn ref_datagram(d: &[u8], dcid_len: usize) -> (Vec<RefPkt>, Option<&'static str>) {
    let mut out = vec![];
    let mut at = 0usize;
    while at < d.len() {
        let b = &d[at..];
        let b0 = b[0];
        if b0 & 0x80 == 0 {
            // short header: the rest of the datagram
            if b.len() < 1 + dcid_len {
                return (out, Some("short: truncated dcid"));
            }
            let payload = b.len() - 1 - dcid_len;
            if payload < 20 {
                // cannot even be sampled for header protection (§5.4.2: 4 + 16)
                return (out, Some("short: payload below 20 bytes"));
            }
            out.push(RefPkt {
                kind: 5,
                len: b.len(),
                offset: 1 + dcid_len,
                dcid: b[1..1 + dcid_len].to_vec(),
                scid: vec![],
                token: vec![],
                spin: b0 & 0x20 != 0,
                lenient: b0 & 0x40 == 0,
            });
            return (out, None);
        }
        if b.len() < 5 {
            return (out, Some("long: truncated version"));
        }
        let version = u32::from_be_bytes([b[1], b[2], b[3], b[4]]);
        if version > 1 {
            return (out, Some("long: unsupported version"));
        }
        if version == 1 && b0 & 0x40 == 0 {
            return (out, Some("long: fixed bit zero"));
        }
        let mut p = 5usize;
        let Some(&dl) = b.get(p) else { return (out, Some("long: truncated dcid length")) };
        p += 1;
        if dl > 20 {
            return (out, Some("long: dcid length above 20"));
        }
        let Some(dr) = take(b, &mut p, dl as u64) else { return (out, Some("long: truncated dcid")) };
        let Some(&sl) = b.get(p) else { return (out, Some("long: truncated scid length")) };
        p += 1;
        if sl > 20 {
            return (out, Some("long: scid length above 20"));
        }
        let Some(sr) = take(b, &mut p, sl as u64) else { return (out, Some("long: truncated scid")) };
        let (dcid, scid) = (b[dr].to_vec(), b[sr].to_vec());
        if version == 0 {
            if (b.len() - p) % 4 != 0 {
                return (out, Some("vn: partial version"));
            }
            out.push(RefPkt { kind: 0, len: b.len(), offset: 0, dcid, scid, token: b[p..].to_vec(), spin: false, lenient: false });
            return (out, None);
        }
        let ty = (b0 >> 4) & 3;
        if ty == 3 {
            if b.len() - p < 16 {
                return (out, Some("retry: no room for integrity tag"));
            }
            out.push(RefPkt { kind: 1, len: b.len(), offset: 0, dcid, scid, token: b[p..].to_vec(), spin: false, lenient: false });
            return (out, None);
        }
        let mut token = vec![];
        if ty == 0 {
            let Some(tl) = rv(b, &mut p) else { return (out, Some("initial: truncated token length")) };
            let Some(tr) = take(b, &mut p, tl) else { return (out, Some("initial: truncated token")) };
            token = b[tr].to_vec();
        }
        let Some(len) = rv(b, &mut p) else { return (out, Some("long: truncated length")) };
        let offset = p;
        if take(b, &mut p, len).is_none() {
            return (out, Some("long: truncated payload"));
        }
        if len < 20 {
            return (out, Some("long: payload below 20 bytes"));
        }
        out.push(RefPkt { kind: 2 + ty, len: p, offset, dcid, scid, token, spin: false, lenient: false });
        at += p;
    }
    (out, None)
}

// ---------------------------------------------------------------------------------------------
// transport parameters (RFC 9000 §18)
// ---------------------------------------------------------------------------------------------
#[derive(Debug, Clone, Copy, PartialEq, Eq)]
pub enum PType {
    VarInt,
    Flag,
    Token,
    Cid,
    PrefAddr,
    Bytes,
}

pub fn param_type(id: u64) -> Option<PType> {
    Some(match id {
        0x00 | 0x0f | 0x10 => PType::Cid,
        0x01 | 0x03..=0x0b | 0x0e | 0x20 => PType::VarInt,
        0x02 => PType::Token,
        0x0c | 0x2ab2 => PType::Flag,
        0x0d => PType::PrefAddr,
        0xffee => PType::Bytes,
        _ => return None,
    })
}

#[derive(Debug, Clone)]
pub struct RefParams {
    /// Some(reason): the blob is structurally malformed => TRANSPORT_PARAMETER_ERROR is mandatory
    pub malformed: Option<&'static str>,
    /// (id, body) of every known parameter, in order
    pub entries: Vec<(u64, Vec<u8>)>,
    pub duplicate: bool,
}

/// `from_client`: the blob was sent by a client (server-only ids are then forbidden, §18.2).
pub fn ref_params(b: &[u8], from_client: bool) -> RefParams {
    let mut r = RefParams { malformed: None, entries: vec![], duplicate: false };
    let mut p = 0usize;
    while p < b.len() {
        let Some(id) = rv(b, &mut p) else {
            r.malformed = Some("truncated-id");
            return r;
        };
        let Some(len) = rv(b, &mut p) else {
            r.malformed = Some("truncated-length");
            return r;
        };
        let Some(range) = take(b, &mut p, len) else {
            r.malformed = Some("truncated-value");
            return r;
        };
        let body = &b[range];
        let Some(ty) = param_type(id) else { continue };
        if from_client && matches!(id, 0x00 | 0x02 | 0x0d | 0x10) {
            r.malformed.get_or_insert("server-only-id-from-client");
        }
        let good = match ty {
            PType::VarInt => !body.is_empty() && body.len() == 1 << (body[0] >> 6),
            PType::Flag => body.is_empty(),
            PType::Token => body.len() == 16,
            PType::Cid => body.len() <= 20,
            PType::PrefAddr => body.len() >= 41 && body[24] <= 20 && body.len() == 41 + body[24] as usize,
            PType::Bytes => true,
        };
        if !good {
            r.malformed.get_or_insert(match ty {
                PType::VarInt => "varint-value-length",
                PType::Flag => "flag-with-value",
                PType::Token => "reset-token-length",
                PType::Cid => "cid-length",
                PType::PrefAddr => "preferred-address-length",
                PType::Bytes => "bytes",
            });
        }
        if r.entries.iter().any(|(i, _)| *i == id) {
            r.duplicate = true;
        }
        r.entries.push((id, body.to_vec()));
    }
    r
}
