//! C16 — no wake-up is ever lost.
//!
//! Probe-poll oracle.  A *schedule* is a sequence of events over one fresh instance of a
//! waiter/notifier protocol of the real crates:
//!
//! * `p<w>`  waiter `w` polls (only if it is runnable: never polled, last poll `Ready`, mid-poll,
//!           or asleep *and* its counting waker was invoked since it went to sleep; an asleep,
//!           un-woken task does not run, so the event is skipped),
//! * `s<w>`  schedule-declared spurious re-poll (polls even if asleep and un-woken; legal in Rust),
//! * `d<w>`  the waiter's current future is dropped and replaced (same task, same waker),
//! * `n<op>` a notifier operation of the protocol's *legal* grammar.
//!
//! After every notifier operation that closes/fails the object every waiter that was asleep and
//! un-woken must have had its waker invoked (`C16.close-no-wake:<protocol>`).  When the schedule is
//! over, runnable waiters are run to quiescence (they would run anyway) and then every waiter that is
//! asleep and whose waker was not invoked since its last `Pending` is polled once more: `Ready`
//! means the implementation itself says the condition holds although nobody is going to wake the
//! task (`C16.lost-wakeup:<protocol>`).  No model of the condition is involved.
//!
//! Legs: `sched` (default; exhaustive small schedules + random long ones, single thread, operation
//! granularity) and `--leg threads` (waiter and notifier on two OS threads for the lock-free
//! `AntiAmplifier` and for `SendWaker`).
use std::{
    collections::HashSet,
    sync::{
        Arc,
        atomic::{AtomicUsize, Ordering::SeqCst},
    },
    task::{Context, Wake, Waker},
};

use serde_json::{Value, json};
use vcore::{Args, Report, Rng};

#[path = "c16_qbase.rs"]
mod qb;
#[path = "c16_streams.rs"]
mod st;
#[path = "c16_threads.rs"]
pub mod th;

// ------------------------------------------------------------------------------------------------
// protocol interface
// ------------------------------------------------------------------------------------------------

/// Result of one micro-step of a waiter's poll.
pub enum Polled {
    /// the task goes to sleep (its waker is supposed to be registered)
    Pending,
    /// the logical operation completed (tag only for traces / state hashing)
    Ready(String),
    /// the poll is a multi-step check-then-register sequence and is not finished yet
    Continue,
}

/// What a notifier operation did.
pub enum Applied {
    /// precondition of the op does not hold in this state: nothing was called
    Noop,
    Done,
    /// the op closed / failed / invalidated the object for the waiters in the mask
    Closed(u8),
}

pub struct OpDef {
    pub name: &'static str,
}

pub trait Sys {
    fn step(&mut self, w: usize, cx: &mut Context<'_>) -> Polled;
    /// forget the state of waiter `w`'s current logical operation (future dropped / completed)
    fn restart(&mut self, _w: usize) {}
    fn apply(&mut self, op: usize) -> Applied;
    /// Only for protocols whose *whole* condition lives inside the notification mechanism itself
    /// (bare `SendWaker`: "an awaited signal was raised since the wait began"), where a notifier that
    /// drops the notification altogether leaves nothing a probe poll could find: the harness' own
    /// statement of the condition for waiter `w`.  `None` everywhere else.
    fn model_satisfied(&self, _w: usize) -> Option<bool> {
        None
    }
}

pub struct ProtoDef {
    pub name: &'static str,
    pub max_waiters: usize,
    pub ops: &'static [OpDef],
    /// legal notifier grammar: may `next` follow the notifier ops `done` (indices into `ops`)?
    pub legal: fn(done: &[u8], next: u8) -> bool,
    pub make: fn(def: &'static ProtoDef, nw: usize) -> Result<Box<dyn Sys>, String>,
    /// include the `d` (drop and replace the future) event in the exhaustive alphabet
    pub drop_in_exhaustive: bool,
    pub variant: u32,
}

pub fn any_order(_done: &[u8], _next: u8) -> bool {
    true
}

pub const fn op(name: &'static str) -> OpDef {
    OpDef { name }
}

pub fn all_protocols() -> Vec<&'static ProtoDef> {
    let mut v: Vec<&'static ProtoDef> = vec![];
    v.extend(qb::PROTOS.iter());
    v.extend(st::PROTOS.iter());
    v
}

// ------------------------------------------------------------------------------------------------
// schedules
// ------------------------------------------------------------------------------------------------

#[derive(Clone, Copy, PartialEq, Eq, Debug, Hash)]
pub enum Ev {
    P(u8),
    S(u8),
    D(u8),
    N(u8),
}

fn ev_to_json(def: &ProtoDef, e: &Ev) -> Value {
    match *e {
        Ev::P(w) => json!(["p", w]),
        Ev::S(w) => json!(["s", w]),
        Ev::D(w) => json!(["d", w]),
        Ev::N(o) => json!(["n", def.ops[o as usize].name]),
    }
}

fn ev_from_json(def: &ProtoDef, v: &Value) -> Option<Ev> {
    let k = v[0].as_str()?;
    Some(match k {
        "p" => Ev::P(v[1].as_u64()? as u8),
        "s" => Ev::S(v[1].as_u64()? as u8),
        "d" => Ev::D(v[1].as_u64()? as u8),
        "n" => {
            let name = v[1].as_str()?;
            Ev::N(def.ops.iter().position(|o| o.name == name)? as u8)
        }
        _ => return None,
    })
}

pub struct CountWaker {
    pub count: AtomicUsize,
}

impl Wake for CountWaker {
    fn wake(self: Arc<Self>) {
        self.count.fetch_add(1, SeqCst);
    }
    fn wake_by_ref(self: &Arc<Self>) {
        self.count.fetch_add(1, SeqCst);
    }
}

#[derive(Clone, Copy, PartialEq, Eq, Debug)]
enum Mode {
    /// no logical operation in progress (never polled, completed or dropped)
    Fresh,
    /// in the middle of a multi-step poll
    Running,
    /// last poll returned Pending
    Asleep,
}

struct Waiter {
    cw: Arc<CountWaker>,
    waker: Waker,
    mode: Mode,
    /// wake count when it went to sleep
    seen: usize,
}

impl Waiter {
    fn new() -> Self {
        let cw = Arc::new(CountWaker { count: AtomicUsize::new(0) });
        Waiter { waker: Waker::from(cw.clone()), cw, mode: Mode::Fresh, seen: 0 }
    }
    fn count(&self) -> usize {
        self.cw.count.load(SeqCst)
    }
    fn asleep_unwoken(&self) -> bool {
        self.mode == Mode::Asleep && self.count() == self.seen
    }
}

#[derive(Default)]
pub struct Outcome {
    /// (clause, human text, number of leading events needed to reproduce it)
    pub violations: Vec<(&'static str, String, usize)>,
    pub trace: String,
    pub pending_polls: u64,
    pub ready_polls: u64,
    pub skipped_polls: u64,
    pub spurious_polls: u64,
    pub wakes: u64,
    pub ops_applied: u64,
    pub ops_noop: u64,
    pub close_checks: u64,
    pub probes: u64,
    pub probes_pending: u64,
    pub woken_then_ready: u64,
    pub woken_then_pending: u64,
    pub settle_steps: u64,
    /// a waiter slept and a notifier op was applied afterwards
    pub nontrivial: bool,
    pub harness: Option<String>,
}

const STEP_CAP: usize = 12;

/// run micro-steps of waiter `w` until Pending or Ready
fn run_poll(sys: &mut dyn Sys, ws: &mut [Waiter], w: usize, out: &mut Outcome, label: &str) -> Option<bool> {
    for _ in 0..STEP_CAP {
        let waker = ws[w].waker.clone();
        let mut cx = Context::from_waker(&waker);
        let before = ws[w].count();
        match sys.step(w, &mut cx) {
            Polled::Pending => {
                // a wake issued *during* the poll (self-wake) counts as a wake after registration
                ws[w].mode = Mode::Asleep;
                ws[w].seen = before;
                out.pending_polls += 1;
                out.trace.push_str(&format!("{label}{w}:P "));
                return Some(false);
            }
            Polled::Ready(tag) => {
                ws[w].mode = Mode::Fresh;
                sys.restart(w);
                out.ready_polls += 1;
                out.trace.push_str(&format!("{label}{w}:R({tag}) "));
                return Some(true);
            }
            Polled::Continue => {
                ws[w].mode = Mode::Running;
                out.trace.push_str(&format!("{label}{w}:c "));
            }
        }
    }
    None
}

fn one_step(sys: &mut dyn Sys, ws: &mut [Waiter], w: usize, out: &mut Outcome, label: &str) {
    let waker = ws[w].waker.clone();
    let mut cx = Context::from_waker(&waker);
    let before = ws[w].count();
    match sys.step(w, &mut cx) {
        Polled::Pending => {
            ws[w].mode = Mode::Asleep;
            ws[w].seen = before;
            out.pending_polls += 1;
            out.trace.push_str(&format!("{label}{w}:P "));
        }
        Polled::Ready(tag) => {
            ws[w].mode = Mode::Fresh;
            sys.restart(w);
            out.ready_polls += 1;
            out.trace.push_str(&format!("{label}{w}:R({tag}) "));
        }
        Polled::Continue => {
            ws[w].mode = Mode::Running;
            out.trace.push_str(&format!("{label}{w}:c "));
        }
    }
}

pub fn run_schedule(def: &'static ProtoDef, nw: usize, evs: &[Ev]) -> Outcome {
    let mut out = Outcome::default();
    let mut sys = match (def.make)(def, nw) {
        Ok(s) => s,
        Err(e) => {
            out.harness = Some(format!("{}: setup failed: {e}", def.name));
            return out;
        }
    };
    let mut ws: Vec<Waiter> = (0..nw).map(|_| Waiter::new()).collect();
    let mut slept = false;
    // waiters already reported by the close clause: their later probe would restate the same defect
    let mut flagged = vec![false; nw];
    for (ei, e) in evs.iter().enumerate() {
        match *e {
            Ev::P(w) | Ev::S(w) => {
                let w = w as usize;
                let spurious = matches!(e, Ev::S(_));
                if ws[w].asleep_unwoken() {
                    if !spurious {
                        out.skipped_polls += 1;
                        out.trace.push_str(&format!("p{w}:- "));
                        continue;
                    }
                    out.spurious_polls += 1;
                }
                one_step(sys.as_mut(), &mut ws, w, &mut out, if spurious { "s" } else { "p" });
                if ws[w].mode == Mode::Asleep {
                    slept = true;
                }
            }
            Ev::D(w) => {
                let w = w as usize;
                sys.restart(w);
                ws[w].mode = Mode::Fresh;
                out.trace.push_str(&format!("d{w} "));
            }
            Ev::N(o) => {
                let sleepers: Vec<usize> = (0..nw).filter(|&w| ws[w].asleep_unwoken()).collect();
                let counts: Vec<usize> = ws.iter().map(|w| w.count()).collect();
                let name = def.ops[o as usize].name;
                match sys.apply(o as usize) {
                    Applied::Noop => {
                        out.ops_noop += 1;
                        out.trace.push_str(&format!("n:{name}:- "));
                    }
                    Applied::Done => {
                        out.ops_applied += 1;
                        out.trace.push_str(&format!("n:{name} "));
                        if !sleepers.is_empty() {
                            out.nontrivial = true;
                        }
                    }
                    Applied::Closed(mask) => {
                        out.ops_applied += 1;
                        out.trace.push_str(&format!("n:{name}! "));
                        if !sleepers.is_empty() {
                            out.nontrivial = true;
                        }
                        for &w in &sleepers {
                            if mask & (1 << w) == 0 {
                                continue;
                            }
                            out.close_checks += 1;
                            if ws[w].count() == counts[w] {
                                out.violations.push((
                                    "close-no-wake",
                                    format!(
                                        "waiter {w} was asleep with its waker registered when `{name}` closed/failed the object and its waker was not invoked; trace: {}",
                                        out.trace
                                    ),
                                    ei + 1,
                                ));
                                flagged[w] = true;
                            }
                        }
                    }
                }
                for (w, c) in counts.iter().enumerate() {
                    out.wakes += (ws[w].count() - c) as u64;
                }
            }
        }
    }
    let _ = slept;
    // --- quiescence: everything that is runnable runs (bounded rounds) -------------------------------
    for _round in 0..4 {
        let mut progressed = false;
        for w in 0..nw {
            let runnable = ws[w].mode == Mode::Running || (ws[w].mode == Mode::Asleep && ws[w].count() != ws[w].seen);
            if !runnable {
                continue;
            }
            let was_woken = ws[w].mode == Mode::Asleep;
            progressed = true;
            out.settle_steps += 1;
            match run_poll(sys.as_mut(), &mut ws, w, &mut out, "q") {
                Some(true) => {
                    if was_woken {
                        out.woken_then_ready += 1;
                    }
                }
                Some(false) => {
                    if was_woken {
                        out.woken_then_pending += 1;
                    }
                }
                None => {
                    out.harness = Some(format!("{}: waiter {w} did not settle within {STEP_CAP} micro-steps; trace: {}", def.name, out.trace));
                    return out;
                }
            }
        }
        if !progressed {
            break;
        }
    }
    // --- probe-poll ------------------------------------------------------------------------------------
    for w in 0..nw {
        if !ws[w].asleep_unwoken() {
            continue;
        }
        out.probes += 1;
        let model = sys.model_satisfied(w);
        sys.restart(w);
        let trace_before = out.trace.clone();
        match run_poll(sys.as_mut(), &mut ws, w, &mut out, "probe") {
            Some(true) if flagged[w] => {}
            Some(true) => {
                out.violations.push((
                    "lost-wakeup",
                    format!(
                        "waiter {w} was asleep, its waker was never invoked after its last Pending, yet a probe poll returns Ready: the condition was satisfied while nobody was going to wake the task; trace: {}=> {}",
                        trace_before,
                        &out.trace[trace_before.len()..]
                    ),
                    evs.len(),
                ));
            }
            Some(false) => {
                out.probes_pending += 1;
                if model == Some(true) && !flagged[w] {
                    out.violations.push((
                        "lost-notification",
                        format!(
                            "waiter {w} is asleep, its waker was never invoked and its probe poll is Pending although a signal it waits for was raised after it went to sleep: the notification never reached it; trace: {}",
                            out.trace
                        ),
                        evs.len(),
                    ));
                }
            }
            None => {
                out.harness = Some(format!("{}: probe of waiter {w} did not settle; trace: {}", def.name, out.trace));
                return out;
            }
        }
    }
    out
}

fn replay_json(def: &ProtoDef, nw: usize, evs: &[Ev]) -> Value {
    json!({"kind": "c16", "leg": "sched", "proto": def.name, "waiters": nw, "events": evs.iter().map(|e| ev_to_json(def, e)).collect::<Vec<_>>()})
}

fn sig_name(def: &ProtoDef, nw: usize) -> String {
    if nw > 1 { format!("{}.{}w", def.name, nw) } else { def.name.to_string() }
}

/// Run one schedule under the panic recorder and book everything into the report.
fn exec(rep: &mut Report, def: &'static ProtoDef, nw: usize, evs: &[Ev], mode: &str, seen: &mut HashSet<u64>) {
    let r = vcore::panics::catch(|| run_schedule(def, nw, evs));
    rep.evaluations += 1;
    let pname = sig_name(def, nw);
    rep.add(&format!("sched.{pname}"), 1);
    let out = match r {
        Ok(o) => o,
        Err(p) => {
            let loc = vcore::panics::short_location(&p.location);
            rep.violation(
                format!("C16.panic:{pname}:{loc}"),
                format!("library panicked on a legal {mode} schedule of `{pname}`: {} at {loc}", p.message),
                replay_json(def, nw, evs),
            );
            return;
        }
    };
    if let Some(h) = &out.harness {
        rep.inconclusive(h.clone());
        rep.count("harness_trouble");
        return;
    }
    rep.add("polls_pending", out.pending_polls);
    rep.add("polls_ready", out.ready_polls);
    rep.add("polls_skipped_task_asleep", out.skipped_polls);
    rep.add("polls_spurious", out.spurious_polls);
    rep.add("waker_invocations_observed", out.wakes);
    rep.add("notifier_ops_applied", out.ops_applied);
    rep.add("notifier_ops_precondition_false", out.ops_noop);
    rep.add("close_checks", out.close_checks);
    rep.add("probe_polls", out.probes);
    rep.add("probe_polls_pending_condition_unsatisfied", out.probes_pending);
    rep.add("woken_then_ready", out.woken_then_ready);
    rep.add("woken_then_pending_again", out.woken_then_pending);
    let h = vcore::fnv_str(&format!("{pname}|{}", out.trace));
    if seen.insert(h) {
        rep.add(&format!("distinct_traces.{pname}"), 1);
    }
    if out.nontrivial {
        rep.distinct(h);
    }
    // abstract state: protocol + the outcome letters only (no tags)
    let shape: String = out.trace.split(' ').map(|t| t.split('(').next().unwrap_or("")).collect::<Vec<_>>().join(" ");
    rep.set("trace_shapes", vcore::fnv_str(&format!("{pname}|{shape}")));
    for (clause, what, upto) in &out.violations {
        rep.add(&format!("{clause}.{pname}"), 1);
        rep.violation(format!("C16.{clause}:{pname}"), format!("{mode} schedule: {what}"), replay_json(def, nw, &evs[..*upto]));
    }
    if out.violations.is_empty() && out.nontrivial && rep.samples.len() < 4 && rep.evaluations % 997 == 3 {
        rep.sample(json!({"proto": pname, "mode": mode, "trace": out.trace}));
    }
}

/// All sequences over (waiter events ∪ legal notifier ops) with at most `maxp` waiter events and
/// at most `maxn` notifier ops, in order of increasing length; `f(events)`.
fn enumerate(def: &'static ProtoDef, nw: usize, maxp: usize, maxn: usize, f: &mut dyn FnMut(&[Ev])) {
    let mut alphabet_w = vec![];
    for w in 0..nw as u8 {
        alphabet_w.push(Ev::P(w));
        alphabet_w.push(Ev::S(w));
        if def.drop_in_exhaustive {
            alphabet_w.push(Ev::D(w));
        }
    }
    fn rec(
        def: &'static ProtoDef,
        nw: usize,
        aw: &[Ev],
        target: usize,
        maxp: usize,
        maxn: usize,
        cur: &mut Vec<Ev>,
        done: &mut Vec<u8>,
        np: usize,
        f: &mut dyn FnMut(&[Ev]),
    ) {
        if cur.len() == target {
            if nw > 1 {
                // the multi-waiter run only adds schedules in which every waiter polls
                for w in 0..nw as u8 {
                    if !cur.iter().any(|e| matches!(e, Ev::P(x) | Ev::S(x) if *x == w)) {
                        return;
                    }
                }
            }
            f(cur);
            return;
        }
        if np < maxp {
            for e in aw {
                // a drop event is only meaningful after a poll of that waiter
                if let Ev::D(w) = e {
                    if !cur.iter().any(|x| matches!(x, Ev::P(y) | Ev::S(y) if y == w)) {
                        continue;
                    }
                }
                cur.push(*e);
                rec(def, nw, aw, target, maxp, maxn, cur, done, np + 1, f);
                cur.pop();
            }
        }
        if done.len() < maxn {
            for o in 0..def.ops.len() as u8 {
                if !(def.legal)(done, o) {
                    continue;
                }
                cur.push(Ev::N(o));
                done.push(o);
                rec(def, nw, aw, target, maxp, maxn, cur, done, np, f);
                done.pop();
                cur.pop();
            }
        }
    }
    for target in 1..=(maxp + maxn) {
        rec(def, nw, &alphabet_w, target, maxp, maxn, &mut vec![], &mut vec![], 0, f);
    }
}

fn gen_random(def: &'static ProtoDef, nw: usize, rng: &mut Rng) -> Vec<Ev> {
    let len = rng.range(5, 16) as usize;
    let mut evs = vec![];
    let mut done: Vec<u8> = vec![];
    let notifier_weight = rng.range(2, 6);
    for _ in 0..len {
        if rng.below(10) < notifier_weight {
            let legal: Vec<u8> = (0..def.ops.len() as u8).filter(|&o| (def.legal)(&done, o)).collect();
            if !legal.is_empty() {
                let o = *rng.pick(&legal);
                done.push(o);
                evs.push(Ev::N(o));
                continue;
            }
        }
        let w = rng.below(nw as u64) as u8;
        evs.push(match rng.below(12) {
            0 | 1 => Ev::S(w),
            2 => Ev::D(w),
            _ => Ev::P(w),
        });
    }
    evs
}

fn find_def(name: &str) -> Option<&'static ProtoDef> {
    all_protocols().into_iter().find(|d| d.name == name)
}

pub fn run(args: &Args, rep: &mut Report) {
    rep.rule = "schedule = sequence of waiter polls (normal / spurious / drop) and legal notifier operations on one fresh \
                instance of a waiter/notifier protocol; distinct = distinct executed traces (protocol, every poll result, \
                every op); non-trivial = some waiter was asleep (last poll Pending, waker not invoked) when a notifier \
                operation was applied"
        .into();
    if let Some(path) = args.get("replay") {
        let v: Value = serde_json::from_str(&std::fs::read_to_string(path).unwrap()).unwrap();
        let v = if v.get("replay").is_some() { v["replay"].clone() } else { v };
        if v["leg"].as_str() == Some("threads") {
            th::replay(&v, rep);
            return;
        }
        let Some(def) = v["proto"].as_str().and_then(find_def) else {
            rep.inconclusive(format!("replay names unknown protocol {:?}", v["proto"]));
            return;
        };
        let nw = v["waiters"].as_u64().unwrap_or(1) as usize;
        let evs: Option<Vec<Ev>> = v["events"].as_array().map(|a| a.iter().map(|e| ev_from_json(def, e)).collect()).unwrap_or(None);
        let Some(evs) = evs else {
            rep.inconclusive("replay has an unknown event (op renamed?)");
            return;
        };
        exec(rep, def, nw, &evs, "replayed", &mut HashSet::new());
        return;
    }
    let thorough = args.get("tier") == Some("thorough");
    let shard = args.u64("shard", 0);
    let shards = args.u64("shards", 1).max(1);
    if args.get("leg") == Some("threads") {
        th::run(args, rep, thorough, shard);
        return;
    }
    let only = args.get("proto");
    let protos: Vec<&'static ProtoDef> = all_protocols().into_iter().filter(|d| only.is_none_or(|o| d.name.starts_with(o))).collect();
    rep.max("max_protocols", protos.len() as u64);
    let mut seen = HashSet::new();
    // ---- exhaustive: all merges of <= 3 waiter events with <= 3 legal notifier ops -----------------------
    let mut idx: u64 = 0;
    for def in &protos {
        for nw in 1..=def.max_waiters {
            // the second waiter multiplies the alphabet; quick tier bounds 2-waiter schedules to 3+2
            let (maxp, maxn) = if nw == 1 || thorough { (3, 3) } else { (3, 2) };
            let mut list: Vec<Vec<Ev>> = vec![];
            enumerate(def, nw, maxp, maxn, &mut |evs| {
                if idx % shards == shard {
                    list.push(evs.to_vec());
                }
                idx += 1;
            });
            for evs in &list {
                exec(rep, def, nw, evs, "exhaustive", &mut seen);
            }
            rep.add("exhaustive_schedules", list.len() as u64);
        }
    }
    rep.exhaustive = Some(true);
    rep.add("max_exhaustive_waiter_events", 3);
    rep.add("max_exhaustive_notifier_ops", 3);
    // ---- random longer schedules (every prefix that ends in a notifier op is checked too) -----------------
    let n = args.budget(if thorough { 3000 } else { 300 });
    let mut rng = Rng::new(args.seed() ^ 0xc16).fork(shard);
    for def in &protos {
        for nw in 1..=def.max_waiters {
            let mut prng = rng.fork(vcore::fnv_str(def.name) ^ nw as u64);
            for _ in 0..n {
                let evs = gen_random(def, nw, &mut prng);
                exec(rep, def, nw, &evs, "random", &mut seen);
                rep.count("random_schedules");
                for cut in 1..evs.len() {
                    if matches!(evs[cut - 1], Ev::N(_)) {
                        exec(rep, def, nw, &evs[..cut], "random-prefix", &mut seen);
                        rep.count("random_prefix_schedules");
                    }
                }
            }
        }
    }
}
