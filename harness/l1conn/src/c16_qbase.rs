//! C16 protocols that live in qbase (and the qconnection anti-amplifier): SendWaker/ArcSendWakers,
//! ArcAsyncDeque, ArcReceiving, ArcKeys/ArcZeroRttKeys/ArcOneRttKeys, ArcParameters,
//! ArcLocalStreamIds, ArcCidCell, AntiAmplifier.
use std::{
    future::Future,
    net::SocketAddr,
    pin::Pin,
    sync::{Arc, Mutex, OnceLock},
    task::{Context, Poll},
};

use qbase::{
    cid::{ArcCidCell, ArcRemoteCids, ConnectionId},
    error::{Error, ErrorKind, QuicError},
    frame::{MaxStreamsFrame, NewConnectionIdFrame, io::{ReceiveFrame, SendFrame}},
    net::{
        route::Pathway,
        tx::{ArcSendWaker, ArcSendWakers, Signals},
    },
    packet::keys::{ArcKeys, ArcOneRttKeys, ArcZeroRttKeys},
    param::{ArcParameters, ClientParameters, ParameterId, Parameters, ServerParameters},
    role::Role,
    sid::{ArcLocalStreamIds, Dir},
    util::ArcAsyncDeque,
    varint::VarInt,
    ArcReceiving,
};
use qconnection::path::AntiAmplifier;

use super::{Applied, OpDef, Polled, ProtoDef, Sys, any_order, op};

/// frame sink for every `SendFrame` bound
#[derive(Clone, Default, Debug)]
pub struct Sink(pub Arc<Mutex<u64>>);

impl<F> SendFrame<F> for Sink {
    fn send_frame<I: IntoIterator<Item = F>>(&self, iter: I) {
        *self.0.lock().unwrap() += iter.into_iter().count() as u64;
    }
}

pub fn conn_error() -> Error {
    Error::Quic(QuicError::with_default_fty(ErrorKind::Internal, "c16 connection error"))
}

pub fn pathway(n: u16) -> Pathway {
    let a: SocketAddr = format!("10.0.0.1:{}", 1000 + n).parse().unwrap();
    let b: SocketAddr = format!("10.0.0.2:{}", 2000 + n).parse().unwrap();
    Pathway::new(a.into(), b.into())
}

/// poll a future once and drop it (all futures here are stateless views of shared state)
pub fn poll_once<F: Future>(fut: F, cx: &mut Context<'_>) -> Poll<F::Output> {
    let mut fut = std::pin::pin!(fut);
    fut.as_mut().poll(cx)
}

fn pol<T>(p: Poll<T>, tag: impl FnOnce(T) -> String) -> Polled {
    match p {
        Poll::Pending => Polled::Pending,
        Poll::Ready(v) => Polled::Ready(tag(v)),
    }
}

// ------------------------------------------------------------------------------------------------
// SendWaker / ArcSendWakers
// ------------------------------------------------------------------------------------------------

/// signal sets a waiter waits for, one after the other (each completed wait moves on)
const WAIT_SETS: [[Signals; 3]; 3] = [
    [Signals::TRANSPORT, Signals::TRANSPORT, Signals::TRANSPORT],
    [
        Signals::CONGESTION.union(Signals::FLOW_CONTROL),
        Signals::TRANSPORT,
        Signals::CONGESTION.union(Signals::TRANSPORT),
    ],
    [Signals::all(), Signals::CONGESTION.union(Signals::TRANSPORT), Signals::TRANSPORT],
];

struct SendWakerSys {
    wakers: ArcSendWakers,
    per_path: Vec<ArcSendWaker>,
    /// index into the waiter's wait-set list
    stage: Vec<usize>,
    /// model: signals raised for waiter w since its last Pending poll
    raised: Vec<Signals>,
    variant: usize,
    def: &'static ProtoDef,
}

static SENDWAKER_OPS: [OpDef; 5] = [
    op("all:TRANSPORT"),
    op("all:CONGESTION"),
    op("w0:FLOW_CONTROL"),
    op("all:WRITTEN|PING"),
    op("all:CONGESTION|TRANSPORT"),
];

fn make_sendwaker(def: &'static ProtoDef, nw: usize) -> Result<Box<dyn Sys>, String> {
    let wakers = ArcSendWakers::new();
    let per_path: Vec<ArcSendWaker> = (0..nw).map(|_| ArcSendWaker::new()).collect();
    for (i, w) in per_path.iter().enumerate() {
        wakers.insert(pathway(i as u16), w);
    }
    Ok(Box::new(SendWakerSys { wakers, per_path, stage: vec![0; nw], raised: vec![Signals::empty(); nw], variant: def.variant as usize, def }))
}

impl Sys for SendWakerSys {
    fn step(&mut self, w: usize, cx: &mut Context<'_>) -> Polled {
        let sig = WAIT_SETS[self.variant][self.stage[w] % 3];
        match poll_once(self.per_path[w].wait_for(sig), cx) {
            Poll::Pending => {
                self.raised[w] = Signals::empty();
                Polled::Pending
            }
            Poll::Ready(()) => {
                self.stage[w] += 1;
                self.raised[w] = Signals::empty();
                Polled::Ready(format!("{:x}", sig.bits()))
            }
        }
    }
    fn apply(&mut self, op: usize) -> Applied {
        let (all, sig) = match self.def.ops[op].name {
            "all:TRANSPORT" => (true, Signals::TRANSPORT),
            "all:CONGESTION" => (true, Signals::CONGESTION),
            "w0:FLOW_CONTROL" => (false, Signals::FLOW_CONTROL),
            "all:WRITTEN|PING" => (true, Signals::WRITTEN | Signals::PING),
            "all:CONGESTION|TRANSPORT" => (true, Signals::CONGESTION | Signals::TRANSPORT),
            _ => unreachable!(),
        };
        if all {
            self.wakers.wake_all_by(sig);
            for r in &mut self.raised {
                *r |= sig;
            }
        } else {
            self.per_path[0].wake_by(sig);
            self.raised[0] |= sig;
        }
        Applied::Done
    }
    fn model_satisfied(&self, w: usize) -> Option<bool> {
        Some(self.raised[w].intersects(WAIT_SETS[self.variant][self.stage[w] % 3]))
    }
}

// ------------------------------------------------------------------------------------------------
// ArcAsyncDeque
// ------------------------------------------------------------------------------------------------

struct DequeSys {
    q: ArcAsyncDeque<u32>,
    next: u32,
    def: &'static ProtoDef,
}

static DEQUE_OPS: [OpDef; 5] = [op("push_back"), op("push_front"), op("extend2"), op("extend0"), op("close")];

fn make_deque(def: &'static ProtoDef, _nw: usize) -> Result<Box<dyn Sys>, String> {
    Ok(Box::new(DequeSys { q: ArcAsyncDeque::new(), next: 0, def }))
}

impl Sys for DequeSys {
    fn step(&mut self, _w: usize, cx: &mut Context<'_>) -> Polled {
        pol(self.q.poll_pop(cx), |v| format!("{v:?}"))
    }
    fn apply(&mut self, op: usize) -> Applied {
        self.next += 1;
        match self.def.ops[op].name {
            "push_back" => self.q.push_back(self.next),
            "push_front" => self.q.push_front(self.next),
            "extend2" => (&self.q).extend([self.next, self.next + 100]),
            "extend0" => (&self.q).extend(std::iter::empty()),
            "close" => {
                self.q.close();
                return Applied::Closed(0xff);
            }
            _ => unreachable!(),
        }
        Applied::Done
    }
}

// ------------------------------------------------------------------------------------------------
// ArcReceiving
// ------------------------------------------------------------------------------------------------

struct ReceivingSys {
    r: ArcReceiving<u32>,
    next: u32,
    def: &'static ProtoDef,
}

static RECEIVING_OPS: [OpDef; 2] = [op("recv_frame"), op("reset")];

fn make_receiving(def: &'static ProtoDef, _nw: usize) -> Result<Box<dyn Sys>, String> {
    Ok(Box::new(ReceivingSys { r: ArcReceiving::default(), next: 0, def }))
}

impl Sys for ReceivingSys {
    fn step(&mut self, _w: usize, cx: &mut Context<'_>) -> Polled {
        pol(Pin::new(&mut self.r).poll(cx), |v| match v {
            Ok(Some(x)) => format!("frame{x}"),
            Ok(None) => "read".into(),
            Err(_) => "reset".into(),
        })
    }
    fn apply(&mut self, op: usize) -> Applied {
        match self.def.ops[op].name {
            "recv_frame" => {
                self.next += 1;
                let _ = self.r.recv_frame(self.next);
                Applied::Done
            }
            "reset" => {
                self.r.reset();
                Applied::Closed(0xff)
            }
            _ => unreachable!(),
        }
    }
}

// ------------------------------------------------------------------------------------------------
// keys
// ------------------------------------------------------------------------------------------------

static KEY_OPS: [OpDef; 2] = [op("set_keys"), op("invalid")];

/// `set` at most once and never after `invalid` (the type answers that with unreachable!/panic by
/// design); `invalid` at most once (ArcOneRttKeys::invalid twice is unreachable! by design).
fn keys_legal(done: &[u8], next: u8) -> bool {
    match next {
        0 => done.is_empty(),
        _ => !done.contains(&1),
    }
}

fn initial_keys(side: rustls::Side) -> Result<rustls::quic::Keys, String> {
    let provider = rustls::crypto::ring::default_provider();
    let suite = provider
        .cipher_suites
        .iter()
        .find_map(|cs| match (cs.suite(), cs.tls13()) {
            (rustls::CipherSuite::TLS13_AES_128_GCM_SHA256, Some(s)) => Some(s.quic_suite()),
            _ => None,
        })
        .flatten()
        .ok_or("no TLS13_AES_128_GCM_SHA256 quic suite")?;
    Ok(suite.keys(b"c16-odcid", side, rustls::quic::Version::V1))
}

/// 1-RTT `Secrets` can only be produced by a TLS handshake: run one in memory, once per process.
fn one_rtt_secrets() -> Result<rustls::quic::Secrets, String> {
    static S: OnceLock<Result<rustls::quic::Secrets, String>> = OnceLock::new();
    S.get_or_init(|| {
        use rustls::pki_types::{CertificateDer, PrivateKeyDer, pem::PemObject};
        use rustls::quic::{ClientConnection, KeyChange, ServerConnection, Version};
        let dir = "/repo/tests/keychain/localhost";
        let rd = |f: &str| std::fs::read(format!("{dir}/{f}")).map_err(|e| format!("{f}: {e}"));
        let provider = Arc::new(rustls::crypto::ring::default_provider());
        let mut roots = rustls::RootCertStore::empty();
        roots.add_parsable_certificates(CertificateDer::pem_slice_iter(&rd("ca.cert")?).filter_map(Result::ok));
        let ccfg = rustls::ClientConfig::builder_with_provider(provider.clone())
            .with_protocol_versions(&[&rustls::version::TLS13])
            .map_err(|e| e.to_string())?
            .with_root_certificates(roots)
            .with_no_client_auth();
        let certs: Vec<CertificateDer<'static>> = CertificateDer::pem_slice_iter(&rd("server.cert")?).filter_map(Result::ok).collect();
        let key = PrivateKeyDer::from_pem_slice(&rd("server.key")?).map_err(|e| format!("{e:?}"))?;
        let scfg = rustls::ServerConfig::builder_with_provider(provider)
            .with_protocol_versions(&[&rustls::version::TLS13])
            .map_err(|e| e.to_string())?
            .with_no_client_auth()
            .with_single_cert(certs, key)
            .map_err(|e| e.to_string())?;
        let name = rustls::pki_types::ServerName::try_from("localhost").unwrap();
        let mut c = ClientConnection::new(Arc::new(ccfg), Version::V1, name, vec![0x01, 0x02, 0x40, 0x64]).map_err(|e| e.to_string())?;
        let mut s = ServerConnection::new(Arc::new(scfg), Version::V1, vec![0x01, 0x02, 0x40, 0x64]).map_err(|e| e.to_string())?;
        let mut secrets = None;
        for _ in 0..12 {
            let mut progressed = false;
            loop {
                let mut buf = vec![];
                let kc = c.write_hs(&mut buf);
                if let Some(KeyChange::OneRtt { next, .. }) = &kc {
                    secrets = Some(next.clone());
                }
                if !buf.is_empty() {
                    s.read_hs(&buf).map_err(|e| format!("server read_hs: {e}"))?;
                    progressed = true;
                }
                if kc.is_none() && buf.is_empty() {
                    break;
                }
            }
            loop {
                let mut buf = vec![];
                let kc = s.write_hs(&mut buf);
                if !buf.is_empty() {
                    c.read_hs(&buf).map_err(|e| format!("client read_hs: {e}"))?;
                    progressed = true;
                }
                if kc.is_none() && buf.is_empty() {
                    break;
                }
            }
            if secrets.is_some() || !progressed {
                break;
            }
        }
        secrets.ok_or_else(|| "in-memory TLS handshake did not yield 1-RTT secrets".to_string())
    })
    .clone()
}

enum KeysKind {
    Long(ArcKeys),
    Zero(ArcZeroRttKeys),
    One(ArcOneRttKeys),
}

struct KeysSys {
    k: KeysKind,
    def: &'static ProtoDef,
}

fn make_keys(def: &'static ProtoDef, _nw: usize) -> Result<Box<dyn Sys>, String> {
    let k = match def.variant {
        0 => KeysKind::Long(ArcKeys::new_pending()),
        1 => KeysKind::Zero(ArcZeroRttKeys::new_pending(Role::Server)),
        _ => {
            one_rtt_secrets()?;
            KeysKind::One(ArcOneRttKeys::new_pending())
        }
    };
    Ok(Box::new(KeysSys { k, def }))
}

impl Sys for KeysSys {
    fn step(&mut self, _w: usize, cx: &mut Context<'_>) -> Polled {
        let tag = |some: bool| if some { "keys".to_string() } else { "none".to_string() };
        match &self.k {
            KeysKind::Long(k) => pol(poll_once(k.get_remote_keys(), cx), |v| tag(v.is_some())),
            KeysKind::Zero(k) => pol(poll_once(k.get_decrypt_keys().expect("server role"), cx), |v| tag(v.is_some())),
            KeysKind::One(k) => pol(poll_once(k.get_remote_keys(), cx), |v| tag(v.is_some())),
        }
    }
    fn apply(&mut self, op: usize) -> Applied {
        match (self.def.ops[op].name, &self.k) {
            ("set_keys", KeysKind::Long(k)) => k.set_keys(initial_keys(rustls::Side::Client).unwrap().into()),
            ("set_keys", KeysKind::Zero(k)) => k.set_keys(initial_keys(rustls::Side::Server).unwrap().remote.into()),
            ("set_keys", KeysKind::One(k)) => k.set_keys(initial_keys(rustls::Side::Client).unwrap(), one_rtt_secrets().unwrap()),
            ("invalid", KeysKind::Long(k)) => {
                k.invalid();
                return Applied::Closed(0xff);
            }
            ("invalid", KeysKind::Zero(k)) => {
                k.invalid();
                return Applied::Closed(0xff);
            }
            ("invalid", KeysKind::One(k)) => {
                k.invalid();
                return Applied::Closed(0xff);
            }
            _ => unreachable!(),
        }
        Applied::Done
    }
}

// ------------------------------------------------------------------------------------------------
// ArcParameters
// ------------------------------------------------------------------------------------------------

pub fn cid(s: &[u8]) -> ConnectionId {
    ConnectionId::from_slice(s)
}

pub fn client_params() -> ClientParameters {
    let mut p = qbase::param::handy::client_parameters();
    p.set(ParameterId::InitialSourceConnectionId, cid(b"c16-client")).unwrap();
    p
}

/// what the (simulated) server announces: one stream per direction, 10-byte stream windows
pub fn server_params() -> ServerParameters {
    let mut p = ServerParameters::default();
    for (id, v) in [
        (ParameterId::InitialMaxStreamsBidi, 1u32),
        (ParameterId::InitialMaxStreamsUni, 1u32),
        (ParameterId::InitialMaxData, 1u32 << 20),
        (ParameterId::InitialMaxStreamDataBidiLocal, 10u32),
        (ParameterId::InitialMaxStreamDataBidiRemote, 10u32),
        (ParameterId::InitialMaxStreamDataUni, 10u32),
        (ParameterId::ActiveConnectionIdLimit, 8u32),
    ] {
        p.set(id, v).unwrap();
    }
    p.set(ParameterId::InitialSourceConnectionId, cid(b"c16-server")).unwrap();
    p.set(ParameterId::OriginalDestinationConnectionId, cid(b"c16-odcid")).unwrap();
    p
}

pub fn new_client_arc_params() -> ArcParameters {
    ArcParameters::from(Parameters::new_client(client_params(), None, cid(b"c16-odcid")))
}

struct ParamsSys {
    p: ArcParameters,
    server: bool,
    def: &'static ProtoDef,
}

static PARAM_OPS: [OpDef; 4] = [op("recv_remote_params"), op("initial_scid"), op("initial_scid_mismatch"), op("on_conn_error")];

/// remote parameters arrive once, the peer's initial scid is learnt once (either order; both assert
/// against a second call)
fn params_legal(done: &[u8], next: u8) -> bool {
    match next {
        0 => !done.contains(&0),
        1 | 2 => !done.contains(&1) && !done.contains(&2),
        _ => true,
    }
}

fn make_params(def: &'static ProtoDef, _nw: usize) -> Result<Box<dyn Sys>, String> {
    let server = def.variant == 1;
    let p = if server {
        let mut sp = qbase::param::handy::server_parameters();
        sp.set(ParameterId::InitialSourceConnectionId, cid(b"c16-server")).unwrap();
        sp.set(ParameterId::OriginalDestinationConnectionId, cid(b"c16-odcid")).unwrap();
        ArcParameters::from(Parameters::new_server(sp))
    } else {
        new_client_arc_params()
    };
    Ok(Box::new(ParamsSys { p, server, def }))
}

impl Sys for ParamsSys {
    fn step(&mut self, _w: usize, cx: &mut Context<'_>) -> Polled {
        pol(poll_once(self.p.remote_ready(), cx), |r| if r.is_ok() { "ready".into() } else { "error".into() })
    }
    fn apply(&mut self, op: usize) -> Applied {
        let name = self.def.ops[op].name;
        if name == "on_conn_error" {
            self.p.on_conn_error(&conn_error());
            return Applied::Closed(0xff);
        }
        // production takes the guard first and gives up if the parameters already failed
        let r = {
            let Ok(mut g) = self.p.lock_guard() else {
                return Applied::Noop;
            };
            match name {
                "recv_remote_params" => {
                    if self.server {
                        g.recv_remote_params(client_params())
                    } else {
                        g.recv_remote_params(server_params())
                    }
                }
                "initial_scid" => g.initial_scid_from_peer_need_equal(if self.server { cid(b"c16-client") } else { cid(b"c16-server") }),
                "initial_scid_mismatch" => g.initial_scid_from_peer_need_equal(cid(b"c16-wrong")),
                _ => unreachable!(),
            }
        };
        match r {
            Ok(()) => Applied::Done,
            Err(e) => {
                // a transport parameter error closes the connection
                self.p.on_conn_error(&Error::Quic(e));
                Applied::Closed(0xff)
            }
        }
    }
}

// ------------------------------------------------------------------------------------------------
// ArcLocalStreamIds (no close operation exists on this type; see open_bi in c16_streams.rs)
// ------------------------------------------------------------------------------------------------

struct LocalSidSys {
    ids: ArcLocalStreamIds<Sink>,
    max: [u64; 2],
    def: &'static ProtoDef,
}

static LOCALSID_OPS: [OpDef; 4] = [op("max_streams_bi+1"), op("max_streams_bi+2"), op("max_streams_uni+1"), op("max_streams_bi_same")];

fn make_localsid(def: &'static ProtoDef, _nw: usize) -> Result<Box<dyn Sys>, String> {
    let ids = ArcLocalStreamIds::new(Role::Client, 1, 0, Sink::default(), ArcSendWakers::new());
    Ok(Box::new(LocalSidSys { ids, max: [1, 0], def }))
}

impl Sys for LocalSidSys {
    fn step(&mut self, w: usize, cx: &mut Context<'_>) -> Polled {
        // variant 0: both waiters want bidirectional ids; variant 1: waiter 1 wants a unidirectional id
        let dir = if self.def.variant == 1 && w == 1 { Dir::Uni } else { Dir::Bi };
        pol(self.ids.poll_alloc_sid(cx, dir), |s| format!("{:?}", s.map(|s| s.id())))
    }
    fn apply(&mut self, op: usize) -> Applied {
        let (dir, i, inc) = match self.def.ops[op].name {
            "max_streams_bi+1" => (Dir::Bi, 0, 1),
            "max_streams_bi+2" => (Dir::Bi, 0, 2),
            "max_streams_uni+1" => (Dir::Uni, 1, 1),
            "max_streams_bi_same" => (Dir::Bi, 0, 0),
            _ => unreachable!(),
        };
        self.max[i] += inc;
        self.ids.recv_max_streams_frame(MaxStreamsFrame::with(dir, VarInt::from_u64(self.max[i]).unwrap()));
        Applied::Done
    }
}

// ------------------------------------------------------------------------------------------------
// ArcCidCell::borrow_cid + SendWaker(CONNECTION_ID): check-and-register, then wait
// ------------------------------------------------------------------------------------------------

struct CidSys {
    cids: ArcRemoteCids<Sink>,
    cells: Vec<ArcCidCell<Sink>>,
    wakers: Vec<ArcSendWaker>,
    /// Some(signals) = the waiter is in `tx_waker.wait_for(signals)`
    waiting: Vec<Option<Signals>>,
    next_seq: u64,
    initial_done: bool,
    def: &'static ProtoDef,
}

static CID_OPS: [OpDef; 4] = [op("initial_dcid"), op("new_cid"), op("new_cid_retire_prior"), op("retire_cell0")];

/// the initial DCID is applied exactly once and before any NEW_CONNECTION_ID frame is processed
/// (`apply_initial_dcid` asserts it)
fn cid_legal(done: &[u8], next: u8) -> bool {
    match next {
        0 => done.iter().all(|&o| o == 3),
        1 | 2 => done.contains(&0),
        _ => !done.contains(&3),
    }
}

fn make_cid(def: &'static ProtoDef, nw: usize) -> Result<Box<dyn Sys>, String> {
    let cids = ArcRemoteCids::new(8, Sink::default());
    let cells = (0..nw).map(|_| cids.apply_dcid()).collect();
    Ok(Box::new(CidSys {
        cids,
        cells,
        wakers: (0..nw).map(|_| ArcSendWaker::new()).collect(),
        waiting: vec![None; nw],
        next_seq: 1,
        initial_done: false,
        def,
    }))
}

impl Sys for CidSys {
    fn step(&mut self, w: usize, cx: &mut Context<'_>) -> Polled {
        match self.waiting[w] {
            None => match self.cells[w].borrow_cid(self.wakers[w].clone()) {
                Ok(Some(c)) => {
                    let tag = format!("cid{}", c.len());
                    drop(c);
                    Polled::Ready(tag)
                }
                Ok(None) => Polled::Ready("retired".into()),
                Err(sig) => {
                    self.waiting[w] = Some(sig);
                    Polled::Continue
                }
            },
            Some(sig) => match poll_once(self.wakers[w].wait_for(sig), cx) {
                Poll::Pending => Polled::Pending,
                Poll::Ready(()) => {
                    self.waiting[w] = None;
                    Polled::Continue
                }
            },
        }
    }
    fn restart(&mut self, w: usize) {
        self.waiting[w] = None;
    }
    fn apply(&mut self, op: usize) -> Applied {
        match self.def.ops[op].name {
            "initial_dcid" => {
                self.cids.apply_initial_dcid(cid(b"c16-dcid0"), &self.cells[0]);
                self.initial_done = true;
                Applied::Done
            }
            n @ ("new_cid" | "new_cid_retire_prior") => {
                let seq = self.next_seq;
                self.next_seq += 1;
                let rpt = if n == "new_cid" { 0 } else { seq };
                let f = NewConnectionIdFrame::new(cid(format!("c16-dcid{seq}").as_bytes()), VarInt::from_u64(seq).unwrap(), VarInt::from_u64(rpt).unwrap());
                match self.cids.recv_frame(f) {
                    Ok(_) => Applied::Done,
                    Err(_) => Applied::Noop,
                }
            }
            "retire_cell0" => {
                self.cells[0].retire();
                Applied::Closed(1)
            }
            _ => unreachable!(),
        }
    }
}

// ------------------------------------------------------------------------------------------------
// AntiAmplifier::balance + SendWaker(CREDIT): lock-free check, then wait
// ------------------------------------------------------------------------------------------------

struct AaSys {
    aa: AntiAmplifier,
    waker: ArcSendWaker,
    waiting: Option<Signals>,
    def: &'static ProtoDef,
}

static AA_OPS: [OpDef; 4] = [op("on_rcvd(10)"), op("on_rcvd(1)"), op("grant"), op("abort")];

fn make_aa(def: &'static ProtoDef, _nw: usize) -> Result<Box<dyn Sys>, String> {
    let waker = ArcSendWaker::new();
    Ok(Box::new(AaSys { aa: AntiAmplifier::new(waker.clone()), waker, waiting: None, def }))
}

impl Sys for AaSys {
    fn step(&mut self, _w: usize, cx: &mut Context<'_>) -> Polled {
        match self.waiting {
            None => match self.aa.balance() {
                Ok(Some(credit)) => {
                    if credit != usize::MAX {
                        // the sender uses the whole credit, so the next send has to wait again
                        self.aa.on_sent(credit);
                        Polled::Ready(format!("credit{credit}"))
                    } else {
                        Polled::Ready("granted".into())
                    }
                }
                Ok(None) => Polled::Ready("aborted".into()),
                Err(sig) => {
                    self.waiting = Some(sig);
                    Polled::Continue
                }
            },
            Some(sig) => match poll_once(self.waker.wait_for(sig), cx) {
                Poll::Pending => Polled::Pending,
                Poll::Ready(()) => {
                    self.waiting = None;
                    Polled::Continue
                }
            },
        }
    }
    fn restart(&mut self, _w: usize) {
        self.waiting = None;
    }
    fn apply(&mut self, op: usize) -> Applied {
        match self.def.ops[op].name {
            "on_rcvd(10)" => self.aa.on_rcvd(10),
            "on_rcvd(1)" => self.aa.on_rcvd(1),
            "grant" => {
                self.aa.grant();
                return Applied::Closed(0xff);
            }
            "abort" => {
                self.aa.abort();
                return Applied::Closed(0xff);
            }
            _ => unreachable!(),
        }
        Applied::Done
    }
}

/// grant/abort happen at most once in total (validation result / path deactivation)
fn aa_legal(done: &[u8], next: u8) -> bool {
    match next {
        2 | 3 => !done.contains(&2) && !done.contains(&3),
        _ => true,
    }
}

macro_rules! def {
    ($name:expr, $w:expr, $ops:expr, $legal:expr, $make:expr, $variant:expr) => {
        ProtoDef { name: $name, max_waiters: $w, ops: &$ops, legal: $legal, make: $make, drop_in_exhaustive: false, variant: $variant }
    };
}

pub static PROTOS: [ProtoDef; 14] = [
    def!("sendwaker.one", 2, SENDWAKER_OPS, any_order, make_sendwaker, 0),
    def!("sendwaker.multi", 1, SENDWAKER_OPS, any_order, make_sendwaker, 1),
    def!("sendwaker.all", 1, SENDWAKER_OPS, any_order, make_sendwaker, 2),
    ProtoDef { name: "asyncdeque", max_waiters: 1, ops: &DEQUE_OPS, legal: any_order, make: make_deque, drop_in_exhaustive: true, variant: 0 },
    def!("receiving", 1, RECEIVING_OPS, any_order, make_receiving, 0),
    def!("keys.long", 1, KEY_OPS, keys_legal, make_keys, 0),
    def!("keys.zero_rtt", 1, KEY_OPS, keys_legal, make_keys, 1),
    def!("keys.one_rtt", 1, KEY_OPS, keys_legal, make_keys, 2),
    def!("params.client", 2, PARAM_OPS, params_legal, make_params, 0),
    def!("params.server", 1, PARAM_OPS, params_legal, make_params, 1),
    def!("localsid.bi_bi", 2, LOCALSID_OPS, any_order, make_localsid, 0),
    def!("localsid.bi_uni", 2, LOCALSID_OPS, any_order, make_localsid, 1),
    def!("cidcell.borrow", 2, CID_OPS, cid_legal, make_cid, 0),
    def!("aa.balance_wait", 1, AA_OPS, aa_legal, make_aa, 0),
];
