//! C06 — packet protection round-trips and rejects any modified packet.
//!
//! Every case performs a real in-memory rustls QUIC handshake (pktkeys.rs), builds packets with the
//! real `PacketWriter::{new_long,new_short}` (base writer or the qevent wrapper) +
//! `encrypt_and_protect_packet`, and recovers them through the real receive path
//! `PacketReader` -> `CipherPacket::decrypt_{long,short}_packet` (+ `OneRttPacketKeys::get_remote`).
//!
//! Oracles (all derived from RFC 9000 §17 / RFC 9001 §5, not from the code):
//!  * roundtrip: type, DCID, SCID, token, spin bit, decoded pn, body bytes and total size equal what was assembled;
//!  * wire: an independent opener (rustls keys used directly) removes header protection and opens the AEAD of
//!    the built packet: reserved bits 0, pn length / truncated pn / key phase as assembled, body equal;
//!  * flip: every single-bit modification (all bits below 400 bytes, else all header+pn+sample+tag bits and
//!    256 random payload bits) must never yield `Some(Ok(_))` from any packet of the datagram;
//!  * wrong-pn: same packet, pn context that reconstructs another number => never Ok;
//!  * wrong-key: other direction's keys, another connection's keys, next-generation keys with the current
//!    phase bit => never Ok;
//!  * keyupdate: both phases round-trip across `update()`, reordered old-phase packets are still recovered
//!    before `phase_out`, rejected after it.
use std::sync::Arc;

use bytes::{BufMut, Bytes, BytesMut};
use qbase::{
    cid::ConnectionId,
    frame::{CryptoFrame, PingFrame, StreamFrame},
    packet::{
        AssemblePacket, DataHeader, GetDcid, GetScid, Packet, PacketNumber, PacketReader, PacketWriter,
        header::{LongHeaderBuilder, OneRttHeader, long},
        io::{Packages, PadTo20},
        keys::{ArcOneRttPacketKeys, DirectionalKeys},
        number::InvalidPacketNumber,
        signal::{KeyPhaseBit, SpinBit},
    },
    varint::VarInt,
};
use qinterface::component::route::CipherPacket;
use qrecovery::journal::ArcRcvdJournal;
use rustls::quic::HeaderProtectionKey;
use serde_json::{Value, json};
use vcore::{Args, Report, Rng};

use crate::pktkeys::{self, Handshaken};

#[derive(Clone, Copy, Debug, PartialEq, Eq)]
pub enum PType {
    Initial,
    ZeroRtt,
    Handshake,
    OneRtt,
}

impl PType {
    pub fn name(self) -> &'static str {
        match self {
            PType::Initial => "initial",
            PType::ZeroRtt => "0rtt",
            PType::Handshake => "handshake",
            PType::OneRtt => "1rtt",
        }
    }
    fn is_long(self) -> bool {
        self != PType::OneRtt
    }
}

/// What one packet looks like before protection.
#[derive(Clone, Debug)]
pub struct Spec {
    pub ptype: PType,
    pub dcid: Vec<u8>,
    pub scid: Vec<u8>,
    pub token: Vec<u8>,
    pub spin: bool,
    pub pn: u64,
    pub width: usize,
    /// receiver's next expected pn (largest received + 1)
    pub expected: u64,
    /// exact encoding used (None: PacketNumber::encode(pn, acked))
    pub acked: Option<u64>,
    pub body: Vec<u8>,
    pub slack: usize,
    /// 0 = base writer + raw bytes, 1 = qevent wrapper + real frames + PadTo20
    pub mode: u8,
}

pub fn encode_width(pn: u64, width: usize) -> PacketNumber {
    match width {
        1 => PacketNumber::U8(pn as u8),
        2 => PacketNumber::U16(pn as u16),
        3 => PacketNumber::U24((pn & 0xff_ffff) as u32),
        _ => PacketNumber::U32(pn as u32),
    }
}

pub fn payload_offset(ptype: PType, dcid: usize, scid: usize, token: usize) -> usize {
    fn varint_len(v: usize) -> usize {
        match v {
            0..=63 => 1,
            64..=16383 => 2,
            16384..=1_073_741_823 => 4,
            _ => 8,
        }
    }
    match ptype {
        PType::OneRtt => 1 + dcid,
        PType::Initial => 1 + 4 + 1 + dcid + 1 + scid + varint_len(token) + token + 2,
        _ => 1 + 4 + 1 + dcid + 1 + scid + 2,
    }
}

pub struct Built {
    pub bytes: Vec<u8>,
    pub po: usize,
    pub pn_len: usize,
    pub body: Vec<u8>,
}

/// Build + protect one packet with the real writers.
pub fn build(spec: &Spec, keys: DirectionalKeys, phase: KeyPhaseBit) -> Result<Built, String> {
    let po = payload_offset(spec.ptype, spec.dcid.len(), spec.scid.len(), spec.token.len());
    let enc = match spec.acked {
        Some(a) => PacketNumber::encode(spec.pn, a),
        None => encode_width(spec.pn, spec.width),
    };
    if enc.size() != spec.width {
        return Err(format!("harness: encode({}, {:?}) gave width {} not {}", spec.pn, spec.acked, enc.size(), spec.width));
    }
    // frame mode needs room for the frame headers around the data
    let need = po + spec.width + spec.body.len().max(4usize.saturating_sub(spec.width)) + 16 + if spec.mode == 1 { 24 } else { 0 };
    let mut buf = vec![0u8; need + spec.slack];
    let dcid = ConnectionId::from_slice(&spec.dcid);
    let scid = ConnectionId::from_slice(&spec.scid);
    let pnp = (spec.pn, enc);
    let spin = if spec.spin { SpinBit::One } else { SpinBit::Zero };
    let (size, body) = if spec.mode == 0 {
        let mut w = match spec.ptype {
            PType::Initial => PacketWriter::new_long(&LongHeaderBuilder::with_cid(dcid, scid).initial(spec.token.clone()), &mut buf, pnp, keys),
            PType::ZeroRtt => PacketWriter::new_long(&LongHeaderBuilder::with_cid(dcid, scid).zero_rtt(), &mut buf, pnp, keys),
            PType::Handshake => PacketWriter::new_long(&LongHeaderBuilder::with_cid(dcid, scid).handshake(), &mut buf, pnp, keys),
            PType::OneRtt => PacketWriter::new_short(&OneRttHeader::new(spin, dcid), &mut buf, pnp, keys, phase),
        }
        .map_err(|s| format!("harness: writer refused buffer: {s:?}"))?;
        w.put_slice(&spec.body);
        if w.payload_len() + w.tag_len() < 20 {
            let n = 20 - w.payload_len() - w.tag_len();
            w.put_bytes(0, n);
        }
        let body = w.buffer()[po + spec.width..po + w.payload_len()].to_vec();
        if body[..spec.body.len()] != spec.body[..] {
            return Err("harness: writer buffer does not hold the bytes put".into());
        }
        let (size, info) = w.encrypt_and_protect_packet();
        if info.packet_number() != spec.pn {
            return Err("harness: PacketInfo pn differs".into());
        }
        (size, body)
    } else {
        use qevent::packet::PacketWriter as QW;
        let mut w = match spec.ptype {
            PType::Initial => QW::new_long(&LongHeaderBuilder::with_cid(dcid, scid).initial(spec.token.clone()), &mut buf, pnp, keys),
            PType::ZeroRtt => QW::new_long(&LongHeaderBuilder::with_cid(dcid, scid).zero_rtt(), &mut buf, pnp, keys),
            PType::Handshake => QW::new_long(&LongHeaderBuilder::with_cid(dcid, scid).handshake(), &mut buf, pnp, keys),
            PType::OneRtt => QW::new_short(&OneRttHeader::new(spin, dcid), &mut buf, pnp, keys, phase),
        }
        .map_err(|s| format!("harness: writer refused buffer: {s:?}"))?;
        // real frames carrying the body bytes as data, padded like production (`PadTo20`)
        let data = Bytes::from(spec.body.clone());
        let overhead = 1 + 8 + 8 + 4;
        let dlen = data.len().min(w.remaining_mut().saturating_sub(overhead));
        let data = data.slice(..dlen);
        let r = if spec.ptype == PType::ZeroRtt {
            let sid = qbase::sid::StreamId::new(qbase::role::Role::Client, qbase::sid::Dir::Bi, 0);
            let mut f = StreamFrame::new(sid, 5, dlen);
            f.set_len_bit(qbase::frame::Len::Explicit);
            w.assemble_packet(&mut Packages((PingFrame, (f, data), PadTo20)))
        } else {
            let f = CryptoFrame::new(VarInt::from_u32(7), VarInt::try_from(dlen).unwrap());
            w.assemble_packet(&mut Packages((PingFrame, (f, data), PadTo20)))
        };
        r.map_err(|s| format!("harness: assemble_packet refused: {s:?}"))?;
        let body = w.buffer()[po + spec.width..po + w.payload_len()].to_vec();
        let (size, _info) = w.encrypt_and_protect_packet();
        (size, body)
    };
    buf.truncate(size);
    Ok(Built { bytes: buf, po, pn_len: spec.width, body })
}

/// `build` with panic capture: a panic of the writer is a violation, a refusal is harness trouble.
fn build_g(cx: &mut Ctx, spec: &Spec, keys: DirectionalKeys, phase: KeyPhaseBit) -> Result<Built, ()> {
    match vcore::panics::catch(|| build(spec, keys, phase)) {
        Ok(Ok(b)) => Ok(b),
        Ok(Err(e)) => {
            cx.rep.inconclusive(e);
            Err(())
        }
        Err(p) => {
            let loc = vcore::panics::short_location(&p.location);
            cx.violation(
                format!("C06.panic.build:{loc}"),
                format!("building a {} packet panicked: {} at {}", spec.ptype.name(), p.message, loc),
                json!({"spec": format!("{spec:?}")}),
            );
            Err(())
        }
    }
}

/// Keys a receiver holds.
#[derive(Clone, Default)]
pub struct Rx {
    pub dcid_len: usize,
    pub initial: Option<DirectionalKeys>,
    pub zero_rtt: Option<DirectionalKeys>,
    pub handshake: Option<DirectionalKeys>,
    pub one_rtt: Option<(Arc<dyn HeaderProtectionKey>, ArcOneRttPacketKeys)>,
}

pub enum Decoder<'a> {
    /// the production decoder: `ArcRcvdJournal::decode_pn`
    Journal(&'a ArcRcvdJournal),
    /// `pn.decode(expected)` as the journal does, for numbers too large to materialise in a journal
    Expected(u64),
    /// a context that reconstructs exactly this number
    Fixed(u64),
}

impl Decoder<'_> {
    fn run(&self, p: PacketNumber) -> Result<u64, InvalidPacketNumber> {
        match self {
            Decoder::Journal(j) => j.decode_pn(p),
            Decoder::Expected(e) => Ok(p.decode(*e)),
            Decoder::Fixed(v) => Ok(*v),
        }
    }
}

#[derive(Debug)]
pub struct Plain {
    pub ptype: PType,
    pub dcid: Vec<u8>,
    pub scid: Vec<u8>,
    pub token: Vec<u8>,
    pub spin: bool,
    pub pn: u64,
    pub body: Bytes,
    pub size: usize,
}

#[derive(Debug)]
pub enum Outcome {
    Ok(Plain),
    /// `None`: silently dropped
    Dropped,
    /// `Some(Err(_))`: connection error
    ConnError(String),
    #[allow(dead_code)]
    ParseErr(String),
    /// Retry / Version Negotiation: carries no frames
    NoFrames,
    KeyUnavailable,
}

/// The receive path: PacketReader -> (dispatch by parsed type, as `RcvdPacketQueue::deliver` +
/// `*Space::decrypt_packet` do) -> CipherPacket::decrypt_*.
pub fn receive(datagram: &[u8], rx: &Rx, dec: &Decoder) -> Vec<Outcome> {
    let mut outs = vec![];
    for item in PacketReader::new(BytesMut::from(datagram), rx.dcid_len) {
        let pkt = match item {
            Err(e) => {
                outs.push(Outcome::ParseErr(e.to_string()));
                continue;
            }
            Ok(Packet::VN(_)) | Ok(Packet::Retry(_)) => {
                outs.push(Outcome::NoFrames);
                continue;
            }
            Ok(Packet::Data(p)) => p,
        };
        macro_rules! long {
            ($h:expr, $keys:expr, $ty:expr, $tok:expr) => {{
                let h = $h;
                match $keys {
                    None => Outcome::KeyUnavailable,
                    Some(k) => match CipherPacket::new(h, pkt.bytes, pkt.offset).decrypt_long_packet(k.header.as_ref(), k.packet.as_ref(), |p| dec.run(p)) {
                        None => Outcome::Dropped,
                        Some(Err(e)) => Outcome::ConnError(e.to_string()),
                        Some(Ok(pl)) => Outcome::Ok(Plain {
                            ptype: $ty,
                            dcid: pl.dcid().to_vec(),
                            scid: pl.scid().to_vec(),
                            token: $tok(&pl),
                            spin: false,
                            pn: pl.pn(),
                            body: pl.body(),
                            size: pl.size(),
                        }),
                    },
                }
            }};
        }
        let o = match pkt.header {
            DataHeader::Long(long::DataHeader::Initial(h)) => {
                long!(h, &rx.initial, PType::Initial, |pl: &qinterface::component::route::PlainPacket<long::InitialHeader>| pl.token().clone())
            }
            DataHeader::Long(long::DataHeader::ZeroRtt(h)) => {
                long!(h, &rx.zero_rtt, PType::ZeroRtt, |_: &qinterface::component::route::PlainPacket<long::ZeroRttHeader>| vec![])
            }
            DataHeader::Long(long::DataHeader::Handshake(h)) => {
                long!(h, &rx.handshake, PType::Handshake, |_: &qinterface::component::route::PlainPacket<long::HandshakeHeader>| vec![])
            }
            DataHeader::Short(h) => match &rx.one_rtt {
                None => Outcome::KeyUnavailable,
                Some((hpk, pk)) => match CipherPacket::new(h, pkt.bytes, pkt.offset).decrypt_short_packet(hpk.as_ref(), pk, |p| dec.run(p)) {
                    None => Outcome::Dropped,
                    Some(Err(e)) => Outcome::ConnError(e.to_string()),
                    Some(Ok(pl)) => Outcome::Ok(Plain {
                        ptype: PType::OneRtt,
                        dcid: pl.dcid().to_vec(),
                        scid: vec![],
                        token: vec![],
                        spin: pl.spin() == SpinBit::One,
                        pn: pl.pn(),
                        body: pl.body(),
                        size: pl.size(),
                    }),
                },
            },
        };
        outs.push(o);
    }
    outs
}

/// Independent opener: rustls keys used directly on the wire image (RFC 9001 §5.3/§5.4).
/// Returns (first byte after unmasking, pn length, truncated pn, plaintext body).
pub fn ref_open(bytes: &[u8], po: usize, keys: &DirectionalKeys, pn: u64) -> Result<(u8, usize, u64, Vec<u8>), String> {
    let mut b = bytes.to_vec();
    if b.len() < po + 4 + keys.header.sample_len() {
        return Err("too short to sample".into());
    }
    {
        let (head, rest) = b.split_at_mut(po);
        let (pnbuf, sample) = rest.split_at_mut(4);
        let sl = keys.header.sample_len();
        keys.header.decrypt_in_place(&sample[..sl], &mut head[0], pnbuf).map_err(|e| format!("hp: {e}"))?;
    }
    let first = b[0];
    let pn_len = (first & 3) as usize + 1;
    let mut trunc = 0u64;
    for k in 0..pn_len {
        trunc = trunc << 8 | b[po + k] as u64;
    }
    let (aad, payload) = b.split_at_mut(po + pn_len);
    let plain = keys.packet.decrypt_in_place(pn, aad, payload).map_err(|e| format!("aead: {e}"))?;
    Ok((first, pn_len, trunc, plain.to_vec()))
}

/// Independent sealer: RFC 9001 §5.3 (AEAD over header||pn as AAD) and §5.4 (header protection) with the
/// rustls keys used directly.  `head` = unprotected header bytes up to and including the pn field.
pub fn ref_seal(head: &[u8], po: usize, body: &[u8], keys: &DirectionalKeys, pn: u64) -> Result<Vec<u8>, String> {
    let pn_len = head.len() - po;
    let mut pkt = head.to_vec();
    let mut payload = body.to_vec();
    let tag = keys.packet.encrypt_in_place(pn, &pkt, &mut payload).map_err(|e| format!("seal: {e}"))?;
    pkt.extend_from_slice(&payload);
    pkt.extend_from_slice(tag.as_ref());
    let sl = keys.header.sample_len();
    if pkt.len() < po + 4 + sl {
        return Err("too short to sample".into());
    }
    let (h, rest) = pkt.split_at_mut(po);
    let (pnbuf, sample) = rest.split_at_mut(4);
    keys.header.encrypt_in_place(&sample[..sl], &mut h[0], &mut pnbuf[..pn_len]).map_err(|e| format!("hp: {e}"))?;
    Ok(pkt)
}

/// A sender that sets reserved bits but authenticates correctly (RFC 9000 §17.2/§17.3.1: MUST be treated as
/// PROTOCOL_VIOLATION, never processed), and the bit-exact comparison of the library's wire image with the
/// independent sealer's.
fn reseal_checks(cx: &mut Ctx, tag: &str, spec: &Spec, b: &Built, tx_keys: &DirectionalKeys, rx: &Rx, dec: &Decoder) {
    let t = spec.ptype.name();
    let Ok((first, pn_len, _, body)) = ref_open(&b.bytes, b.po, tx_keys, spec.pn) else { return };
    // unprotected header: unmasked first byte, clear header bytes, unmasked pn bytes
    let mut clear = b.bytes.clone();
    {
        let (h, rest) = clear.split_at_mut(b.po);
        let (pnbuf, sample) = rest.split_at_mut(4);
        let sl = tx_keys.header.sample_len();
        if tx_keys.header.decrypt_in_place(&sample[..sl], &mut h[0], pnbuf).is_err() {
            return;
        }
    }
    let mut head = clear[..b.po + pn_len].to_vec();
    debug_assert_eq!(head[0], first);
    match ref_seal(&head, b.po, &body, tx_keys, spec.pn) {
        Ok(again) => {
            if again != b.bytes {
                let at = again.iter().zip(&b.bytes).position(|(x, y)| x != y).unwrap_or(again.len().min(b.bytes.len()));
                cx.violation(
                    format!("C06.wire.{t}:reseal-differs"),
                    format!("{tag}: sealing the same header/pn/body with rustls keys gives a different wire image (first difference at byte {at} of {})", b.bytes.len()),
                    json!({"built": vcore::hex(&b.bytes), "resealed": vcore::hex(&again)}),
                );
                return;
            }
            cx.rep.count("wire_images_equal_to_independent_sealer");
        }
        Err(_) => return,
    }
    let masks: [u8; 3] = if spec.ptype.is_long() { [0x04, 0x08, 0x0c] } else { [0x08, 0x10, 0x18] };
    for m in masks {
        head[0] = first | m;
        let Ok(pkt) = ref_seal(&head, b.po, &body, tx_keys, spec.pn) else { continue };
        let outs = receive_guarded(cx, "reserved-bits", spec.ptype, &pkt, rx, dec);
        for o in &outs {
            match o {
                Outcome::Ok(_) => cx.violation(
                    format!("C06.reserved-bits.{t}:accepted"),
                    format!("{tag}: authentic packet with reserved bits {m:#04x} set was delivered instead of PROTOCOL_VIOLATION"),
                    json!({"datagram": vcore::hex(&pkt), "mask": m}),
                ),
                Outcome::ConnError(_) => cx.rep.count("reserved_bits_packets_rejected_as_connection_error"),
                _ => cx.rep.count("reserved_bits_packets_dropped"),
            }
        }
        cx.rep.count("reserved_bits_packets_presented");
    }
}

fn region(ptype: PType, po: usize, pn_len: usize, len: usize, byte: usize) -> &'static str {
    if byte == 0 {
        "first-byte"
    } else if byte >= len - 16 {
        "tag"
    } else if byte >= po + pn_len {
        "payload"
    } else if byte >= po {
        "pn"
    } else if ptype.is_long() {
        if byte < 5 {
            "version"
        } else if byte >= po - 2 {
            "length"
        } else {
            "cids-token"
        }
    } else {
        "dcid"
    }
}

/// Strata of a case: a fixed pseudo-random function of the global case index (so every shard count and
/// every seed walks the same strata, and a replay needs only the index).
#[derive(Clone, Copy, Debug)]
struct Strata {
    kind: u64,
    dcid_len: usize,
    scid_len: usize,
    token_len: usize,
    width: usize,
    suite: usize,
    updates: u64,
    production_like: bool,
}

fn strata(idx: u64) -> Strata {
    let m = Rng::new(idx.wrapping_mul(0x9e3779b97f4a7c15) ^ 0xc06c06).next_u64() >> 8;
    Strata {
        kind: m % 20,
        dcid_len: (m / 20 % 21) as usize,
        scid_len: (m / 420 % 21) as usize,
        token_len: TOKEN_LENS[(m / 8820 % 5) as usize],
        width: 1 + (m / 44100 % 4) as usize,
        suite: (m / 176400 % 3) as usize,
        updates: [0u64, 0, 1, 2, 3, 1][(m / 529200 % 6) as usize],
        production_like: m / 3175200 % 2 == 1,
    }
}

struct Ctx<'r> {
    st: Strata,
    rep: &'r mut Report,
    idx: u64,
    case_seed: u64,
    thorough: bool,
    strict_reserved: bool,
}

impl Ctx<'_> {
    fn replay(&self, extra: Value) -> Value {
        json!({"kind": "c06", "idx": self.idx, "case_seed": self.case_seed, "thorough": self.thorough, "detail": extra})
    }
    fn violation(&mut self, sig: String, what: String, extra: Value) {
        let r = self.replay(extra);
        self.rep.violation(sig, what, r);
    }
}

const PARSER_FILES: [&str; 4] = ["qbase/src/packet/io.rs", "qbase/src/packet/header", "qbase/src/cid", "qbase/src/packet/type"];

/// receive() with panic capture. Parser panics (before any key is touched) on corrupted headers are
/// C03's subject (decoder robustness): counted, the packet was not delivered.  Panics elsewhere are C06's.
fn receive_guarded(cx: &mut Ctx, what: &str, ptype: PType, datagram: &[u8], rx: &Rx, dec: &Decoder) -> Vec<Outcome> {
    match vcore::panics::catch(|| receive(datagram, rx, dec)) {
        Ok(v) => v,
        Err(p) => {
            let loc = vcore::panics::short_location(&p.location);
            if PARSER_FILES.iter().any(|f| loc.contains(f)) && what != "roundtrip" {
                cx.rep.count("modified_packet_panics_in_header_parser(C03 scope)");
                cx.rep.set("parser_panic_locations", vcore::fnv_str(&loc));
            } else {
                cx.violation(
                    format!("C06.panic.{}:{}", what, loc),
                    format!("{} packet, {}: receive path panicked: {} at {}", ptype.name(), what, p.message, loc),
                    json!({"datagram": vcore::hex(datagram)}),
                );
            }
            vec![]
        }
    }
}

/// Round-trip of an unmodified packet; returns true when delivered and equal.
fn check_roundtrip(cx: &mut Ctx, tag: &str, spec: &Spec, b: &Built, rx: &Rx, dec: &Decoder) -> bool {
    let outs = receive_guarded(cx, "roundtrip", spec.ptype, &b.bytes, rx, dec);
    let t = spec.ptype.name();
    let detail = json!({"step": tag, "pn": spec.pn, "width": spec.width, "expected": spec.expected, "len": b.bytes.len()});
    if outs.len() != 1 {
        if !outs.is_empty() {
            cx.violation(format!("C06.roundtrip.{t}:split"), format!("{tag}: one packet was parsed as {} packets: {:?}", outs.len(), outs), detail);
        }
        return false;
    }
    match &outs[0] {
        Outcome::Ok(p) => {
            let mut bad = vec![];
            if p.ptype != spec.ptype {
                bad.push(("type", format!("{:?}", p.ptype)));
            }
            if p.dcid != spec.dcid {
                bad.push(("dcid", vcore::hex(&p.dcid)));
            }
            if spec.ptype.is_long() && p.scid != spec.scid {
                bad.push(("scid", vcore::hex(&p.scid)));
            }
            if spec.ptype == PType::Initial && p.token != spec.token {
                bad.push(("token", vcore::hex(&p.token)));
            }
            if spec.ptype == PType::OneRtt && p.spin != spec.spin {
                bad.push(("spin", p.spin.to_string()));
            }
            if p.pn != spec.pn {
                bad.push(("pn", p.pn.to_string()));
            }
            if p.body[..] != b.body[..] {
                bad.push(("body", format!("{} bytes vs {} assembled", p.body.len(), b.body.len())));
            }
            if p.size != b.bytes.len() {
                bad.push(("size", p.size.to_string()));
            }
            if let Some((f, got)) = bad.first() {
                cx.violation(format!("C06.roundtrip.{t}:{f}"), format!("{tag}: recovered {f} = {got} differs from what was assembled ({} fields differ)", bad.len()), detail);
                return false;
            }
            true
        }
        other => {
            let kind = match other {
                Outcome::Dropped => "dropped",
                Outcome::ConnError(_) => "conn-error",
                Outcome::ParseErr(_) => "parse-error",
                Outcome::NoFrames => "no-frames",
                _ => "key-unavailable",
            };
            cx.violation(format!("C06.roundtrip.{t}:{kind}"), format!("{tag}: unmodified packet was not recovered: {:?}", other), detail);
            false
        }
    }
}

/// Unmodified or modified datagram that must NOT be delivered.
fn check_rejected(cx: &mut Ctx, clause: &str, trig: &str, spec: &Spec, datagram: &[u8], rx: &Rx, dec: &Decoder, detail: Value) {
    let outs = receive_guarded(cx, clause, spec.ptype, datagram, rx, dec);
    for o in &outs {
        match o {
            Outcome::Ok(p) => {
                let t = spec.ptype.name();
                cx.violation(
                    format!("C06.{clause}.{t}:{trig}"),
                    format!("{clause}/{trig}: packet was accepted (type {:?}, pn {}, {} body bytes)", p.ptype, p.pn, p.body.len()),
                    json!({"datagram": vcore::hex(datagram), "info": detail}),
                );
            }
            Outcome::Dropped => cx.rep.count(&format!("{clause}_outcome_dropped")),
            Outcome::ConnError(e) => {
                cx.rep.count(&format!("{clause}_outcome_connection_error"));
                if clause == "flip" {
                    cx.rep.count("flip_connection_error_before_authentication(reserved bits)");
                    if cx.strict_reserved {
                        let t = spec.ptype.name();
                        cx.violation(
                            format!("C06.flip-conn-error.{t}:{trig}"),
                            format!("one flipped bit ({trig}) turns an unauthenticated packet into a connection error: {e}"),
                            json!({"datagram": vcore::hex(datagram), "info": detail}),
                        );
                    }
                }
            }
            Outcome::ParseErr(_) => cx.rep.count(&format!("{clause}_outcome_unparseable")),
            Outcome::NoFrames => cx.rep.count(&format!("{clause}_outcome_retry_or_vn(no frames)")),
            Outcome::KeyUnavailable => cx.rep.count(&format!("{clause}_outcome_key_unavailable")),
        }
    }
    if outs.is_empty() {
        cx.rep.count(&format!("{clause}_outcome_nothing_parsed"));
    }
}

fn flip_campaign(cx: &mut Ctx, rng: &mut Rng, spec: &Spec, b: &Built, rx: &Rx, dec: &Decoder) -> u64 {
    let len = b.bytes.len();
    let exhaustive = len < 400 || cx.thorough;
    let mut bits: Vec<usize> = vec![];
    if exhaustive {
        bits.extend(0..len * 8);
        cx.rep.count("packets_flipped_exhaustively");
    } else {
        let hdr_end = b.po + b.pn_len;
        bits.extend(0..hdr_end * 8);
        // the header-protection sample
        bits.extend((b.po + 4) * 8..(b.po + 4 + 16) * 8);
        bits.extend((len - 16) * 8..len * 8);
        for _ in 0..256 {
            bits.push(rng.range(hdr_end as u64 * 8, (len as u64 - 16) * 8 - 1) as usize);
        }
        bits.sort_unstable();
        bits.dedup();
        cx.rep.count("packets_flipped_sampled");
    }
    let mut d = b.bytes.clone();
    for &bit in &bits {
        d[bit / 8] ^= 1 << (bit % 8);
        let reg = region(spec.ptype, b.po, b.pn_len, len, bit / 8);
        check_rejected(cx, "flip", reg, spec, &d, rx, dec, json!({"bit": bit}));
        d[bit / 8] ^= 1 << (bit % 8);
        cx.rep.count(&format!("flips_in_{reg}"));
    }
    cx.rep.add("flips_evaluated", bits.len() as u64);
    bits.len() as u64
}

fn wrong_pn_checks(cx: &mut Ctx, spec: &Spec, b: &Built, rx: &Rx) {
    let win = 1u64 << (8 * spec.width);
    let mut ctxs: Vec<(&str, Decoder)> = vec![("pn+1", Decoder::Fixed(spec.pn + 1))];
    if spec.pn > 0 {
        ctxs.push(("pn-1", Decoder::Fixed(spec.pn - 1)));
    }
    // a receiver whose expected pn is one window further reconstructs pn + window
    if spec.pn + win < (1 << 62) {
        ctxs.push(("expected+window", Decoder::Expected(spec.expected + win)));
    }
    if spec.expected >= win {
        ctxs.push(("expected-window", Decoder::Expected(spec.expected - win)));
    }
    for (name, dec) in &ctxs {
        if let Decoder::Expected(e) = dec {
            let rec = encode_width(spec.pn, spec.width).decode(*e);
            if rec == spec.pn {
                continue; // context does not change the reconstructed number
            }
        }
        check_rejected(cx, "wrong-pn", name, spec, &b.bytes, rx, dec, json!({"pn": spec.pn, "width": spec.width}));
        cx.rep.count("wrong_pn_contexts_evaluated");
    }
}

fn wire_check(cx: &mut Ctx, tag: &str, spec: &Spec, b: &Built, tx_keys: &DirectionalKeys, phase: KeyPhaseBit) -> bool {
    let t = spec.ptype.name();
    let detail = json!({"step": tag, "pn": spec.pn, "width": spec.width, "packet": vcore::hex(&b.bytes)});
    match ref_open(&b.bytes, b.po, tx_keys, spec.pn) {
        Err(e) => {
            let c = if e.starts_with("aead") { "aead" } else { "header-protection" };
            cx.violation(format!("C06.wire.{t}:{c}"), format!("{tag}: independent opener (rustls keys, RFC 9001 §5) cannot open the built packet: {e}"), detail);
            false
        }
        Ok((first, pn_len, trunc, body)) => {
            let mask = if spec.width == 8 { u64::MAX } else { (1u64 << (8 * spec.width)) - 1 };
            let reserved = if spec.ptype.is_long() { first & 0x0c } else { first & 0x18 };
            let mut bad = None;
            if reserved != 0 {
                bad = Some(("reserved-bits", format!("{first:#04x}")));
            } else if pn_len != spec.width {
                bad = Some(("pn-length", pn_len.to_string()));
            } else if trunc != spec.pn & mask {
                bad = Some(("truncated-pn", trunc.to_string()));
            } else if !spec.ptype.is_long() && (first & 0x04 != 0) != (phase == KeyPhaseBit::One) {
                bad = Some(("key-phase", format!("{first:#04x}")));
            } else if !spec.ptype.is_long() && (first & 0x20 != 0) != spec.spin {
                bad = Some(("spin", format!("{first:#04x}")));
            } else if first & 0x40 == 0 {
                bad = Some(("fixed-bit", format!("{first:#04x}")));
            } else if body != b.body {
                bad = Some(("body", format!("{} bytes", body.len())));
            }
            if let Some((f, got)) = bad {
                cx.violation(format!("C06.wire.{t}:{f}"), format!("{tag}: wire image opened with rustls keys has {f} = {got}, assembled differently"), detail);
                return false;
            }
            cx.rep.count("wire_images_opened_independently");
            true
        }
    }
}

fn gen_cid(rng: &mut Rng, len: usize) -> Vec<u8> {
    rng.bytes(len)
}

/// pn, width, expected, acked for a requested width (1..=4).
fn gen_pn(rng: &mut Rng, width: usize) -> (u64, u64, Option<u64>) {
    if width == 2 && rng.chance(1, 10) {
        // the very first packet of a space: nothing sent, acked or received before
        return (0, 0, Some(0));
    }
    // distance to the sender's largest acked, legal for this width (RFC 9000 §17.1: twice the distance must fit)
    let max_delta: u64 = match width {
        1 => 127,
        2 => 32767,
        3 => (1 << 23) - 1,
        _ => (1 << 31) - 1,
    };
    let min_delta: u64 = match width {
        1 | 2 => 1,
        3 => 32768,
        _ => 1 << 23,
    };
    let delta = match rng.below(4) {
        0 => min_delta,
        1 => max_delta,
        _ => rng.range(min_delta, max_delta),
    };
    let acked = match rng.below(6) {
        0 => 0,
        1 => rng.below(300),
        2 => rng.below(1 << 20),
        3 => (1u64 << (8 * width as u64)).saturating_sub(rng.range(0, 3)) + rng.below(3), // around the width's wrap point
        4 => (1u64 << 62) - 1 - delta - rng.below(1000),
        _ => rng.next_u64() >> (2 + rng.below(50)),
    };
    let acked = acked.min((1u64 << 62) - 1 - delta);
    let pn = acked + delta;
    // receiver has received something in [acked, pn-1]
    let largest_rcvd = match rng.below(3) {
        0 => acked,
        1 => pn - 1,
        _ => rng.range(acked, pn - 1),
    };
    // use the library's own encoder when it yields this width
    let use_encode = width >= 2 && PacketNumber::encode(pn, acked).size() == width;
    (pn, largest_rcvd + 1, if use_encode && rng.chance(2, 3) { Some(acked) } else { None })
}

fn gen_body_len(rng: &mut Rng, overhead: usize, width: usize) -> usize {
    let min = 4usize.saturating_sub(width).max(1);
    let max = 1452usize.saturating_sub(overhead + width + 16).max(min);
    match rng.below(8) {
        0 => min,
        1 => min + 1,
        2 => max,
        3 => max - rng.below(3.min(max as u64 - min as u64 + 1)) as usize,
        4 => rng.range(min as u64, 40.min(max as u64)) as usize,
        5 => rng.range(min as u64, 300.min(max as u64)) as usize,
        _ => rng.range(min as u64, max as u64) as usize,
    }
}

const TOKEN_LENS: [usize; 5] = [0, 1, 63, 64, 200];

fn shape_hash(spec: &Spec, suite: &str, phase: KeyPhaseBit, updates: u64, blen: usize) -> u64 {
    let s = format!(
        "{}|{}|{}|{}|{}|{}|{}|{:?}|{}|{}",
        spec.ptype.name(),
        spec.dcid.len(),
        spec.scid.len(),
        spec.token.len(),
        spec.width,
        blen,
        suite,
        phase,
        updates,
        spec.mode
    );
    vcore::fnv_str(&s)
}

struct OneRttEnd {
    hpk_local: Arc<dyn HeaderProtectionKey>,
    hpk_remote: Arc<dyn HeaderProtectionKey>,
    pk: ArcOneRttPacketKeys,
}

impl OneRttEnd {
    fn of(k: &pktkeys::EndpointKeys) -> Self {
        let (hl, pk) = k.one_rtt.get_local_keys().expect("1-RTT keys set");
        let (hr, _) = k.one_rtt.remote_keys().expect("1-RTT keys set");
        OneRttEnd { hpk_local: hl, hpk_remote: hr, pk }
    }
    fn tx(&self) -> (DirectionalKeys, KeyPhaseBit) {
        let (phase, pk) = self.pk.lock_guard().get_local();
        (DirectionalKeys { header: self.hpk_local.clone(), packet: pk }, phase)
    }
    fn rx(&self, dcid_len: usize) -> Rx {
        Rx { dcid_len, one_rtt: Some((self.hpk_remote.clone(), self.pk.clone())), ..Default::default() }
    }
    fn phase(&self) -> KeyPhaseBit {
        self.pk.lock_guard().get_local().0
    }
}

fn observe(cx: &mut Ctx, spec: &Spec, b: &Built, suite: &str) {
    let rep = &mut *cx.rep;
    rep.count(&format!("packets_built_{}", spec.ptype.name()));
    rep.set("pn_widths", spec.width as u64);
    rep.set("dcid_lens", spec.dcid.len() as u64);
    rep.set("scid_lens", spec.scid.len() as u64);
    rep.set("packet_sizes", b.bytes.len() as u64);
    if spec.ptype == PType::Initial {
        rep.set("token_lens", spec.token.len() as u64);
    }
    rep.count(&format!("suite_{suite}"));
    rep.count(&format!("writer_mode_{}", if spec.mode == 0 { "base_raw" } else { "qevent_frames" }));
    rep.max("max_packet_size", b.bytes.len() as u64);
    if spec.pn > 1 << 32 {
        rep.count("packets_with_pn_above_2^32");
    }
    if b.bytes.len() - b.po == 20 {
        rep.count("packets_at_sampling_minimum(20-byte payload)");
    }
}

/// The full battery on one packet: wire image, round trip, flips, wrong pn.
#[allow(clippy::too_many_arguments)]
fn battery(
    cx: &mut Ctx,
    rng: &mut Rng,
    tag: &str,
    spec: &Spec,
    tx_keys: &DirectionalKeys,
    phase: KeyPhaseBit,
    rx: &Rx,
    suite: &str,
    updates: u64,
) -> Option<Built> {
    let built = match vcore::panics::catch(|| build(spec, tx_keys.clone(), phase)) {
        Ok(Ok(b)) => b,
        Ok(Err(e)) => {
            cx.rep.inconclusive(format!("{tag}: {e}"));
            return None;
        }
        Err(p) => {
            let loc = vcore::panics::short_location(&p.location);
            cx.violation(
                format!("C06.panic.build:{loc}"),
                format!("{tag}: building a {} packet panicked: {} at {}", spec.ptype.name(), p.message, loc),
                json!({"spec": format!("{spec:?}")}),
            );
            return None;
        }
    };
    observe(cx, spec, &built, suite);
    // production decoder when the numbers are small enough to materialise a receive journal
    let journal = (spec.expected <= 4096).then(|| {
        let j = ArcRcvdJournal::with_capacity(16, None);
        if spec.expected > 0 {
            j.on_rcvd_pn(spec.expected - 1, true, std::time::Duration::from_millis(100));
        }
        j
    });
    let dec = match &journal {
        Some(j) => {
            cx.rep.count("cases_decoded_by_real_rcvd_journal");
            Decoder::Journal(j)
        }
        None => Decoder::Expected(spec.expected),
    };
    let w = wire_check(cx, tag, spec, &built, tx_keys, phase);
    let r = check_roundtrip(cx, tag, spec, &built, rx, &dec);
    if r {
        cx.rep.count("roundtrips_ok");
    }
    if !(w && r) {
        return Some(built);
    }
    reseal_checks(cx, tag, spec, &built, tx_keys, rx, &dec);
    let n = flip_campaign(cx, rng, spec, &built, rx, &dec);
    wrong_pn_checks(cx, spec, &built, rx);
    if n > 0 {
        cx.rep.distinct(shape_hash(spec, suite, phase, updates, built.body.len()));
    }
    // the campaign must not have disturbed the receiver: the genuine packet is still recovered
    let outs = receive_guarded(cx, "after-flips", spec.ptype, &built.bytes, rx, &dec);
    match outs.first() {
        Some(Outcome::Ok(p)) if p.pn == spec.pn && p.body[..] == built.body[..] => cx.rep.count("genuine_packet_still_recovered_after_campaign"),
        _ => cx.rep.count("genuine_packet_NOT_recovered_after_campaign(receiver state disturbed, C02 scope)"),
    }
    Some(built)
}

fn long_case(cx: &mut Ctx, rng: &mut Rng, hs: &Handshaken, ptype: PType) {
    let dcid_len = cx.st.dcid_len;
    let scid_len = cx.st.scid_len;
    let dcid = gen_cid(rng, dcid_len);
    let scid = gen_cid(rng, scid_len);
    let token = if ptype == PType::Initial { rng.bytes(cx.st.token_len) } else { vec![] };
    let width = cx.st.width;
    let (pn, expected, acked) = gen_pn(rng, width);
    let po = payload_offset(ptype, dcid_len, scid_len, token.len());
    let blen = gen_body_len(rng, po, width);
    let spec = Spec {
        ptype,
        dcid,
        scid,
        token,
        spin: false,
        pn,
        width,
        expected,
        acked,
        body: rng.bytes(blen),
        slack: if rng.bool() { 0 } else { rng.range(1, 64) as usize },
        mode: (rng.below(3) == 0) as u8,
    };
    let to_server = ptype == PType::ZeroRtt || rng.bool();
    // the client's original DCID keys the Initial secrets of the whole connection
    let n_odcid = rng.range(8, 20) as usize;
    let odcid = rng.bytes(n_odcid);
    let ic = pktkeys::initial_keys(&odcid, rustls::Side::Client);
    let is = pktkeys::initial_keys(&odcid, rustls::Side::Server);
    let (z_tx, z_rx) = pktkeys::directional_pair(&hs.quic_suite, &rng.bytes(32));
    let (me, peer) = if to_server { (&hs.client, &hs.server) } else { (&hs.server, &hs.client) };
    let (tx_keys, other_dir) = match ptype {
        PType::Initial => {
            if to_server {
                (ic.local.clone(), ic.remote.clone())
            } else {
                (is.local.clone(), is.remote.clone())
            }
        }
        PType::ZeroRtt => (z_tx.clone(), pktkeys::directional_pair(&hs.quic_suite, &rng.bytes(32)).0),
        _ => (me.handshake.local.clone(), me.handshake.remote.clone()),
    };
    let peer1 = OneRttEnd::of(peer);
    let rx = Rx {
        dcid_len,
        initial: Some(if to_server { is.remote.clone() } else { ic.remote.clone() }),
        zero_rtt: Some(z_rx),
        handshake: Some(peer.handshake.remote.clone()),
        one_rtt: Some((peer1.hpk_remote.clone(), peer1.pk.clone())),
    };
    let tag = format!("{} {}", ptype.name(), if to_server { "c->s" } else { "s->c" });
    let suite = if ptype == PType::Initial { "aes128gcm" } else { hs.suite_name };
    let Some(built) = battery(cx, rng, &tag, &spec, &tx_keys, KeyPhaseBit::Zero, &rx, suite, 0) else { return };
    // wrong keys: the other direction's keys of the same level (reflection), another connection's keys
    let dec = Decoder::Expected(spec.expected);
    let mut rx2 = rx.clone();
    match ptype {
        PType::Initial => rx2.initial = Some(other_dir),
        PType::ZeroRtt => rx2.zero_rtt = Some(other_dir),
        _ => rx2.handshake = Some(other_dir),
    }
    check_rejected(cx, "wrong-key", "other-direction", &spec, &built.bytes, &rx2, &dec, json!({}));
    let mut rx3 = rx.clone();
    let foreign = pktkeys::initial_keys(&rng.bytes(8), if to_server { rustls::Side::Server } else { rustls::Side::Client }).remote;
    match ptype {
        PType::Initial => rx3.initial = Some(foreign),
        PType::ZeroRtt => rx3.zero_rtt = Some(foreign),
        _ => rx3.handshake = Some(foreign),
    }
    check_rejected(cx, "wrong-key", "other-connection", &spec, &built.bytes, &rx3, &dec, json!({}));
    // keys of another encryption level presented for this type
    let mut rx4 = rx.clone();
    match ptype {
        PType::Initial => rx4.initial = rx.handshake.clone(),
        PType::ZeroRtt => rx4.zero_rtt = rx.handshake.clone(),
        _ => rx4.handshake = rx.initial.clone(),
    }
    check_rejected(cx, "wrong-key", "other-level", &spec, &built.bytes, &rx4, &dec, json!({}));
    cx.rep.add("wrong_key_presentations", 3);
}

fn short_spec(cx: &Ctx, rng: &mut Rng, width: usize, pn_floor: u64) -> Spec {
    let dcid_len = cx.st.dcid_len;
    let (mut pn, mut expected, mut acked) = gen_pn(rng, width);
    if pn <= pn_floor {
        // keep numbers increasing within a connection
        let shift = pn_floor + 1;
        pn += shift;
        expected += shift;
        acked = acked.map(|a| a + shift);
    }
    let po = 1 + dcid_len;
    let blen = gen_body_len(rng, po, width);
    Spec {
        ptype: PType::OneRtt,
        dcid: vec![],
        scid: vec![],
        token: vec![],
        spin: rng.bool(),
        pn,
        width,
        expected,
        acked,
        body: rng.bytes(blen),
        slack: if rng.bool() { 0 } else { rng.range(1, 64) as usize },
        mode: (rng.below(3) == 0) as u8,
    }
}

/// Bring both ends through `n` complete key updates using real packets (initiator updates, the
/// peer follows on receipt, answers, both retire the old generation).
fn advance_generations(cx: &mut Ctx, rng: &mut Rng, a: &OneRttEnd, b: &OneRttEnd, dcid: &[u8], n: u64, pn: &mut u64) -> bool {
    for g in 0..n {
        let (ini, fol) = if g % 2 == 0 { (a, b) } else { (b, a) };
        ini.pk.lock_guard().update();
        for (from, to, step) in [(ini, fol, "update-announce"), (fol, ini, "update-answer")] {
            *pn += 1 + rng.below(3);
            let mut s = short_spec(cx, rng, 2, 0);
            s.dcid = dcid.to_vec();
            s.pn = *pn;
            s.expected = *pn;
            s.acked = None;
            s.body = rng.bytes(24);
            let (k, ph) = from.tx();
            let Ok(bu) = build_g(cx, &s, k, ph) else { return false };
            if !check_roundtrip(cx, &format!("keyupdate gen {} {step}", g + 1), &s, &bu, &to.rx(dcid.len()), &Decoder::Expected(s.expected)) {
                return false;
            }
        }
        if ini.phase() != fol.phase() {
            cx.violation("C06.keyupdate:phase-desync".into(), format!("after update {} the two ends are in different key phases", g + 1), json!({}));
            return false;
        }
        ini.pk.lock_guard().phase_out();
        fol.pk.lock_guard().phase_out();
        cx.rep.count("key_generations_advanced_by_real_packets");
    }
    true
}

fn short_case(cx: &mut Ctx, rng: &mut Rng, hs: &Handshaken) {
    let to_server = rng.bool();
    let (me, peer) = if to_server { (&hs.client, &hs.server) } else { (&hs.server, &hs.client) };
    let a = OneRttEnd::of(me);
    let b = OneRttEnd::of(peer);
    let width = cx.st.width;
    let updates = cx.st.updates;
    let mut spec = short_spec(cx, rng, width, 100);
    spec.dcid = gen_cid(rng, cx.st.dcid_len);
    let mut pn0 = 0u64;
    if !advance_generations(cx, rng, &a, &b, &spec.dcid, updates, &mut pn0) {
        return;
    }
    let (tx_keys, phase) = a.tx();
    let rx = b.rx(spec.dcid.len());
    cx.rep.count(&format!("one_rtt_cases_phase_{}", if phase == KeyPhaseBit::One { 1 } else { 0 }));
    let tag = format!("1rtt {} after {updates} updates", if to_server { "c->s" } else { "s->c" });
    let Some(built) = battery(cx, rng, &tag, &spec, &tx_keys, phase, &rx, hs.suite_name, updates) else { return };
    let dec = Decoder::Expected(spec.expected);
    // reflection: the sender's own receive keys
    check_rejected(cx, "wrong-key", "other-direction", &spec, &built.bytes, &a.rx(spec.dcid.len()), &dec, json!({}));
    // next-generation packet key but the current phase bit (a sender that forgot to toggle)
    let mut sec = me.secrets.clone();
    let mut next = sec.next_packet_keys();
    for _ in 0..updates {
        next = sec.next_packet_keys();
    }
    let k2 = DirectionalKeys { header: a.hpk_local.clone(), packet: Arc::from(next.local) };
    if let Ok(b2) = build_g(cx, &spec, k2.clone(), phase) {
        check_rejected(cx, "wrong-key", "next-generation-same-phase", &spec, &b2.bytes, &rx, &dec, json!({}));
        // sanity of the harness: with the toggled phase bit this IS the legitimate next generation
        if let Ok(b3) = build_g(cx, &spec, k2, !phase) {
            let fresh = Decoder::Expected(spec.expected);
            if check_roundtrip(cx, "next generation with toggled phase", &spec, &b3, &rx, &fresh) {
                cx.rep.count("peer_initiated_updates_followed");
            }
        }
    }
    // keys of a different connection
    if let Ok(other) = pktkeys::handshake(rng.usize(3)) {
        let o = OneRttEnd::of(if to_server { &other.server } else { &other.client });
        check_rejected(cx, "wrong-key", "other-connection", &spec, &built.bytes, &o.rx(spec.dcid.len()), &dec, json!({}));
    }
    cx.rep.add("wrong_key_presentations", 3);
}

/// Scripted key-update scenario on one connection.
fn keyupdate_case(cx: &mut Ctx, rng: &mut Rng, hs: &Handshaken) {
    let c = OneRttEnd::of(&hs.client);
    let s = OneRttEnd::of(&hs.server);
    let n_dcid = rng.below(21) as usize;
    let dcid = gen_cid(rng, n_dcid);
    let production_like = cx.st.production_like; // production never calls phase_out()
    let gens = rng.range(1, 4);
    let mut pn = rng.below(1000);
    let mk = |cx: &Ctx, rng: &mut Rng, pn: u64| {
        let w = 2 + rng.usize(3);
        let mut sp = short_spec(cx, rng, w, 0);
        sp.dcid = dcid.clone();
        sp.pn = pn;
        sp.expected = pn.saturating_sub(rng.below(3));
        sp.acked = None;
        sp
    };
    // generation 0
    let sp = mk(cx, rng, pn);
    let (k0, ph0) = c.tx();
    let Ok(b0) = build_g(cx, &sp, k0.clone(), ph0) else { return };
    if !check_roundtrip(cx, "keyupdate: before any update", &sp, &b0, &s.rx(dcid.len()), &Decoder::Expected(sp.expected)) {
        return;
    }
    let mut old = (k0, ph0);
    for g in 1..=gens {
        c.pk.lock_guard().update();
        let (k, ph) = c.tx();
        if ph == old.1 {
            cx.violation("C06.keyupdate:phase-not-toggled".into(), "update() did not toggle the sender's key phase".into(), json!({"gen": g}));
            return;
        }
        pn += 1 + rng.below(5);
        let sp = mk(cx, rng, pn);
        let Ok(b1) = build_g(cx, &sp, k.clone(), ph) else { return };
        if !wire_check(cx, "keyupdate: first packet of new phase", &sp, &b1, &k, ph) {
            return;
        }
        let ok = {
            let outs = vcore::panics::catch(|| receive(&b1.bytes, &s.rx(dcid.len()), &Decoder::Expected(sp.expected))).unwrap_or_default();
            matches!(outs.first(), Some(Outcome::Ok(p)) if p.pn == sp.pn && p.body[..] == b1.body[..])
        };
        if !ok {
            if production_like && g >= 2 {
                cx.violation(
                    "C06.keyupdate.second-update:old-keys-never-retired".into(),
                    format!(
                        "peer's key update #{g}: the first packet of the new generation is not recovered by decrypt_short_packet/get_remote \
                         (the slot of the phase still holds generation {} keys; no production code calls phase_out())",
                        g - 2
                    ),
                    json!({"gen": g, "production_like": true}),
                );
            } else {
                cx.violation(format!("C06.keyupdate:generation-not-followed"), format!("first packet of generation {g} not recovered"), json!({"gen": g, "production_like": production_like}));
            }
            return;
        }
        cx.rep.count("keyupdate_new_phase_roundtrips");
        if s.phase() != ph {
            cx.violation("C06.keyupdate:receiver-phase".into(), format!("receiver did not follow to key phase {ph:?}"), json!({"gen": g}));
            return;
        }
        // reverse direction under the new generation
        pn += 1;
        let spr = mk(cx, rng, pn);
        let (kr, phr) = s.tx();
        let Ok(br) = build_g(cx, &spr, kr, phr) else { return };
        if !check_roundtrip(cx, "keyupdate: answer in new phase", &spr, &br, &c.rx(dcid.len()), &Decoder::Expected(spr.expected)) {
            return;
        }
        if c.phase() != ph {
            cx.violation("C06.keyupdate:initiator-phase".into(), "initiator changed phase again on the peer's answer".into(), json!({"gen": g}));
            return;
        }
        // a reordered packet of the previous phase, before the old keys are retired
        pn += 1;
        let spo = mk(cx, rng, pn);
        let Ok(bo) = build_g(cx, &spo, old.0.clone(), old.1) else { return };
        if check_roundtrip(cx, "keyupdate: reordered old-phase packet before phase_out", &spo, &bo, &s.rx(dcid.len()), &Decoder::Expected(spo.expected)) {
            cx.rep.count("keyupdate_old_phase_roundtrips_before_phase_out");
        } else {
            return;
        }
        // flips on the new-phase packet must be rejected as well
        if g == 1 {
            flip_campaign(cx, rng, &sp, &b1, &s.rx(dcid.len()), &Decoder::Expected(sp.expected));
        }
        if !production_like {
            c.pk.lock_guard().phase_out();
            s.pk.lock_guard().phase_out();
            // old phase after phase-out must be rejected
            if g == gens {
                pn += 1;
                let spx = mk(cx, rng, pn);
                if let Ok(bx) = build_g(cx, &spx, old.0.clone(), old.1) {
                    check_rejected(cx, "keyupdate", "old-phase-after-phase-out", &spx, &bx.bytes, &s.rx(dcid.len()), &Decoder::Expected(spx.expected), json!({"gen": g}));
                    cx.rep.count("keyupdate_old_phase_after_phase_out_presented");
                }
            }
        }
        old = (k, ph);
    }
    cx.rep.count(if production_like { "keyupdate_scenarios_without_phase_out" } else { "keyupdate_scenarios_with_phase_out" });
    cx.rep.distinct(vcore::fnv_str(&format!("ku|{}|{}|{}|{}", dcid.len(), gens, production_like, hs.suite_name)));
}

/// Initial + Handshake + 1-RTT coalesced in one datagram, as `Burst::load_spaces` lays them out.
fn coalesced_case(cx: &mut Ctx, rng: &mut Rng, hs: &Handshaken) {
    let (n_d, n_s) = (rng.below(21) as usize, rng.below(21) as usize);
    let dcid = gen_cid(rng, n_d);
    let scid = gen_cid(rng, n_s);
    let odcid = rng.bytes(8);
    let ic = pktkeys::initial_keys(&odcid, rustls::Side::Client);
    let is = pktkeys::initial_keys(&odcid, rustls::Side::Server);
    let c1 = OneRttEnd::of(&hs.client);
    let s1 = OneRttEnd::of(&hs.server);
    let mut datagram = vec![];
    let mut parts = vec![];
    for ptype in [PType::Initial, PType::Handshake, PType::OneRtt] {
        let width = 1 + rng.usize(4);
        let (pn, expected, acked) = gen_pn(rng, width);
        let n_tok = *rng.pick(&TOKEN_LENS);
        let n_body = rng.range(3, 300) as usize;
        let spec = Spec {
            ptype,
            dcid: dcid.clone(),
            scid: scid.clone(),
            token: if ptype == PType::Initial { rng.bytes(n_tok) } else { vec![] },
            spin: rng.bool(),
            pn,
            width,
            expected,
            acked,
            body: rng.bytes(n_body),
            slack: 0,
            mode: rng.below(2) as u8,
        };
        let (k, ph) = match ptype {
            PType::Initial => (ic.local.clone(), KeyPhaseBit::Zero),
            PType::Handshake => (hs.client.handshake.local.clone(), KeyPhaseBit::Zero),
            _ => c1.tx(),
        };
        let Ok(b) = build_g(cx, &spec, k, ph) else { return };
        datagram.extend_from_slice(&b.bytes);
        parts.push((spec, b));
    }
    let rx = Rx {
        dcid_len: dcid.len(),
        initial: Some(is.remote.clone()),
        zero_rtt: None,
        handshake: Some(hs.server.handshake.remote.clone()),
        one_rtt: Some((s1.hpk_remote.clone(), s1.pk.clone())),
    };
    // each space has its own pn context: decode each with its own expected
    let mut ok = 0;
    for (i, (spec, b)) in parts.iter().enumerate() {
        let outs = vcore::panics::catch(|| receive(&datagram, &rx, &Decoder::Expected(spec.expected))).unwrap_or_default();
        match outs.get(i) {
            Some(Outcome::Ok(p)) if p.ptype == spec.ptype && p.pn == spec.pn && p.body[..] == b.body[..] && p.dcid == spec.dcid => ok += 1,
            other => {
                cx.violation(
                    format!("C06.roundtrip.coalesced:{}", spec.ptype.name()),
                    format!("packet {i} ({}) of a coalesced datagram not recovered: {:?}", spec.ptype.name(), other.map(|o| format!("{o:?}").chars().take(200).collect::<String>())),
                    json!({"datagram": vcore::hex(&datagram)}),
                );
            }
        }
    }
    if ok == 3 {
        cx.rep.count("coalesced_datagrams_recovered");
        cx.rep.distinct(vcore::fnv_str(&format!("co|{}|{}|{}", dcid.len(), scid.len(), datagram.len())));
    }
}

fn run_case(rep: &mut Report, idx: u64, case_seed: u64, thorough: bool, strict_reserved: bool) {
    let mut rng = Rng::new(case_seed);
    let st = strata(idx);
    let hs = match pktkeys::handshake(st.suite) {
        Ok(h) => h,
        Err(e) => {
            rep.inconclusive(format!("rustls handshake failed: {e}"));
            return;
        }
    };
    rep.count("handshakes_completed");
    let mut cx = Ctx { st, rep, idx, case_seed, thorough, strict_reserved };
    // kinds: 0 Initial, 1 0-RTT, 2 Handshake, 3/4 1-RTT, and every 10th case a scenario
    match st.kind {
        9 => keyupdate_case(&mut cx, &mut rng, &hs),
        19 => coalesced_case(&mut cx, &mut rng, &hs),
        k => match k % 5 {
            0 => long_case(&mut cx, &mut rng, &hs, PType::Initial),
            1 => long_case(&mut cx, &mut rng, &hs, PType::ZeroRtt),
            2 => long_case(&mut cx, &mut rng, &hs, PType::Handshake),
            _ => short_case(&mut cx, &mut rng, &hs),
        },
    }
    rep.evaluations += 1;
}

fn case_seed(seed: u64, idx: u64) -> u64 {
    Rng::new(seed ^ 0xc06).fork(idx).next_u64()
}

pub fn run(args: &Args, rep: &mut Report) {
    rep.rule = "case = one connection (real rustls handshake) + one protected packet (or one key-update / coalescing scenario); \
                distinct = distinct (type, DCID len, SCID len, token len, pn width, body len, cipher suite, key phase, #updates, writer) shapes; \
                non-trivial = the packet round-tripped bit-exactly, its wire image was opened by the independent opener and a bit-flip campaign ran on it"
        .into();
    // a modified (hence unauthenticated) packet must be discarded, not turned into a connection error
    // (RFC 9000 §17.2: reserved bits are checked after removing packet protection); --lenient-reserved only counts
    let strict = !args.flag("lenient-reserved");
    if let Some(path) = args.get("replay") {
        let v: Value = serde_json::from_str(&std::fs::read_to_string(path).unwrap()).unwrap();
        let v = if v.get("replay").is_some() { v["replay"].clone() } else { v };
        run_case(rep, v["idx"].as_u64().unwrap(), v["case_seed"].as_u64().unwrap(), v["thorough"].as_bool().unwrap_or(false), strict);
        return;
    }
    let thorough = args.get("tier") == Some("thorough");
    let shard = args.u64("shard", 0);
    let shards = args.u64("shards", 1);
    let n = args.budget(if thorough { 8_000 } else { 3_500 });
    let seed = args.seed();
    // case indices are global: shard i runs idx = i, i+shards, ... so the stratification (type, CID lengths,
    // token lengths, widths) is covered jointly by all shards
    let mut idx = shard;
    let mut done = 0;
    while done < n {
        run_case(rep, idx, case_seed(seed, idx), thorough, strict);
        if done < 3 {
            rep.sample(json!({"idx": idx, "strata": format!("{:?}", strata(idx)), "violations_so_far": rep.n_violations()}));
        }
        idx += shards;
        done += 1;
    }
    rep.add("cases", n);
}
