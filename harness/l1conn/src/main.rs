//! l1conn: runtime monitors; usage: l1conn <property> --seed S --tier quick|thorough --shard i --shards n [--budget N] --out frag.json [--replay file]
mod c06;
mod c07;
mod c14;
mod c16;
mod pktkeys;

use vcore::{Args, Report};

fn main() {
    let args = Args::parse();
    let prop = args.pos.first().cloned().unwrap_or_default();
    vcore::panics::install(!args.flag("loud"));
    let mut rep = Report::new(&prop.to_uppercase(), args.seed());
    // a panic that escapes the monitor's own guards (e.g. out of a Drop of a library type) still yields a fragment
    vcore::guarded(&mut rep, &args, |rep| {
        match prop.as_str() {
            "c06" => c06::run(&args, rep),
            "c07" => c07::run(&args, rep),
            "c14" => c14::run(&args, rep),
            "c16" => c16::run(&args, rep),
            other => {
                eprintln!("unknown property {other}");
                std::process::exit(2);
            }
        }
    });
    rep.finish(args.get("out"));
}
