//! Real key material for the packet monitors (C06, C07): an in-memory rustls QUIC handshake
//! (client + server `rustls::quic::Connection`, ring provider, the repository's test
//! certificates) yields Handshake and 1-RTT keys + secrets; Initial keys come from
//! `Keys::initial` via the suite's `quic_suite()` exactly as `qconnection::builder` derives them.
use std::sync::Arc;

use qbase::packet::keys::{ArcOneRttKeys, DirectionalKeys, Keys};
use rustls::{
    ClientConfig, RootCertStore, ServerConfig, Side,
    crypto::CryptoProvider,
    pki_types::{CertificateDer, PrivateKeyDer, ServerName, pem::PemObject},
    quic::{ClientConnection, Connection, KeyChange, Secrets, ServerConnection, Suite, Version},
};

pub const KEYCHAIN: &str = "/repo/tests/keychain/localhost";

pub const SUITES: [(rustls::CipherSuite, &str); 3] = [
    (rustls::CipherSuite::TLS13_AES_128_GCM_SHA256, "aes128gcm"),
    (rustls::CipherSuite::TLS13_AES_256_GCM_SHA384, "aes256gcm"),
    (rustls::CipherSuite::TLS13_CHACHA20_POLY1305_SHA256, "chacha20poly1305"),
];

/// Keys of one endpoint after a completed handshake.
pub struct EndpointKeys {
    pub handshake: Keys,
    /// 1-RTT header keys + the updatable packet keys, the production container.
    pub one_rtt: ArcOneRttKeys,
    /// a copy of the 1-RTT secrets (for deriving next-generation keys independently)
    pub secrets: Secrets,
}

pub struct Handshaken {
    pub suite_name: &'static str,
    pub client: EndpointKeys,
    pub server: EndpointKeys,
    /// QUIC key-derivation of the negotiated suite (used for same-suite 0-RTT directional keys)
    pub quic_suite: Suite,
}

fn provider_with(suite: rustls::CipherSuite) -> Arc<CryptoProvider> {
    let mut p = rustls::crypto::ring::default_provider();
    p.cipher_suites.retain(|cs| cs.suite() == suite);
    Arc::new(p)
}

pub fn quic_suite_of(suite: rustls::CipherSuite) -> Suite {
    rustls::crypto::ring::default_provider()
        .cipher_suites
        .iter()
        .find_map(|cs| match (cs.suite() == suite, cs.tls13()) {
            (true, Some(s)) => s.quic_suite(),
            _ => None,
        })
        .expect("ring provider supports the suite for QUIC")
}

/// Initial keys, derived like `qconnection::builder::initial_keys_with`.
pub fn initial_keys(odcid: &[u8], side: Side) -> Keys {
    quic_suite_of(rustls::CipherSuite::TLS13_AES_128_GCM_SHA256)
        .keys(odcid, side, Version::V1)
        .into()
}

/// Same-suite directional keys from an arbitrary input secret (used for the 0-RTT packet type:
/// key derivation itself is rustls's business, the property is about the packet protection).
/// Returns (sender keys, receiver keys).
pub fn directional_pair(suite: &Suite, ikm: &[u8]) -> (DirectionalKeys, DirectionalKeys) {
    let c: Keys = suite.keys(ikm, Side::Client, Version::V1).into();
    let s: Keys = suite.keys(ikm, Side::Server, Version::V1).into();
    (c.local, s.remote)
}

struct Collected {
    hs: Option<rustls::quic::Keys>,
    one: Option<(rustls::quic::Keys, Secrets)>,
}

fn step(send: &mut Connection, recv: &mut Connection, got: &mut Collected) -> Result<bool, String> {
    let mut progressed = false;
    loop {
        let mut buf = Vec::new();
        let kc = send.write_hs(&mut buf);
        if !buf.is_empty() {
            recv.read_hs(&buf).map_err(|e| format!("read_hs: {e}"))?;
            progressed = true;
        }
        match kc {
            Some(KeyChange::Handshake { keys }) => {
                got.hs = Some(keys);
                progressed = true;
            }
            Some(KeyChange::OneRtt { keys, next }) => {
                got.one = Some((keys, next));
                progressed = true;
            }
            None => {
                if buf.is_empty() {
                    break;
                }
            }
        }
    }
    Ok(progressed)
}

/// Run a complete TLS 1.3 QUIC handshake in memory with the given cipher suite.
pub fn handshake(suite_idx: usize) -> Result<Handshaken, String> {
    let (suite, suite_name) = SUITES[suite_idx % SUITES.len()];
    let provider = provider_with(suite);
    let ca = CertificateDer::pem_file_iter(format!("{KEYCHAIN}/ca.cert"))
        .map_err(|e| format!("ca.cert: {e}"))?
        .collect::<Result<Vec<_>, _>>()
        .map_err(|e| format!("ca.cert: {e}"))?;
    let certs = CertificateDer::pem_file_iter(format!("{KEYCHAIN}/server.cert"))
        .map_err(|e| format!("server.cert: {e}"))?
        .collect::<Result<Vec<_>, _>>()
        .map_err(|e| format!("server.cert: {e}"))?;
    let key = PrivateKeyDer::from_pem_file(format!("{KEYCHAIN}/server.key")).map_err(|e| format!("server.key: {e}"))?;
    let mut roots = RootCertStore::empty();
    for c in ca {
        roots.add(c).map_err(|e| format!("root: {e}"))?;
    }
    let mut ccfg = ClientConfig::builder_with_provider(provider.clone())
        .with_protocol_versions(&[&rustls::version::TLS13])
        .map_err(|e| format!("client cfg: {e}"))?
        .with_root_certificates(roots)
        .with_no_client_auth();
    ccfg.alpn_protocols = vec![b"verif".to_vec()];
    let mut scfg = ServerConfig::builder_with_provider(provider)
        .with_protocol_versions(&[&rustls::version::TLS13])
        .map_err(|e| format!("server cfg: {e}"))?
        .with_no_client_auth()
        .with_single_cert(certs, key)
        .map_err(|e| format!("server cert: {e}"))?;
    scfg.alpn_protocols = vec![b"verif".to_vec()];
    let name = ServerName::try_from("localhost").map_err(|e| format!("name: {e}"))?;
    let mut client: Connection = ClientConnection::new(Arc::new(ccfg), Version::V1, name, vec![0x01, 0x01, 0x1e])
        .map_err(|e| format!("client conn: {e}"))?
        .into();
    let mut server: Connection = ServerConnection::new(Arc::new(scfg), Version::V1, vec![0x01, 0x01, 0x1e])
        .map_err(|e| format!("server conn: {e}"))?
        .into();
    let mut c = Collected { hs: None, one: None };
    let mut s = Collected { hs: None, one: None };
    for _ in 0..16 {
        let a = step(&mut client, &mut server, &mut c)?;
        let b = step(&mut server, &mut client, &mut s)?;
        if !a && !b {
            break;
        }
    }
    if client.is_handshaking() || server.is_handshaking() {
        return Err("handshake did not complete".into());
    }
    let fin = |c: Collected, who: &str| -> Result<EndpointKeys, String> {
        let hs = c.hs.ok_or(format!("{who}: no handshake keys"))?;
        let (one, secrets) = c.one.ok_or(format!("{who}: no 1-RTT keys"))?;
        let one_rtt = ArcOneRttKeys::new_pending();
        one_rtt.set_keys(one, secrets.clone());
        Ok(EndpointKeys { handshake: hs.into(), one_rtt, secrets })
    };
    Ok(Handshaken {
        suite_name,
        client: fin(c, "client")?,
        server: fin(s, "server")?,
        quic_suite: quic_suite_of(suite),
    })
}
