//! C16 protocols of qrecovery / qdatagram, all driven through the public `DataStreams`,
//! `CryptoStream` and `DatagramIncoming` APIs: open_bi/open_uni (stream-id limit and peer
//! parameters), Writer::{poll_write,poll_flush,poll_shutdown}, Reader::{poll_read,poll_next},
//! accept_bi/accept_uni, crypto stream reader/writer, DatagramReader::poll_recv.
use std::{
    pin::Pin,
    task::{Context, Poll},
};

use bytes::{BufMut, Bytes, BytesMut, buf::UninitSlice};
use qbase::{
    flow::ArcSendControler,
    frame::{
        CryptoFrame, DatagramFrame, Frame, MaxStreamDataFrame, MaxStreamsFrame, ResetStreamFrame, StopSendingFrame, StreamCtlFrame,
        StreamFrame, io::ReceiveFrame,
    },
    net::tx::ArcSendWakers,
    packet::io::RecordFrame,
    param::{ArcParameters, ServerParameters},
    role::Role,
    sid::{Dir, StreamId, handy::ConsistentConcurrency},
    util::ContinuousData,
    varint::VarInt,
};
use qdatagram::{DatagramIncoming, DatagramReader};
use qrecovery::{
    crypto::{CryptoStream, CryptoStreamReader, CryptoStreamWriter},
    recv::Reader,
    send::Writer,
    streams::{DataStreams, Ext},
};
use tokio::io::{AsyncRead, AsyncWrite, ReadBuf};

use super::{
    Applied, OpDef, Polled, ProtoDef, Sys, any_order, op,
    qb::{Sink, client_params, cid, conn_error, new_client_arc_params, poll_once, server_params},
};

/// Bounded packet payload that records the STREAM / CRYPTO frames written into it.
pub struct Target {
    buf: bytes::buf::Limit<BytesMut>,
    pub stream_frames: Vec<StreamFrame>,
    pub crypto_frames: Vec<CryptoFrame>,
}

impl Target {
    pub fn new(cap: usize) -> Self {
        Target { buf: BytesMut::with_capacity(cap).limit(cap), stream_frames: vec![], crypto_frames: vec![] }
    }
}

unsafe impl BufMut for Target {
    fn remaining_mut(&self) -> usize {
        self.buf.remaining_mut()
    }
    unsafe fn advance_mut(&mut self, cnt: usize) {
        unsafe { self.buf.advance_mut(cnt) }
    }
    fn chunk_mut(&mut self) -> &mut UninitSlice {
        self.buf.chunk_mut()
    }
}

impl<D: ContinuousData> RecordFrame<Frame<D>, D> for Target {
    fn record_frame(&mut self, frame: &Frame<D>) {
        match frame {
            Frame::Stream(f, _) => self.stream_frames.push(*f),
            Frame::Crypto(f, _) => self.crypto_frames.push(*f),
            _ => {}
        }
    }
}

fn pol<T>(p: Poll<T>, tag: impl FnOnce(T) -> String) -> Polled {
    match p {
        Poll::Pending => Polled::Pending,
        Poll::Ready(v) => Polled::Ready(tag(v)),
    }
}

fn vi(x: u64) -> VarInt {
    VarInt::from_u64(x).unwrap()
}

// ------------------------------------------------------------------------------------------------
// DataStreams
// ------------------------------------------------------------------------------------------------

#[derive(Clone, Copy, PartialEq, Eq, Debug)]
enum Kind {
    OpenBi,
    OpenUni,
    OpenBiEarly,
    Write,
    Flush,
    Shutdown,
    Read,
    Next,
    AcceptBi,
    AcceptUni,
    AcceptBiEarly,
}

const KINDS: [Kind; 11] = [
    Kind::OpenBi,
    Kind::OpenUni,
    Kind::OpenBiEarly,
    Kind::Write,
    Kind::Flush,
    Kind::Shutdown,
    Kind::Read,
    Kind::Next,
    Kind::AcceptBi,
    Kind::AcceptUni,
    Kind::AcceptBiEarly,
];

type R = Reader<Ext<Sink>>;
type W = Writer<Ext<Sink>>;

struct StreamSys {
    def: &'static ProtoDef,
    kind: Kind,
    ds: DataStreams<Sink>,
    params: ArcParameters,
    flow: ArcSendControler<Sink>,
    remote: ServerParameters,
    writer: Option<W>,
    reader: Option<R>,
    /// stream the reader/writer under test belongs to
    sid: Option<StreamId>,
    keep: Vec<(Option<R>, Option<W>)>,
    // sender side
    outstanding: Vec<StreamFrame>,
    max_stream_data: u64,
    // receiver side (what the simulated peer has sent so far)
    contig: u64,
    ooo: Option<(u64, u64)>,
    fin: Option<u64>,
    // stream ids
    max_streams: [u64; 2],
    next_peer: [u64; 2],
    params_done: bool,
}

fn noop_cx() -> Context<'static> {
    Context::from_waker(futures::task::noop_waker_ref())
}

impl StreamSys {
    fn handshake(&mut self) -> bool {
        if self.params_done {
            return false;
        }
        let Ok(mut g) = self.params.lock_guard() else {
            return false;
        };
        let a = g.recv_remote_params(self.remote.clone());
        let b = g.initial_scid_from_peer_need_equal(cid(b"c16-server"));
        assert!(a.is_ok() && b.is_ok(), "harness: consistent parameters were rejected");
        self.params_done = true;
        true
    }

    fn revise(&mut self) {
        self.ds.revise_params(false, &self.remote);
        self.max_streams = [self.max_streams[0].max(1), self.max_streams[1].max(1)];
    }

    fn peer_sid(&mut self, dir: Dir, skip: u64) -> StreamId {
        let i = dir as usize;
        let id = self.next_peer[i] + skip;
        self.next_peer[i] = id + 1;
        StreamId::new(Role::Server, dir, id)
    }

    fn data_frame(&self, off: u64, len: usize, fin: bool) -> (StreamFrame, Bytes) {
        let mut f = StreamFrame::new(self.sid.unwrap(), off, len);
        f.set_eos_flag(fin);
        (f, Bytes::from(vec![0x5a; len]))
    }
}

fn make_streams(def: &'static ProtoDef, _nw: usize) -> Result<Box<dyn Sys>, String> {
    let kind = KINDS[def.variant as usize];
    let local = client_params();
    let wakers = ArcSendWakers::new();
    let ds = DataStreams::new(
        Role::Client,
        &local,
        &ServerParameters::default(),
        Box::new(ConsistentConcurrency::new(100, 100)),
        Sink::default(),
        wakers.clone(),
        None,
    );
    let mut s = StreamSys {
        def,
        kind,
        ds,
        params: new_client_arc_params(),
        flow: ArcSendControler::new(1 << 20, Sink::default(), wakers),
        remote: server_params(),
        writer: None,
        reader: None,
        sid: None,
        keep: vec![],
        outstanding: vec![],
        max_stream_data: 10,
        contig: 0,
        ooo: None,
        fin: None,
        max_streams: [0, 0],
        next_peer: [0, 0],
        params_done: false,
    };
    let early = matches!(kind, Kind::OpenBiEarly | Kind::AcceptBiEarly);
    if !early {
        s.handshake();
        s.revise();
    }
    match kind {
        Kind::Write | Kind::Flush | Kind::Shutdown | Kind::Read => {
            let mut cx = noop_cx();
            match poll_once(s.ds.open_bi(&s.params), &mut cx) {
                Poll::Ready(Ok(Some((sid, (r, w))))) => {
                    s.sid = Some(sid);
                    s.reader = Some(r);
                    s.writer = Some(w);
                }
                _ => return Err("setup: open_bi did not return a stream".into()),
            }
            if matches!(kind, Kind::Flush | Kind::Shutdown) {
                s.writer.as_mut().unwrap().write(Bytes::from_static(b"abcdef")).map_err(|e| format!("setup write: {e}"))?;
            }
        }
        Kind::Next => {
            // a peer-initiated unidirectional stream, accepted during setup
            let sid = s.peer_sid(Dir::Uni, 0);
            s.sid = Some(sid);
            s.ds.recv_stream_control(StreamCtlFrame::StreamDataBlocked(qbase::frame::StreamDataBlockedFrame::new(sid, vi(0))))
                .map_err(|e| format!("setup: {e}"))?;
            let mut cx = noop_cx();
            match poll_once(s.ds.accept_uni(), &mut cx) {
                Poll::Ready(Ok((got, r))) if got == sid => s.reader = Some(r),
                _ => return Err("setup: accept_uni did not return the peer stream".into()),
            }
        }
        _ => {}
    }
    Ok(Box::new(s))
}

impl Sys for StreamSys {
    fn step(&mut self, _w: usize, cx: &mut Context<'_>) -> Polled {
        match self.kind {
            Kind::OpenBi | Kind::OpenBiEarly => match poll_once(self.ds.open_bi(&self.params), cx) {
                Poll::Pending => Polled::Pending,
                Poll::Ready(Ok(Some((sid, (r, w))))) => {
                    self.keep.push((Some(r), Some(w)));
                    Polled::Ready(format!("sid{}", sid.id()))
                }
                Poll::Ready(Ok(None)) => Polled::Ready("exhausted".into()),
                Poll::Ready(Err(_)) => Polled::Ready("error".into()),
            },
            Kind::OpenUni => match poll_once(self.ds.open_uni(&self.params), cx) {
                Poll::Pending => Polled::Pending,
                Poll::Ready(Ok(Some((sid, w)))) => {
                    self.keep.push((None, Some(w)));
                    Polled::Ready(format!("sid{}", sid.id()))
                }
                Poll::Ready(Ok(None)) => Polled::Ready("exhausted".into()),
                Poll::Ready(Err(_)) => Polled::Ready("error".into()),
            },
            Kind::Write => pol(self.writer.as_mut().unwrap().poll_write(cx, Bytes::from_static(b"abcdef")), |r| match r {
                Ok(()) => "ok".into(),
                Err(e) => format!("err:{}", short(&e.to_string())),
            }),
            Kind::Flush => pol(self.writer.as_mut().unwrap().poll_flush(cx), |r| if r.is_ok() { "ok".into() } else { "err".into() }),
            Kind::Shutdown => pol(self.writer.as_mut().unwrap().poll_shutdown(cx), |r| if r.is_ok() { "ok".into() } else { "err".into() }),
            Kind::Read => {
                let mut buf = BytesMut::with_capacity(4).limit(4);
                pol(self.reader.as_mut().unwrap().poll_read(cx, &mut buf), |r| match r {
                    Ok(()) => format!("n{}", buf.get_ref().len()),
                    Err(_) => "err".into(),
                })
            }
            Kind::Next => pol(Pin::new(self.reader.as_mut().unwrap()).poll_next(cx), |r| match r {
                Some(Ok(b)) => format!("n{}", b.len()),
                Some(Err(_)) => "err".into(),
                None => "eof".into(),
            }),
            Kind::AcceptBi | Kind::AcceptBiEarly => match poll_once(self.ds.accept_bi(&self.params), cx) {
                Poll::Pending => Polled::Pending,
                Poll::Ready(Ok((sid, (r, w)))) => {
                    self.keep.push((Some(r), Some(w)));
                    Polled::Ready(format!("sid{}", sid.id()))
                }
                Poll::Ready(Err(_)) => Polled::Ready("error".into()),
            },
            Kind::AcceptUni => match poll_once(self.ds.accept_uni(), cx) {
                Poll::Pending => Polled::Pending,
                Poll::Ready(Ok((sid, r))) => {
                    self.keep.push((Some(r), None));
                    Polled::Ready(format!("sid{}", sid.id()))
                }
                Poll::Ready(Err(_)) => Polled::Ready("error".into()),
            },
        }
    }

    fn apply(&mut self, op: usize) -> Applied {
        let ok = |r: Result<usize, qbase::error::QuicError>| {
            r.unwrap_or_else(|e| panic!("harness: a well-formed frame was rejected: {e}"));
            Applied::Done
        };
        match self.def.ops[op].name {
            "remote_params" => {
                if self.handshake() {
                    Applied::Done
                } else {
                    Applied::Noop
                }
            }
            "revise" => {
                self.revise();
                Applied::Done
            }
            n @ ("max_streams_bi+1" | "max_streams_uni+1") => {
                let dir = if n.contains("bi") { Dir::Bi } else { Dir::Uni };
                let i = dir as usize;
                self.max_streams[i] += 1;
                ok(self.ds.recv_stream_control(StreamCtlFrame::MaxStreams(MaxStreamsFrame::with(dir, vi(self.max_streams[i])))))
            }
            n @ ("window+10" | "window+1") => {
                self.max_stream_data += if n == "window+10" { 10 } else { 1 };
                ok(self.ds.recv_stream_control(StreamCtlFrame::MaxStreamData(MaxStreamDataFrame::new(self.sid.unwrap(), vi(self.max_stream_data)))))
            }
            "xmit" => {
                let mut t = Target::new(1200);
                let _ = self.ds.try_load_data_into(&mut t, &self.flow, false);
                if t.stream_frames.is_empty() {
                    return Applied::Noop;
                }
                self.outstanding.extend(t.stream_frames);
                Applied::Done
            }
            "ack" => {
                if self.outstanding.is_empty() {
                    return Applied::Noop;
                }
                for f in self.outstanding.drain(..) {
                    self.ds.on_data_acked(f);
                }
                Applied::Done
            }
            "lose" => {
                if self.outstanding.is_empty() {
                    return Applied::Noop;
                }
                for f in self.outstanding.drain(..) {
                    self.ds.may_loss_data(&f);
                }
                Applied::Done
            }
            "stop_sending" => {
                let r = self.ds.recv_stream_control(StreamCtlFrame::StopSending(StopSendingFrame::new(self.sid.unwrap(), vi(7))));
                r.unwrap_or_else(|e| panic!("harness: STOP_SENDING rejected: {e}"));
                Applied::Closed(0xff)
            }
            "conn_error" => {
                // production order (Components::enter_closing / enter_draining)
                let e = conn_error();
                self.ds.on_conn_error(&e);
                self.params.on_conn_error(&e);
                Applied::Closed(0xff)
            }
            "data" => {
                if self.fin.is_some_and(|f| self.contig >= f) {
                    return Applied::Noop;
                }
                let fr = self.data_frame(self.contig, 3, false);
                self.contig += 3;
                if let Some((s, e)) = self.ooo {
                    if s == self.contig {
                        self.contig = e;
                        self.ooo = None;
                    }
                }
                ok(self.ds.recv_data(fr))
            }
            "ooo" => {
                if self.ooo.is_some() || self.fin.is_some() {
                    return Applied::Noop;
                }
                let fr = self.data_frame(self.contig + 3, 3, false);
                self.ooo = Some((self.contig + 3, self.contig + 6));
                ok(self.ds.recv_data(fr))
            }
            "fin" => {
                if self.fin.is_some() {
                    return Applied::Noop;
                }
                let end = self.ooo.map(|(_, e)| e).unwrap_or(self.contig);
                self.fin = Some(end);
                ok(self.ds.recv_data(self.data_frame(end, 0, true)))
            }
            "reset" => {
                let end = self.fin.unwrap_or(self.ooo.map(|(_, e)| e).unwrap_or(self.contig));
                ok(self.ds.recv_stream_control(StreamCtlFrame::ResetStream(ResetStreamFrame::new(self.sid.unwrap(), vi(9), vi(end)))));
                Applied::Closed(0xff)
            }
            n @ ("peer_bi" | "peer_bi_skip" | "peer_uni") => {
                let dir = if n == "peer_uni" { Dir::Uni } else { Dir::Bi };
                let sid = self.peer_sid(dir, if n == "peer_bi_skip" { 1 } else { 0 });
                ok(self.ds.recv_data((StreamFrame::new(sid, 0, 1), Bytes::from_static(b"x"))))
            }
            "peer_bi_ctl" => {
                let sid = self.peer_sid(Dir::Bi, 0);
                ok(self.ds.recv_stream_control(StreamCtlFrame::MaxStreamData(MaxStreamDataFrame::new(sid, vi(100)))))
            }
            other => unreachable!("unknown op {other}"),
        }
    }
}

fn short(s: &str) -> String {
    s.split_whitespace().next().unwrap_or("").chars().take(12).collect()
}

static OPEN_BI_OPS: [OpDef; 3] = [op("max_streams_bi+1"), op("max_streams_uni+1"), op("conn_error")];
static OPEN_UNI_OPS: [OpDef; 3] = [op("max_streams_uni+1"), op("max_streams_bi+1"), op("conn_error")];
static OPEN_EARLY_OPS: [OpDef; 4] = [op("remote_params"), op("revise"), op("max_streams_bi+1"), op("conn_error")];
static WRITE_OPS: [OpDef; 6] = [op("window+10"), op("window+1"), op("xmit"), op("ack"), op("stop_sending"), op("conn_error")];
static FLUSH_OPS: [OpDef; 6] = [op("xmit"), op("ack"), op("lose"), op("window+10"), op("stop_sending"), op("conn_error")];
static READ_OPS: [OpDef; 6] = [op("data"), op("ooo"), op("fin"), op("reset"), op("conn_error"), op("window+1")];
static NEXT_OPS: [OpDef; 5] = [op("data"), op("ooo"), op("fin"), op("reset"), op("conn_error")];
static ACCEPT_BI_OPS: [OpDef; 5] = [op("peer_bi"), op("peer_bi_skip"), op("peer_bi_ctl"), op("peer_uni"), op("conn_error")];
static ACCEPT_UNI_OPS: [OpDef; 3] = [op("peer_uni"), op("peer_bi"), op("conn_error")];
static ACCEPT_EARLY_OPS: [OpDef; 3] = [op("remote_params"), op("peer_bi"), op("conn_error")];

fn index_of(ops: &[OpDef], name: &str) -> u8 {
    ops.iter().position(|o| o.name == name).unwrap() as u8
}

/// STOP_SENDING / RESET_STREAM for a stream are processed once; nothing is a precondition for
/// conn_error (may happen any time, also twice: the second call finds the Err state and returns).
fn once(ops: &'static [OpDef], names: &[&str], done: &[u8], next: u8) -> bool {
    for n in names {
        let i = index_of(ops, n);
        if next == i && done.contains(&i) {
            return false;
        }
    }
    true
}

fn write_legal(done: &[u8], next: u8) -> bool {
    once(&WRITE_OPS, &["stop_sending"], done, next)
}
fn flush_legal(done: &[u8], next: u8) -> bool {
    once(&FLUSH_OPS, &["stop_sending"], done, next)
}
fn read_legal(done: &[u8], next: u8) -> bool {
    // `window+1` in the reader protocol is MAX_STREAM_DATA for the *sending* half of the same
    // bidirectional stream: unrelated to the reader, must not disturb it
    once(&READ_OPS, &["reset"], done, next)
}
fn next_legal(done: &[u8], next: u8) -> bool {
    once(&NEXT_OPS, &["reset"], done, next)
}
/// peer parameters first, then the handshake-complete revision, only then 1-RTT frames (MAX_STREAMS)
fn open_early_legal(done: &[u8], next: u8) -> bool {
    match next {
        0 => !done.contains(&0),
        1 => done.contains(&0) && !done.contains(&1),
        2 => done.contains(&1),
        _ => true,
    }
}
fn accept_early_legal(done: &[u8], next: u8) -> bool {
    match next {
        0 => !done.contains(&0),
        _ => true,
    }
}

// ------------------------------------------------------------------------------------------------
// crypto stream
// ------------------------------------------------------------------------------------------------

struct CryptoSys {
    def: &'static ProtoDef,
    stream: CryptoStream,
    reader: CryptoStreamReader,
    writer: CryptoStreamWriter,
    outstanding: Vec<CryptoFrame>,
    contig: u64,
    ooo: Option<(u64, u64)>,
}

static CRYPTO_READ_OPS: [OpDef; 2] = [op("data"), op("ooo")];
static CRYPTO_FLUSH_OPS: [OpDef; 3] = [op("xmit"), op("ack"), op("lose")];

fn make_crypto(def: &'static ProtoDef, _nw: usize) -> Result<Box<dyn Sys>, String> {
    let stream = CryptoStream::new(ArcSendWakers::new());
    let mut s = CryptoSys { def, reader: stream.reader(), writer: stream.writer(), stream, outstanding: vec![], contig: 0, ooo: None };
    if def.variant == 1 {
        let mut cx = noop_cx();
        match Pin::new(&mut s.writer).poll_write(&mut cx, b"hello") {
            Poll::Ready(Ok(5)) => {}
            _ => return Err("setup: crypto write".into()),
        }
    }
    Ok(Box::new(s))
}

impl Sys for CryptoSys {
    fn step(&mut self, _w: usize, cx: &mut Context<'_>) -> Polled {
        if self.def.variant == 0 {
            let mut space = [0u8; 4];
            let mut rb = ReadBuf::new(&mut space);
            pol(Pin::new(&mut self.reader).poll_read(cx, &mut rb), |r| match r {
                Ok(()) => format!("n{}", rb.filled().len()),
                Err(_) => "err".into(),
            })
        } else {
            pol(Pin::new(&mut self.writer).poll_flush(cx), |r| if r.is_ok() { "ok".into() } else { "err".into() })
        }
    }
    fn apply(&mut self, op: usize) -> Applied {
        match self.def.ops[op].name {
            "data" => {
                let f = (CryptoFrame::new(vi(self.contig), vi(3)), Bytes::from_static(b"abc"));
                self.contig += 3;
                if let Some((s, e)) = self.ooo {
                    if s == self.contig {
                        self.contig = e;
                        self.ooo = None;
                    }
                }
                self.stream.incoming().recv_frame(f).unwrap();
                Applied::Done
            }
            "ooo" => {
                if self.ooo.is_some() {
                    return Applied::Noop;
                }
                self.ooo = Some((self.contig + 3, self.contig + 6));
                self.stream.incoming().recv_frame((CryptoFrame::new(vi(self.contig + 3), vi(3)), Bytes::from_static(b"def"))).unwrap();
                Applied::Done
            }
            "xmit" => {
                let mut t = Target::new(1200);
                let _ = self.stream.outgoing().try_load_data_into(&mut t, false);
                if t.crypto_frames.is_empty() {
                    return Applied::Noop;
                }
                self.outstanding.extend(t.crypto_frames);
                Applied::Done
            }
            "ack" => {
                if self.outstanding.is_empty() {
                    return Applied::Noop;
                }
                for f in self.outstanding.drain(..) {
                    self.stream.outgoing().on_data_acked(&f);
                }
                Applied::Done
            }
            "lose" => {
                if self.outstanding.is_empty() {
                    return Applied::Noop;
                }
                for f in self.outstanding.drain(..) {
                    self.stream.outgoing().may_loss_data(&f);
                }
                Applied::Done
            }
            other => unreachable!("unknown op {other}"),
        }
    }
}

// ------------------------------------------------------------------------------------------------
// datagrams
// ------------------------------------------------------------------------------------------------

struct DatagramSys {
    def: &'static ProtoDef,
    incoming: DatagramIncoming,
    readers: Vec<DatagramReader>,
}

static DATAGRAM_OPS: [OpDef; 2] = [op("recv_datagram"), op("on_conn_error")];

fn make_datagram(def: &'static ProtoDef, nw: usize) -> Result<Box<dyn Sys>, String> {
    let incoming = DatagramIncoming::new(1200);
    let readers = (0..nw).map(|_| incoming.new_reader().map_err(|e| e.to_string())).collect::<Result<Vec<_>, _>>()?;
    Ok(Box::new(DatagramSys { def, incoming, readers }))
}

impl Sys for DatagramSys {
    fn step(&mut self, w: usize, cx: &mut Context<'_>) -> Polled {
        pol(self.readers[w].poll_recv(cx), |r| match r {
            Ok(b) => format!("n{}", b.len()),
            Err(_) => "err".into(),
        })
    }
    fn apply(&mut self, op: usize) -> Applied {
        match self.def.ops[op].name {
            "recv_datagram" => match self.incoming.recv_datagram(DatagramFrame::new(true, vi(5)), Bytes::from_static(b"hello")) {
                Ok(()) => Applied::Done,
                Err(_) => Applied::Noop, // after a connection error
            },
            "on_conn_error" => {
                self.incoming.on_conn_error(&conn_error());
                Applied::Closed(0xff)
            }
            other => unreachable!("unknown op {other}"),
        }
    }
}

macro_rules! def {
    ($name:expr, $w:expr, $ops:expr, $legal:expr, $make:expr, $variant:expr) => {
        ProtoDef { name: $name, max_waiters: $w, ops: &$ops, legal: $legal, make: $make, drop_in_exhaustive: false, variant: $variant }
    };
}

pub static PROTOS: [ProtoDef; 14] = [
    def!("open_bi", 2, OPEN_BI_OPS, any_order, make_streams, 0),
    def!("open_uni", 1, OPEN_UNI_OPS, any_order, make_streams, 1),
    def!("open_bi.early", 2, OPEN_EARLY_OPS, open_early_legal, make_streams, 2),
    def!("writer.write", 1, WRITE_OPS, write_legal, make_streams, 3),
    def!("writer.flush", 1, FLUSH_OPS, flush_legal, make_streams, 4),
    def!("writer.shutdown", 1, FLUSH_OPS, flush_legal, make_streams, 5),
    def!("reader.read", 1, READ_OPS, read_legal, make_streams, 6),
    def!("reader.next", 1, NEXT_OPS, next_legal, make_streams, 7),
    def!("accept_bi", 2, ACCEPT_BI_OPS, any_order, make_streams, 8),
    def!("accept_uni", 2, ACCEPT_UNI_OPS, any_order, make_streams, 9),
    def!("accept_bi.early", 1, ACCEPT_EARLY_OPS, accept_early_legal, make_streams, 10),
    def!("crypto.reader", 1, CRYPTO_READ_OPS, any_order, make_crypto, 0),
    def!("crypto.writer.flush", 1, CRYPTO_FLUSH_OPS, any_order, make_crypto, 1),
    def!("datagram.recv", 2, DATAGRAM_OPS, any_order, make_datagram, 0),
];
