//! C16 real-thread leg: waiter and notifier on two OS threads for the lock-free `AntiAmplifier`
//! (+ `SendWaker`) and for `SendWaker` alone.
//!
//! Verdict is logical, not temporal: after the notifier thread has been *joined* no further wake can
//! be issued.  If the waiter then is parked after a `Pending` poll and its waker's invocation count
//! still equals the count it read before that poll, it will sleep forever; the probe (`balance()` /
//! a fresh `wait_for` poll from the main thread) tells whether the condition it sleeps on is
//! satisfied.  Satisfied ⇒ `C16.lost-wakeup:<protocol>.threads`.  A waiter that neither finishes nor
//! reaches that state within the watchdog is *inconclusive*.
use std::{
    sync::{
        Arc,
        atomic::{AtomicBool, AtomicUsize, Ordering::SeqCst},
    },
    task::{Context, Poll, Wake, Waker},
    thread::Thread,
    time::{Duration, Instant},
};

use qbase::net::tx::{ArcSendWaker, ArcSendWakers, Signals};
use qconnection::path::AntiAmplifier;
use serde_json::{Value, json};
use vcore::{Args, Report, Rng};

use super::qb::{pathway, poll_once};

struct Shared {
    wakes: AtomicUsize,
    /// 0 = not parked; c+1 = parked after a Pending poll, wake count before that poll was c
    asleep_at: AtomicUsize,
    give_up: AtomicBool,
    notifier_done: AtomicBool,
    /// 0 = running, 1 = done, 2 = gave up while parked
    waiter_end: AtomicUsize,
    /// how often the waiter parked after a Pending poll
    parks: AtomicUsize,
    /// rendezvous: both threads spin until both arrived, then apply their seeded delays
    arrived: AtomicUsize,
}

struct ThreadWaker {
    shared: Arc<Shared>,
    thread: Thread,
}

impl Wake for ThreadWaker {
    fn wake(self: Arc<Self>) {
        self.wake_by_ref();
    }
    fn wake_by_ref(self: &Arc<Self>) {
        self.shared.wakes.fetch_add(1, SeqCst);
        self.thread.unpark();
    }
}

#[inline(never)]
fn spin(n: u64) {
    for i in 0..n {
        std::hint::black_box(i);
        std::hint::spin_loop();
    }
}

fn rendezvous(shared: &Shared) {
    shared.arrived.fetch_add(1, SeqCst);
    let mut guard = 0u64;
    while shared.arrived.load(SeqCst) < 2 && guard < 200_000_000 {
        std::hint::spin_loop();
        guard += 1;
    }
}

type Check = Arc<dyn Fn() -> Result<(), Signals> + Send + Sync>;
type Job = Box<dyn FnOnce() + Send>;

/// The production waiter loop: `loop { match check() { Ok => return, Err(s) => tx_waker.wait_for(s).await } }`
fn waiter_loop(shared: &Arc<Shared>, waker: &ArcSendWaker, check: &Check, delay: u64) -> usize {
    let tw = Arc::new(ThreadWaker { shared: shared.clone(), thread: std::thread::current() });
    let w = Waker::from(tw);
    let mut cx = Context::from_waker(&w);
    rendezvous(shared);
    spin(delay);
    loop {
        let sig = match check() {
            Ok(()) => return 1,
            Err(s) => s,
        };
        loop {
            let c0 = shared.wakes.load(SeqCst);
            match poll_once(waker.wait_for(sig), &mut cx) {
                Poll::Ready(()) => break,
                Poll::Pending => {
                    shared.asleep_at.store(c0 + 1, SeqCst);
                    shared.parks.fetch_add(1, SeqCst);
                    loop {
                        if shared.wakes.load(SeqCst) != c0 {
                            break;
                        }
                        if shared.give_up.load(SeqCst) {
                            return 2;
                        }
                        std::thread::park_timeout(Duration::from_millis(1));
                    }
                    shared.asleep_at.store(0, SeqCst);
                }
            }
        }
    }
}

/// two long-lived OS threads (waiter, notifier) fed with one job each per iteration
pub struct Pool {
    tx: [std::sync::mpsc::Sender<Job>; 2],
    handles: Vec<std::thread::JoinHandle<()>>,
}

impl Pool {
    pub fn new() -> Self {
        let mut txs = vec![];
        let mut handles = vec![];
        for name in ["c16-waiter", "c16-notifier"] {
            let (tx, rx) = std::sync::mpsc::channel::<Job>();
            txs.push(tx);
            handles.push(
                std::thread::Builder::new()
                    .name(name.into())
                    .spawn(move || {
                        for job in rx {
                            job();
                        }
                    })
                    .expect("spawn"),
            );
        }
        let b = txs.pop().unwrap();
        let a = txs.pop().unwrap();
        Pool { tx: [a, b], handles }
    }
}

impl Drop for Pool {
    fn drop(&mut self) {
        let (a, _) = std::sync::mpsc::channel::<Job>();
        let (b, _) = std::sync::mpsc::channel::<Job>();
        self.tx = [a, b];
        for h in self.handles.drain(..) {
            let _ = h.join();
        }
    }
}

enum IterEnd {
    Finished,
    /// waiter parked for ever; bool = probe says the condition is satisfied
    Asleep(bool),
    Watchdog,
}

fn one_iteration(pool: &Pool, waker: &ArcSendWaker, check: Check, notifier: Job, probe: &dyn Fn() -> bool, delays: (u64, u64)) -> (IterEnd, usize, usize) {
    let (end, shared) = one_iteration_inner(pool, waker, check, notifier, probe, delays);
    (end, shared.parks.load(SeqCst), shared.wakes.load(SeqCst))
}

fn one_iteration_inner(pool: &Pool, waker: &ArcSendWaker, check: Check, notifier: Job, probe: &dyn Fn() -> bool, delays: (u64, u64)) -> (IterEnd, Arc<Shared>) {
    let shared = Arc::new(Shared {
        wakes: AtomicUsize::new(0),
        asleep_at: AtomicUsize::new(0),
        give_up: AtomicBool::new(false),
        notifier_done: AtomicBool::new(false),
        waiter_end: AtomicUsize::new(0),
        parks: AtomicUsize::new(0),
        arrived: AtomicUsize::new(0),
    });
    {
        let shared = shared.clone();
        let waker = waker.clone();
        pool.tx[0]
            .send(Box::new(move || {
                let end = waiter_loop(&shared, &waker, &check, delays.0);
                shared.waiter_end.store(end, SeqCst);
            }))
            .expect("waiter thread alive");
    }
    {
        let shared = shared.clone();
        pool.tx[1]
            .send(Box::new(move || {
                rendezvous(&shared);
                spin(delays.1);
                notifier();
                shared.notifier_done.store(true, SeqCst);
            }))
            .expect("notifier thread alive");
    }
    let t0 = Instant::now();
    let mut stable = 0u32;
    let mut spins = 0u64;
    loop {
        let done = shared.notifier_done.load(SeqCst);
        match shared.waiter_end.load(SeqCst) {
            1 if done => return (IterEnd::Finished, shared),
            2 => return (IterEnd::Watchdog, shared),
            _ => {}
        }
        // only after the notifier finished: no wake can be issued from now on
        let a = shared.asleep_at.load(SeqCst);
        if done && a != 0 && shared.wakes.load(SeqCst) == a - 1 {
            stable += 1;
            if stable >= 3 {
                // parked, waker not invoked since before its last Pending poll, notifier finished
                let satisfied = probe();
                shared.give_up.store(true, SeqCst);
                while shared.waiter_end.load(SeqCst) == 0 {
                    std::thread::yield_now();
                }
                let e = if shared.waiter_end.load(SeqCst) == 2 { IterEnd::Asleep(satisfied) } else { IterEnd::Finished };
                return (e, shared);
            }
        } else {
            stable = 0;
        }
        spins += 1;
        if spins % 1024 == 0 && t0.elapsed() > Duration::from_secs(20) {
            shared.give_up.store(true, SeqCst);
            let t1 = Instant::now();
            while shared.waiter_end.load(SeqCst) == 0 && t1.elapsed() < Duration::from_secs(5) {
                std::thread::yield_now();
            }
            return (IterEnd::Watchdog, shared);
        }
        std::thread::yield_now();
    }
}

fn book(rep: &mut Report, proto: &str, (end, parks, wakes): (IterEnd, usize, usize), seed: u64, i: u64, detail: String) {
    rep.evaluations += 1;
    if parks > 0 {
        rep.add(&format!("threads.{proto}.waiter_parked"), 1);
        rep.distinct(vcore::fnv_str(&format!("{proto}|{detail}")));
    }
    rep.add(&format!("threads.{proto}.wakes_observed"), wakes as u64);
    rep.add(&format!("threads.{proto}.iterations"), 1);
    match end {
        IterEnd::Finished => rep.add(&format!("threads.{proto}.finished"), 1),
        IterEnd::Asleep(false) => rep.add(&format!("threads.{proto}.asleep_condition_unsatisfied"), 1),
        IterEnd::Asleep(true) => {
            rep.violation(
                format!("C16.lost-wakeup:{proto}.threads"),
                format!("real-thread iteration {i}: the notifier thread finished, the waiter is parked after a Pending poll, its waker was not invoked since, and the probe says the condition is satisfied ({detail})"),
                json!({"kind": "c16", "leg": "threads", "proto": proto, "seed": seed, "iterations": i + 1}),
            );
        }
        IterEnd::Watchdog => {
            rep.add(&format!("threads.{proto}.watchdog"), 1);
            rep.inconclusive(format!("threads.{proto}: iteration {i} neither finished nor reached a stable parked state within 20 s ({detail})"));
        }
    }
}

/// `n` iterations of the anti-amplification waiter against a notifier thread (reusable with small
/// `n` under Miri).
pub fn aa_iterations(n: u64, seed: u64, rep: &mut Report) {
    let pool = Pool::new();
    let mut rng = Rng::new(seed ^ 0xaa16);
    for i in 0..n {
        let waker = ArcSendWaker::new();
        let aa: Arc<AntiAmplifier> = Arc::new(AntiAmplifier::new(waker.clone()));
        // notifier plan: 1..=2 ops, at most one of grant/abort
        let mut ops: Vec<u8> = vec![];
        let k = rng.range(1, 2);
        for _ in 0..k {
            let o = rng.below(4) as u8;
            if o >= 2 && ops.iter().any(|&x| x >= 2) {
                ops.push(0);
            } else {
                ops.push(o);
            }
        }
        let delays = (rng.below(120), if rng.below(4) > 0 { rng.below(120) } else { rng.below(1500) });
        let detail = format!("notifier ops {ops:?} (0/1 = on_rcvd, 2 = grant, 3 = abort), spin delays {delays:?}");
        let check: Check = {
            let aa = aa.clone();
            Arc::new(move || aa.balance().map(|_| ()))
        };
        let notifier: Job = {
            let aa = aa.clone();
            Box::new(move || {
                for o in ops {
                    match o {
                        0 => aa.on_rcvd(1200),
                        1 => aa.on_rcvd(1),
                        2 => aa.grant(),
                        _ => aa.abort(),
                    }
                    spin(13);
                }
            })
        };
        let probe = || aa.balance().is_ok();
        let end = one_iteration(&pool, &waker, check, notifier, &probe, delays);
        book(rep, "aa", end, seed, i, detail);
    }
}

/// `n` iterations of a bare `SendWaker` waiter against `ArcSendWakers::wake_all_by` on another thread.
pub fn sendwaker_iterations(n: u64, seed: u64, rep: &mut Report) {
    let pool = Pool::new();
    let mut rng = Rng::new(seed ^ 0x5e16);
    const SIGS: [Signals; 4] = [Signals::TRANSPORT, Signals::CONGESTION, Signals::FLOW_CONTROL, Signals::CREDIT];
    for i in 0..n {
        let waker = ArcSendWaker::new();
        let wakers = ArcSendWakers::new();
        wakers.insert(pathway(0), &waker);
        let mut want = *rng.pick(&SIGS);
        if rng.bool() {
            want |= *rng.pick(&SIGS);
        }
        let k = rng.range(1, 3);
        let sent: Vec<Signals> = (0..k).map(|_| *rng.pick(&SIGS)).collect();
        let delays = (rng.below(120), if rng.below(4) > 0 { rng.below(120) } else { rng.below(1500) });
        let detail = format!("waits for {:#x}, notifier wakes by {:?}, spin delays {delays:?}", want.bits(), sent.iter().map(|s| s.bits()).collect::<Vec<_>>());
        let satisfiable = sent.iter().any(|s| s.intersects(want));
        // the waiter's "condition" is one completed wait
        let waited = Arc::new(AtomicBool::new(false));
        let check: Check = {
            let waited = waited.clone();
            Arc::new(move || if waited.swap(true, SeqCst) { Ok(()) } else { Err(want) })
        };
        let notifier: Job = {
            let wakers = wakers.clone();
            Box::new(move || {
                for s in sent {
                    wakers.wake_all_by(s);
                    spin(7);
                }
            })
        };
        let probe = || {
            let mut cx = Context::from_waker(futures::task::noop_waker_ref());
            poll_once(waker.wait_for(want), &mut cx).is_ready()
        };
        let end = one_iteration(&pool, &waker, check, notifier, &probe, delays);
        if matches!(end.0, IterEnd::Finished) && !satisfiable {
            // finished although no awaited signal was sent: cannot happen with a correct harness
            rep.inconclusive(format!("threads.sendwaker: iteration {i} finished without an awaited signal ({detail})"));
        }
        if satisfiable {
            rep.count("threads.sendwaker.satisfiable");
            if matches!(end.0, IterEnd::Asleep(false)) {
                rep.violation(
                    "C16.lost-notification:sendwaker.threads",
                    format!("real-thread iteration {i}: an awaited signal was raised by the (joined) notifier thread, yet the waiter is parked, un-woken, and a probe poll is Pending ({detail})"),
                    json!({"kind": "c16", "leg": "threads", "proto": "sendwaker", "seed": seed, "iterations": i + 1}),
                );
            }
        }
        book(rep, "sendwaker", end, seed, i, detail);
    }
}

pub fn run(args: &Args, rep: &mut Report, thorough: bool, shard: u64) {
    rep.rule = "real-thread iteration = fresh AntiAmplifier+SendWaker (or SendWaker), waiter loop on one OS thread, 1-3 \
                notifier ops on another with seeded spin delays; verdict from wake counts after the notifier was joined"
        .into();
    let n = args.budget(if thorough { 25_000 } else { 1_500 });
    let seed = Rng::new(args.seed() ^ 0x7c16).fork(shard).next_u64();
    aa_iterations(n, seed, rep);
    sendwaker_iterations(n, seed, rep);
}

pub fn replay(v: &Value, rep: &mut Report) {
    let n = v["iterations"].as_u64().unwrap_or(1000);
    let seed = v["seed"].as_u64().unwrap_or(1);
    match v["proto"].as_str() {
        Some("aa") => aa_iterations(n, seed, rep),
        Some("sendwaker") => sendwaker_iterations(n, seed, rep),
        other => rep.inconclusive(format!("threads replay: unknown protocol {other:?}")),
    }
}
