//! C07 monitor (not built yet)
use vcore::{Args, Report};

pub fn run(_args: &Args, rep: &mut Report) {
    rep.inconclusive("monitor not built yet");
}
