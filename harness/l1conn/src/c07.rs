//! C07 — packet numbers are never reused and always decode to the number sent.
//!
//! (a) Ledger over real assemblies: histories over `ArcSentJournal::new_packet()` guards driven through
//!     `qconnection::tx::{PacketWriter,TrivialPacketWriter}` with real keys, exactly in the shape of
//!     `PacketsAssembler::assemble` / `assemble_closing_packet` (new writer -> `assemble_packet(Packages((sources, PadTo20)))`
//!     -> on Err drop the writer, on Ok `encrypt_and_protect_packet`), interleaved with `rotate()` ack / loss /
//!     fast-retransmit operations, virtual-time advances (expiry in `resize`), two paths with different timeouts
//!     alternating on the journals.  Oracle: per space the pn of *built* packets is strictly increasing; the
//!     nonce actually used on the wire (checked by opening the packet with rustls keys) is that pn; the truncated
//!     pn on the wire reconstructs to pn for a receiver at largest-acked+1 and at pn.
//! (b) Pure sweep of `PacketNumber::encode` -> wire bytes -> `take_pn_len` -> `decode(expected)`.
use bytes::{BufMut, Bytes};
use qbase::{
    cid::ConnectionId,
    error::ErrorKind,
    frame::{
        AckFrame, ConnectionCloseFrame, CryptoFrame, Frame, FrameType, MaxDataFrame, PaddingFrame, PathChallengeFrame, PingFrame, StreamFrame,
    },
    net::tx::Signals,
    packet::{
        AssemblePacket, Package, PacketContent, PacketNumber, RecordFrame, WritePacketNumber,
        header::{LongHeaderBuilder, OneRttHeader},
        io::{Packages, PadTo20},
        keys::DirectionalKeys,
        signal::{KeyPhaseBit, SpinBit},
        take_pn_len,
    },
    util::{NonData, WriteData},
    varint::VarInt,
};
use qconnection::{
    GuaranteedFrame,
    tx::{PacketWriter, TrivialPacketWriter},
};
use qrecovery::journal::ArcSentJournal;
use serde_json::{Value, json};
use std::time::Duration;
use vcore::{Args, Report, Rng};

use crate::{
    c06::{PType, payload_offset, ref_open},
    pktkeys,
};

// ---------------------------------------------------------------------------------------------
// (b) pure encode/decode sweep
// ---------------------------------------------------------------------------------------------

fn wire_decode(pn: u64, acked: u64, expected: u64) -> (u64, usize) {
    let enc = PacketNumber::encode(pn, acked);
    let mut buf = [0u8; 4];
    let mut w = &mut buf[..];
    w.put_packet_number(enc);
    let (_, parsed) = take_pn_len(enc.size() as u8)(&buf[..enc.size()]).unwrap();
    (parsed.decode(expected), enc.size())
}

fn check_triple(rep: &mut Report, pn: u64, acked: u64, expected: u64) {
    match vcore::panics::catch(|| wire_decode(pn, acked, expected)) {
        Ok((got, size)) => {
            if got != pn {
                let d = pn - acked;
                let class = match d {
                    0..=127 => "delta<2^7",
                    128..=32767 => "delta<2^15",
                    32768..=8388607 => "delta<2^23",
                    _ => "delta<2^31",
                };
                rep.violation(
                    format!("C07.decode.width{size}:{class}"),
                    format!("decode(encode(pn={pn}, acked={acked}), expected={expected}) = {got} (width {size})"),
                    json!({"kind": "c07b", "pn": pn, "acked": acked, "expected": expected}),
                );
            }
            rep.set("sweep_widths", size as u64);
        }
        Err(p) => {
            let loc = vcore::panics::short_location(&p.location);
            rep.violation(
                format!("C07.decode.panic:{loc}"),
                format!("encode/decode(pn={pn}, acked={acked}, expected={expected}) panicked: {} at {loc}", p.message),
                json!({"kind": "c07b", "pn": pn, "acked": acked, "expected": expected}),
            );
        }
    }
}

const MAX_PN: u64 = (1 << 62) - 1;

fn sweep(rep: &mut Report, shard: u64, shards: u64, thorough: bool, rng: &mut Rng) {
    let mut n = 0u64;
    // exhaustive: every (pn, acked <= pn, expected in [acked+1, pn]) for pn < 2^8 (2^9 thorough)
    let full = if thorough { 1024 } else { 384 };
    for pn in (shard..full).step_by(shards as usize) {
        for acked in 0..=pn {
            let lo = if acked == 0 { 0 } else { acked + 1 }; // acked = 0 is also "nothing acknowledged yet"
            for expected in lo..=pn {
                check_triple(rep, pn, acked, expected);
                n += 1;
            }
        }
    }
    rep.add("sweep_exhaustive_small_triples", n);
    // exhaustive over pn < 2^12 x acked <= pn x expected in {acked+1, mid, pn}
    let mut m = 0u64;
    for pn in (shard..4096).step_by(shards as usize) {
        for acked in 0..=pn {
            if acked == pn && pn != 0 {
                continue;
            }
            let lo = if acked == 0 { 0 } else { (acked + 1).min(pn) };
            for expected in [lo, (acked + 1).min(pn), (acked + 1 + pn) / 2, pn] {
                check_triple(rep, pn, acked, expected);
                m += 1;
            }
        }
    }
    rep.add("sweep_exhaustive_pn_below_4096_triples", m);
    // delta sweep x acked at width boundaries and near 2^62
    let mut ackeds: Vec<u64> = vec![0, 1, 2, 0x7e, 0x7f, 0x80, 0xfe, 0xff, 0x100, 0x101];
    for b in [15u32, 16, 23, 24, 31, 32, 33, 40, 48, 56, 61] {
        for o in [-2i64, -1, 0, 1, 2] {
            ackeds.push(((1u64 << b) as i64 + o) as u64);
        }
    }
    for _ in 0..if thorough { 64 } else { 8 } {
        ackeds.push(rng.next_u64() >> (2 + rng.below(60)));
    }
    let mut deltas: Vec<u64> = vec![(1 << 23) - 1, 1 << 23, (1 << 23) + 1, (1 << 31) - 1, (1 << 31) - 2, (1 << 24) - 1, 1 << 24, (1 << 30) + 7];
    for _ in 0..if thorough { 4000 } else { 200 } {
        deltas.push(rng.range(65537, (1 << 31) - 1));
    }
    let mut k = 0u64;
    let mut one = |rep: &mut Report, delta: u64, acked: u64| {
        // also "as close to 2^62 as this delta allows"
        for acked in [acked.min(MAX_PN - delta), MAX_PN - delta, (MAX_PN - delta).saturating_sub(1)] {
            let pn = acked + delta;
            for expected in [acked + 1, acked + 1 + (delta - 1) / 2, pn] {
                check_triple(rep, pn, acked, expected.min(pn));
                k += 1;
            }
            if acked == 0 {
                check_triple(rep, pn, 0, 0);
                k += 1;
            }
        }
    };
    let stride = 1;
    let mut d = 1 + shard * stride;
    while d <= 65536 {
        // every delta with a rotating subset of acked values (all of them in the thorough tier)
        if thorough {
            for &a in &ackeds {
                one(rep, d, a);
            }
        } else {
            for j in 0..6 {
                let a = ackeds[((d * 7 + j * 11) % ackeds.len() as u64) as usize];
                one(rep, d, a);
            }
        }
        d += shards * stride;
    }
    for (i, &d) in deltas.iter().enumerate() {
        if i as u64 % shards != shard {
            continue;
        }
        for &a in &ackeds {
            one(rep, d, a);
        }
    }
    drop(one);
    rep.add("sweep_delta_triples", k);
    rep.evaluations += n + m + k;
}

// ---------------------------------------------------------------------------------------------
// (a) ledger over real assemblies
// ---------------------------------------------------------------------------------------------

#[derive(Clone, Debug, PartialEq)]
enum Item {
    Ping,
    Padding,
    Ack { back: u64, range: u64 },
    Crypto(usize),
    MaxData(u64),
    Stream(usize),
    PathChallenge,
    /// a frame that can never fit: the source yields nothing
    Huge,
    Close,
}

impl Item {
    fn to_json(&self) -> Value {
        match self {
            Item::Ping => json!("ping"),
            Item::Padding => json!("pad"),
            Item::Ack { back, range } => json!(["ack", back, range]),
            Item::Crypto(n) => json!(["crypto", n]),
            Item::MaxData(n) => json!(["maxdata", n]),
            Item::Stream(n) => json!(["stream", n]),
            Item::PathChallenge => json!("pc"),
            Item::Huge => json!("huge"),
            Item::Close => json!("close"),
        }
    }
    fn from_json(v: &Value) -> Item {
        if let Some(s) = v.as_str() {
            return match s {
                "ping" => Item::Ping,
                "pad" => Item::Padding,
                "pc" => Item::PathChallenge,
                "huge" => Item::Huge,
                _ => Item::Close,
            };
        }
        let n = v[1].as_u64().unwrap();
        match v[0].as_str().unwrap() {
            "ack" => Item::Ack { back: n, range: v[2].as_u64().unwrap() },
            "crypto" => Item::Crypto(n as usize),
            "maxdata" => Item::MaxData(n),
            _ => Item::Stream(n as usize),
        }
    }
}

#[derive(Clone, Debug)]
enum Op {
    /// space: 0 initial, 1 handshake, 2 data(0-RTT), 3 data(1-RTT)
    Asm { lane: u8, path: u8, trivial: bool, buf: usize, items: Vec<Item> },
    Ack { space: u8, back: u64, range: u64 },
    Loss { space: u8, back: u64 },
    FastRetx { space: u8 },
    Advance { ms: u64 },
}

impl Op {
    fn to_json(&self) -> Value {
        match self {
            Op::Asm { lane, path, trivial, buf, items } => json!(["asm", lane, path, trivial, buf, items.iter().map(|i| i.to_json()).collect::<Vec<_>>()]),
            Op::Ack { space, back, range } => json!(["ack", space, back, range]),
            Op::Loss { space, back } => json!(["loss", space, back]),
            Op::FastRetx { space } => json!(["fr", space]),
            Op::Advance { ms } => json!(["adv", ms]),
        }
    }
    fn from_json(v: &Value) -> Op {
        let u = |i: usize| v[i].as_u64().unwrap();
        match v[0].as_str().unwrap() {
            "asm" => Op::Asm {
                lane: u(1) as u8,
                path: u(2) as u8,
                trivial: v[3].as_bool().unwrap(),
                buf: u(4) as usize,
                items: v[5].as_array().unwrap().iter().map(Item::from_json).collect(),
            },
            "ack" => Op::Ack { space: u(1) as u8, back: u(2), range: u(3) },
            "loss" => Op::Loss { space: u(1) as u8, back: u(2) },
            "fr" => Op::FastRetx { space: u(1) as u8 },
            _ => Op::Advance { ms: u(1) },
        }
    }
}

/// A data source in the shape of the production `Package`s: dumps each scripted frame through the frame's own
/// `Package` impl (record_frame + put_frame); `Err(signals)` iff nothing was written.
struct Script<'a> {
    items: &'a [Item],
    largest_rcvd: u64,
}

impl<T> Package<T> for Script<'_>
where
    T: BufMut + RecordFrame<Frame<NonData>, NonData> + RecordFrame<Frame<Bytes>, Bytes> + ?Sized,
    for<'b> &'b mut T: WriteData<Bytes>,
{
    fn dump(&mut self, t: &mut T) -> Result<PacketContent, Signals> {
        let origin = t.remaining_mut();
        let mut content = PacketContent::default();
        let mut sig = Signals::empty();
        for it in self.items {
            let r = match it {
                Item::Ping => PingFrame.dump(t),
                Item::Padding => PaddingFrame.dump(t),
                Item::Ack { back, range } => {
                    let l = self.largest_rcvd.saturating_sub(*back);
                    let r = (*range).min(l);
                    AckFrame::new(VarInt::from_u64(l).unwrap(), VarInt::from_u32(25), VarInt::from_u64(r).unwrap(), vec![], None).dump(t)
                }
                // like the production sources (crypto stream / data streams), size the data to what is left
                Item::Crypto(n) => match fit(t.remaining_mut(), *n) {
                    None => Err(Signals::CONGESTION),
                    Some(n) => (CryptoFrame::new(VarInt::from_u32(1000), VarInt::try_from(n).unwrap()), Bytes::from(vec![0x5a; n])).dump(t),
                },
                Item::Huge => Err(Signals::CONGESTION),
                Item::MaxData(v) => MaxDataFrame::new(VarInt::from_u64(*v).unwrap()).dump(t),
                Item::Stream(n) => match fit(t.remaining_mut(), *n) {
                    None => Err(Signals::CONGESTION),
                    Some(n) => {
                        let sid = qbase::sid::StreamId::new(qbase::role::Role::Client, qbase::sid::Dir::Bi, 1);
                        let mut f = StreamFrame::new(sid, 77, n);
                        f.set_len_bit(qbase::frame::Len::Explicit);
                        (f, Bytes::from(vec![0xa5; n])).dump(t)
                    }
                },
                Item::PathChallenge => PathChallengeFrame::from_slice(&[1, 2, 3, 4, 5, 6, 7, 8]).dump(t),
                Item::Close => ConnectionCloseFrame::new_quic(ErrorKind::None, FrameType::Padding.into(), "bye").dump(t),
            };
            match r {
                Ok(c) => content += c,
                Err(s) => sig |= s,
            }
        }
        (origin != t.remaining_mut()).then_some(content).ok_or(sig)
    }
}

/// data bytes that fit next to a frame header of at most 25 bytes
fn fit(remaining: usize, want: usize) -> Option<usize> {
    (remaining > 25).then(|| want.min(remaining - 25))
}

const SPACE_NAMES: [&str; 3] = ["initial", "handshake", "data"];

fn space_of(lane: u8) -> usize {
    match lane {
        0 => 0,
        1 => 1,
        _ => 2,
    }
}

struct Keyring {
    initial: DirectionalKeys,
    handshake: DirectionalKeys,
    zero_rtt: DirectionalKeys,
    one_rtt: DirectionalKeys,
    phase: KeyPhaseBit,
}

struct Fail {
    step: usize,
    sig: String,
    what: String,
}

#[derive(Default)]
struct Stats {
    built: [u64; 3],
    abandoned_at_new: u64,
    abandoned_empty: u64,
    built_trivial_only: u64,
    built_with_frames: u64,
    built_closing: u64,
    acked_frames: u64,
    lost_frames: u64,
    retx_frames: u64,
    acks_accepted: u64,
    widths: [u64; 5],
    max_pn: u64,
    interleaved_paths: u64,
    zero_and_one_rtt_share: u64,
    gaps: u64,
    shape: u64,
}

#[derive(Clone, Copy, PartialEq)]
enum Kind {
    Frames,
    TrivialOnly,
    Closing,
}

struct SpaceLedger {
    last: Option<(u64, Kind, u8, u8)>, // pn, kind, path, lane
    acked: Option<u64>,
    rotated_since_last: bool,
}

async fn run_history(keys: &Keyring, ops: &[Op], st: &mut Stats) -> Option<Fail> {
    let ji: ArcSentJournal<CryptoFrame> = ArcSentJournal::with_capacity(4);
    let jh: ArcSentJournal<CryptoFrame> = ArcSentJournal::with_capacity(4);
    let jd: ArcSentJournal<GuaranteedFrame> = ArcSentJournal::with_capacity(4);
    let mut led: Vec<SpaceLedger> = (0..3).map(|_| SpaceLedger { last: None, acked: None, rotated_since_last: false }).collect();
    let dcid = [ConnectionId::from_slice(&[1, 2, 3, 4, 5, 6, 7, 8]), ConnectionId::from_slice(&[9, 9, 9])];
    let scid = ConnectionId::from_slice(&[7; 5]);
    let timeouts = [(Duration::from_millis(40), Duration::from_millis(120)), (Duration::from_millis(350), Duration::from_millis(1100))];
    let mut buffer = vec![0u8; 1500];
    let mut largest_rcvd = 3u64;
    for (step, op) in ops.iter().enumerate() {
        match op {
            Op::Asm { lane, path, trivial, buf, items } => {
                let sp = space_of(*lane);
                let p = *path as usize & 1;
                let (retran, expire) = timeouts[p];
                let b = &mut buffer[..*buf];
                largest_rcvd += 1;
                let mut script = Script { items, largest_rcvd };
                let ptype = [PType::Initial, PType::Handshake, PType::ZeroRtt, PType::OneRtt][*lane as usize & 3];
                let (po, tx) = match ptype {
                    PType::Initial => (payload_offset(ptype, dcid[p].len(), scid.len(), 3), &keys.initial),
                    PType::Handshake => (payload_offset(ptype, dcid[p].len(), scid.len(), 0), &keys.handshake),
                    PType::ZeroRtt => (payload_offset(ptype, dcid[p].len(), scid.len(), 0), &keys.zero_rtt),
                    PType::OneRtt => (payload_offset(ptype, dcid[p].len(), 0, 0), &keys.one_rtt),
                };
                // Result of one assembly: None = abandoned, Some((size, pn, claimed pn at creation))
                macro_rules! assemble {
                    ($w:expr) => {{
                        match $w {
                            Err(_) => {
                                st.abandoned_at_new += 1;
                                None
                            }
                            Ok(mut w) => {
                                let claimed = w.packet_number();
                                match w.assemble_packet(&mut Packages((&mut script, PadTo20))) {
                                    Err(_) => {
                                        drop(w);
                                        st.abandoned_empty += 1;
                                        None
                                    }
                                    Ok(_) => {
                                        let (size, info) = w.encrypt_and_protect_packet();
                                        Some((size, info.packet_number(), claimed))
                                    }
                                }
                            }
                        }
                    }};
                }
                let hb = LongHeaderBuilder::with_cid(dcid[p], scid);
                let r = vcore::panics::catch(|| match (ptype, *trivial) {
                    (PType::Initial, false) => assemble!(PacketWriter::new_long(hb.initial(vec![1, 2, 3]), b, tx.clone(), &ji, retran, expire)),
                    (PType::Initial, true) => assemble!(TrivialPacketWriter::new_long(hb.initial(vec![1, 2, 3]), b, tx.clone(), &ji)),
                    (PType::Handshake, false) => assemble!(PacketWriter::new_long(hb.handshake(), b, tx.clone(), &jh, retran, expire)),
                    (PType::Handshake, true) => assemble!(TrivialPacketWriter::new_long(hb.handshake(), b, tx.clone(), &jh)),
                    (PType::ZeroRtt, false) => assemble!(PacketWriter::new_long(hb.zero_rtt(), b, tx.clone(), &jd, retran, expire)),
                    (PType::ZeroRtt, true) => assemble!(TrivialPacketWriter::new_long(hb.zero_rtt(), b, tx.clone(), &jd)),
                    (PType::OneRtt, false) => {
                        assemble!(PacketWriter::new_short(OneRttHeader::new(SpinBit::Zero, dcid[p]), b, tx.clone(), keys.phase, &jd, retran, expire))
                    }
                    (PType::OneRtt, true) => assemble!(TrivialPacketWriter::new_short(OneRttHeader::new(SpinBit::Zero, dcid[p]), b, tx.clone(), keys.phase, &jd)),
                });
                let built = match r {
                    Ok(x) => x,
                    Err(pn) => {
                        let loc = vcore::panics::short_location(&pn.location);
                        return Some(Fail { step, sig: format!("C07.panic.assemble:{loc}"), what: format!("assembly panicked: {} at {loc}", pn.message) });
                    }
                };
                let Some((size, pn, claimed)) = built else { continue };
                let sname = SPACE_NAMES[sp];
                let reliable = items.iter().any(|i| match i {
                    Item::Crypto(_) => true,
                    Item::MaxData(_) | Item::Stream(_) => sp == 2,
                    _ => false,
                });
                let kind = if *trivial {
                    Kind::Closing
                } else if reliable {
                    Kind::Frames
                } else {
                    Kind::TrivialOnly
                };
                if pn != claimed {
                    return Some(Fail { step, sig: format!("C07.pn-changed.{sname}"), what: format!("writer announced pn {claimed}, built packet reports {pn}") });
                }
                // the nonce really used: open the wire image with the sender's keys
                let wire = &buffer[..size];
                let opened = match ref_open(wire, po, tx, pn) {
                    Ok(o) => o,
                    Err(e) => {
                        return Some(Fail {
                            step,
                            sig: format!("C07.wire-nonce.{sname}"),
                            what: format!("built packet reported as pn {pn} does not open with that number (rustls opener: {e})"),
                        });
                    }
                };
                let (_, pn_len, trunc, _) = opened;
                let l = &mut led[sp];
                if let Some((prev, pkind, ppath, plane)) = l.last {
                    if pn <= prev {
                        let pk = match pkind {
                            Kind::Frames => "frames",
                            Kind::TrivialOnly => "trivial-only",
                            Kind::Closing => "closing",
                        };
                        let rel = if pn == prev { "reuse" } else { "regress" };
                        return Some(Fail {
                            step,
                            sig: format!("C07.{rel}.{sname}:prev-{pk}{}", if l.rotated_since_last { "+rotate" } else { "" }),
                            what: format!("{sname} space: built packet carries pn {pn} after a built packet with pn {prev} (previous packet: {pk})"),
                        });
                    }
                    if pn > prev + 1 {
                        st.gaps += 1;
                    }
                    if ppath != *path {
                        st.interleaved_paths += 1;
                    }
                    if plane != *lane && sp == 2 {
                        st.zero_and_one_rtt_share += 1;
                    }
                }
                // truncation: a receiver that has everything the sender knows to be acked reconstructs pn
                let enc = match pn_len {
                    1 => PacketNumber::U8(trunc as u8),
                    2 => PacketNumber::U16(trunc as u16),
                    3 => PacketNumber::U24(trunc as u32),
                    _ => PacketNumber::U32(trunc as u32),
                };
                let lo = l.acked.map(|a| a + 1).unwrap_or(0).min(pn);
                for expected in [lo, (lo + pn) / 2, pn] {
                    let got = enc.decode(expected);
                    if got != pn {
                        return Some(Fail {
                            step,
                            sig: format!("C07.truncation.{sname}:width{pn_len}"),
                            what: format!("pn {pn} written as {pn_len} bytes ({trunc:#x}) reconstructs to {got} at a receiver expecting {expected} (largest acked {:?})", l.acked),
                        });
                    }
                }
                l.last = Some((pn, kind, *path, *lane));
                l.rotated_since_last = false;
                st.built[sp] += 1;
                st.widths[pn_len] += 1;
                st.max_pn = st.max_pn.max(pn);
                match kind {
                    Kind::Frames => st.built_with_frames += 1,
                    Kind::TrivialOnly => st.built_trivial_only += 1,
                    Kind::Closing => st.built_closing += 1,
                }
                st.shape = (st.shape ^ (sp as u64 * 8 + kind as u64 + 1)).wrapping_mul(0x100000001b3);
            }
            Op::Ack { space, back, range } => {
                let sp = *space as usize % 3;
                let Some((last, ..)) = led[sp].last else { continue };
                let largest = last.saturating_sub(*back);
                let r = (*range).min(largest);
                let ack = AckFrame::new(VarInt::from_u64(largest).unwrap(), VarInt::from_u32(10), VarInt::from_u64(r).unwrap(), vec![], None);
                let res = vcore::panics::catch(|| {
                    macro_rules! go {
                        ($j:expr) => {{
                            let mut g = $j.rotate();
                            if g.update_largest(&ack).is_ok() {
                                let mut n = 0u64;
                                for pn in ack.iter().flat_map(|r| r.rev()) {
                                    n += g.on_packet_acked(pn).count() as u64;
                                }
                                Some(n)
                            } else {
                                None
                            }
                        }};
                    }
                    match sp {
                        0 => go!(ji),
                        1 => go!(jh),
                        _ => go!(jd),
                    }
                });
                match res {
                    Ok(Some(n)) => {
                        st.acked_frames += n;
                        st.acks_accepted += 1;
                        led[sp].acked = Some(led[sp].acked.map_or(largest, |a| a.max(largest)));
                    }
                    Ok(None) => {}
                    Err(p) => {
                        let loc = vcore::panics::short_location(&p.location);
                        return Some(Fail { step, sig: format!("C07.panic.rotate:{loc}"), what: format!("ack handling panicked: {} at {loc}", p.message) });
                    }
                }
                led[sp].rotated_since_last = true;
                st.shape = (st.shape ^ 0x77).wrapping_mul(0x100000001b3);
            }
            Op::Loss { space, back } => {
                let sp = *space as usize % 3;
                let Some((last, ..)) = led[sp].last else { continue };
                let pn = last.saturating_sub(*back);
                let res = vcore::panics::catch(|| match sp {
                    0 => ji.rotate().may_loss_packet(pn).count(),
                    1 => jh.rotate().may_loss_packet(pn).count(),
                    _ => jd.rotate().may_loss_packet(pn).count(),
                });
                match res {
                    Ok(n) => st.lost_frames += n as u64,
                    Err(p) => {
                        let loc = vcore::panics::short_location(&p.location);
                        return Some(Fail { step, sig: format!("C07.panic.rotate:{loc}"), what: format!("loss handling panicked: {} at {loc}", p.message) });
                    }
                }
                led[sp].rotated_since_last = true;
            }
            Op::FastRetx { space } => {
                let sp = *space as usize % 3;
                let res = vcore::panics::catch(|| match sp {
                    0 => ji.rotate().fast_retransmit().count(),
                    1 => jh.rotate().fast_retransmit().count(),
                    _ => jd.rotate().fast_retransmit().count(),
                });
                match res {
                    Ok(n) => st.retx_frames += n as u64,
                    Err(p) => {
                        let loc = vcore::panics::short_location(&p.location);
                        return Some(Fail { step, sig: format!("C07.panic.rotate:{loc}"), what: format!("fast_retransmit panicked: {} at {loc}", p.message) });
                    }
                }
                led[sp].rotated_since_last = true;
            }
            Op::Advance { ms } => {
                tokio::time::advance(Duration::from_millis(*ms)).await;
            }
        }
    }
    None
}

fn gen_items(rng: &mut Rng, lane: u8, trivial: bool) -> Vec<Item> {
    if trivial {
        // closing packets: CONNECTION_CLOSE (+ nothing else); sometimes the frame does not fit
        return vec![Item::Close];
    }
    let zero = lane == 2;
    let data = lane >= 2;
    let mut v = vec![];
    match rng.below(10) {
        // source has nothing to send -> abandoned before anything is recorded
        0 => {}
        1 => v.push(Item::Huge),
        // trivial-only packets: ack-only, ping-only, padding
        2 | 3 => {
            if zero {
                v.push(Item::Ping)
            } else {
                v.push(Item::Ack { back: rng.below(3), range: rng.below(4) })
            }
        }
        4 => v.push(Item::Ping),
        5 => {
            if lane == 3 {
                v.push(Item::PathChallenge)
            } else {
                v.push(Item::Padding)
            }
        }
        // n reliable frames, possibly mixed with trivial ones
        _ => {
            let n = rng.range(1, 4);
            if !zero && rng.bool() {
                v.push(Item::Ack { back: rng.below(3), range: rng.below(4) });
            }
            for _ in 0..n {
                v.push(if !data {
                    Item::Crypto(rng.range(1, 300) as usize)
                } else {
                    match rng.below(3) {
                        0 if !zero => Item::Crypto(rng.range(1, 200) as usize),
                        1 => Item::MaxData(rng.below(1 << 30)),
                        _ => Item::Stream(rng.range(1, 300) as usize),
                    }
                });
            }
            if rng.chance(1, 4) {
                v.push(Item::Ping);
            }
        }
    }
    v
}

fn gen_history(rng: &mut Rng) -> Vec<Op> {
    let n = rng.range(10, 120);
    let mut ops = vec![];
    let mut path = 0u8;
    // a history concentrates on a few lanes so sequences get long
    let lanes: Vec<u8> = match rng.below(5) {
        0 => vec![0, 1],
        1 => vec![2, 3],
        2 => vec![3],
        3 => vec![0, 1, 3],
        _ => vec![0, 1, 2, 3],
    };
    let closing_from = if rng.chance(1, 3) { rng.range(n / 2, n) } else { u64::MAX };
    for i in 0..n {
        match rng.below(12) {
            0 => ops.push(Op::Ack { space: space_of(*rng.pick(&lanes)) as u8, back: rng.below(4), range: rng.below(6) }),
            1 => ops.push(Op::Loss { space: space_of(*rng.pick(&lanes)) as u8, back: rng.below(5) }),
            2 => ops.push(Op::FastRetx { space: space_of(*rng.pick(&lanes)) as u8 }),
            3 => ops.push(Op::Advance { ms: *rng.pick(&[1, 10, 39, 41, 100, 121, 349, 351, 1099, 1101, 5000]) }),
            _ => {
                if rng.chance(2, 3) {
                    path ^= 1; // the two paths alternate
                }
                let lane = *rng.pick(&lanes);
                let trivial = i >= closing_from;
                let items = gen_items(rng, lane, trivial);
                let buf = match rng.below(12) {
                    0 => rng.range(0, 45) as usize, // too small for header + 20: refused at creation
                    1 => rng.range(45, 90) as usize,
                    2 => 1200,
                    _ => rng.range(90, 1500) as usize,
                };
                ops.push(Op::Asm { lane, path, trivial, buf, items });
            }
        }
    }
    ops
}

/// One long run without acknowledgements so that the truncation width grows beyond two bytes
/// (pn - largest_acked >= 2^15), then an ack (width shrinks again), with abandoned assemblies sprinkled in.
fn gen_marathon(rng: &mut Rng) -> Vec<Op> {
    let lane = *rng.pick(&[0u8, 1, 3]);
    let n = 33_500 + rng.below(1500);
    let mut ops = Vec::with_capacity(n as usize + 64);
    let mut path = 0;
    for i in 0..n {
        if rng.chance(1, 50) {
            ops.push(Op::Asm { lane, path, trivial: false, buf: 1200, items: vec![] });
        }
        if rng.chance(1, 3) {
            path ^= 1;
        }
        let items = if i % 97 == 0 { vec![Item::Crypto(10)] } else if i % 2 == 0 { vec![Item::Ping] } else { vec![Item::Ack { back: 0, range: 0 }] };
        ops.push(Op::Asm { lane, path, trivial: false, buf: 120, items });
        if i % 5000 == 4999 {
            ops.push(Op::Advance { ms: 2000 });
            ops.push(Op::FastRetx { space: space_of(lane) as u8 });
        }
    }
    ops.push(Op::Ack { space: space_of(lane) as u8, back: rng.below(3), range: rng.below(3) });
    for _ in 0..20 {
        ops.push(Op::Asm { lane, path, trivial: false, buf: 120, items: vec![Item::Ping] });
    }
    ops
}

/// A long run of packets that leave the sent journal WITHOUT being acknowledged (ACK-only packets are
/// dropped from the front at the next rotation; lost packets once their record expires), interleaved with
/// duplicate ACKs of packet 0 that make the journal slide: the truncation width must keep following the
/// distance to the largest ACKNOWLEDGED number, not the oldest packet still tracked.
fn gen_marathon_unacked(rng: &mut Rng) -> Vec<Op> {
    let lane = *rng.pick(&[0u8, 1, 3]);
    let sp = space_of(lane) as u8;
    // beyond 2^16: a 2-byte truncation can then no longer be reconstructed from the acknowledged position
    let n = 70_000 + rng.below(3000);
    let mut ops = Vec::with_capacity(n as usize + 128);
    ops.push(Op::Asm { lane, path: 0, trivial: false, buf: 120, items: vec![Item::Ping] });
    ops.push(Op::Ack { space: sp, back: 0, range: 0 });
    let lossy = rng.bool();
    for i in 0..n {
        if lossy && i % 7 == 3 {
            // an ack-eliciting packet that is declared lost right away and expires later
            ops.push(Op::Asm { lane, path: 0, trivial: false, buf: 120, items: vec![Item::Ping] });
            ops.push(Op::Loss { space: sp, back: 0 });
        } else {
            ops.push(Op::Asm { lane, path: (i % 2) as u8, trivial: false, buf: 120, items: vec![Item::Ack { back: 0, range: 0 }] });
        }
        if i % 2500 == 2499 {
            ops.push(Op::Advance { ms: 20_000 });
            // duplicate ACK of packet 0: acknowledges nothing new, but rotates the journal
            ops.push(Op::Ack { space: sp, back: u64::MAX, range: 0 });
            ops.push(Op::Asm { lane, path: 0, trivial: false, buf: 120, items: vec![Item::Ping] });
            ops.push(Op::Loss { space: sp, back: 0 });
        }
    }
    ops.push(Op::Advance { ms: 20_000 });
    ops.push(Op::Ack { space: sp, back: u64::MAX, range: 0 });
    for _ in 0..20 {
        ops.push(Op::Asm { lane, path: 0, trivial: false, buf: 120, items: vec![Item::Ping] });
    }
    ops
}

fn keyring() -> Result<Keyring, String> {
    let hs = pktkeys::handshake(0)?;
    let ic = pktkeys::initial_keys(&[8, 7, 6, 5, 4, 3, 2, 1], rustls::Side::Client);
    let (z, _) = pktkeys::directional_pair(&hs.quic_suite, b"zero-rtt-secret");
    let (hpk, pk) = hs.client.one_rtt.get_local_keys().ok_or("no 1-RTT keys")?;
    let (phase, pk) = pk.lock_guard().get_local();
    Ok(Keyring {
        initial: ic.local.clone(),
        handshake: hs.client.handshake.local.clone(),
        zero_rtt: z,
        one_rtt: DirectionalKeys { header: hpk, packet: pk },
        phase,
    })
}

fn run_ops(rep: &mut Report, rt: &tokio::runtime::Runtime, keys: &Keyring, ops: &[Op], mode: &str) -> Stats {
    let mut st = Stats { shape: 0xcbf29ce484222325, ..Default::default() };
    let fail = rt.block_on(run_history(keys, ops, &mut st));
    if let Some(f) = fail {
        rep.violation(
            f.sig,
            format!("step {} of {} history: {}", f.step, mode, f.what),
            json!({"kind": "c07a", "ops": ops[..=f.step].iter().map(|o| o.to_json()).collect::<Vec<_>>()}),
        );
    }
    st
}

fn new_rt() -> tokio::runtime::Runtime {
    tokio::runtime::Builder::new_current_thread().enable_time().start_paused(true).build().expect("runtime")
}

pub fn run(args: &Args, rep: &mut Report) {
    rep.rule = "(a) history = sequence of packet assemblies (real tx::PacketWriter / TrivialPacketWriter on one journal per space, two paths), \
                acks, losses, fast retransmits and virtual-time advances; distinct = distinct sequences of (space, built-packet kind, rotate) events; \
                non-trivial = at least one abandoned assembly AND one trivial-only packet AND one rotate operation between built packets. \
                (b) each (pn, largest acked, expected) triple is one evaluation"
        .into();
    if let Some(path) = args.get("replay") {
        let v: Value = serde_json::from_str(&std::fs::read_to_string(path).unwrap()).unwrap();
        let v = if v.get("replay").is_some() { v["replay"].clone() } else { v };
        if v["kind"] == "c07b" {
            check_triple(rep, v["pn"].as_u64().unwrap(), v["acked"].as_u64().unwrap(), v["expected"].as_u64().unwrap());
        } else {
            let ops: Vec<Op> = v["ops"].as_array().unwrap().iter().map(Op::from_json).collect();
            match keyring() {
                Ok(k) => {
                    run_ops(rep, &new_rt(), &k, &ops, "replay");
                }
                Err(e) => rep.inconclusive(format!("keys: {e}")),
            }
        }
        rep.evaluations += 1;
        return;
    }
    let thorough = args.get("tier") == Some("thorough");
    let shard = args.u64("shard", 0);
    let shards = args.u64("shards", 1);
    let mut rng = Rng::new(args.seed() ^ 0xc07).fork(shard);
    // (b)
    sweep(rep, shard, shards, thorough, &mut rng);
    // (a)
    let keys = match keyring() {
        Ok(k) => k,
        Err(e) => {
            rep.inconclusive(format!("rustls handshake failed: {e}"));
            return;
        }
    };
    let n = args.budget(if thorough { 300_000 } else { 20_000 });
    let rt = new_rt();
    for i in 0..=n {
        // the last two histories of every shard are the marathons
        let (ops, mode) = if i == n {
            (gen_marathon(&mut rng), "marathon")
        } else if i + 1 == n {
            (gen_marathon_unacked(&mut rng), "marathon-unacked")
        } else {
            (gen_history(&mut rng), "random")
        };
        let st = run_ops(rep, &rt, &keys, &ops, mode);
        rep.evaluations += 1;
        for (k, name) in SPACE_NAMES.iter().enumerate() {
            rep.add(&format!("built_packets_{name}"), st.built[k]);
        }
        rep.add("abandoned_writer_refused_buffer", st.abandoned_at_new);
        rep.add("abandoned_nothing_to_send", st.abandoned_empty);
        rep.add("built_trivial_only(Skipped record)", st.built_trivial_only);
        rep.add("built_with_reliable_frames", st.built_with_frames);
        rep.add("built_closing(TrivialPacketWriter)", st.built_closing);
        rep.add("frames_fed_back_acked", st.acked_frames);
        rep.add("frames_fed_back_lost", st.lost_frames);
        rep.add("frames_fed_back_fast_retransmit", st.retx_frames);
        rep.add("acks_accepted", st.acks_accepted);
        rep.add("pn_gaps_between_built_packets(abandoned assemblies burning numbers)", st.gaps);
        rep.add("consecutive_built_packets_on_different_paths", st.interleaved_paths);
        rep.add("consecutive_built_packets_0rtt_vs_1rtt_in_data_space", st.zero_and_one_rtt_share);
        for w in 1..=4 {
            rep.add(&format!("wire_pn_width_{w}"), st.widths[w]);
        }
        rep.max("max_pn_reached", st.max_pn);
        rep.set("ledger_shapes", st.shape);
        if st.abandoned_at_new + st.abandoned_empty > 0 && st.built_trivial_only > 0 && st.acks_accepted > 0 {
            rep.distinct(st.shape);
        }
        if i < 2 {
            rep.sample(json!({"mode": "ledger", "n_ops": ops.len(), "first_ops": ops.iter().take(8).map(|o| o.to_json()).collect::<Vec<_>>()}));
        }
    }
    rep.add("ledger_histories", n);
}
