//! C14 — connection IDs are issued, used, retired and routed consistently.
//!
//! Two history kinds, both against the real components wired exactly as `qconnection::builder` wires them:
//!
//! * **local + router**: 1–3 "connections" on one shared `QuicRouter`; each is a `RcvdPacketQueue`, a
//!   `QuicRouterRegistry` (from `registry_on_issuing_scid`) that captures NEW_CONNECTION_ID frames, an
//!   initial SCID from `gen_unique_cid`, an `ArcLocalCids` on top and (server style) an ODCID
//!   `QuicRouterEntry`.  Ops: create, set_limit, RETIRE_CONNECTION_ID (issued / duplicate / never issued),
//!   clear, drop, drop of the ODCID entry.  After **every** op the model (issued list, retired set, limit)
//!   is compared: consecutive numbering, outstanding ≤ limit, exactly one replacement per effective
//!   retirement, none for duplicates, error for never-issued numbers; and every id ever handed out on this
//!   router is probed with a crafted short-header packet through `QuicRouter::try_deliver`: it must land in
//!   the queue of its own connection iff it is live, nowhere otherwise.
//! * **remote**: one `ArcRemoteCids` with 1–4 `ArcCidCell`s (paths).  Ops: NEW_CONNECTION_ID frames over a
//!   small sequence range in any order incl. duplicates, borrow / release per cell, path retirement, new
//!   paths.  Oracle: borrowed id is a known, not yet retired id of the peer; two paths never use the same id;
//!   after retire-prior-to = t a renewed cell never returns a number < t (split by whether a replacement was
//!   available); RETIRE_CONNECTION_ID frames: never twice for one number, never for a number in use, exactly
//!   one per abandoned number at quiescence; a frame after which the number of active ids exceeds the local
//!   limit must be refused with ConnectionIdLimit.
use std::{
    collections::{BTreeMap, BTreeSet},
    net::SocketAddr,
    sync::{Arc, Mutex},
};

use bytes::BytesMut;
use futures::FutureExt;
use qbase::{
    cid::{ArcCidCell, ArcLocalCids, ArcRemoteCids, BorrowedCid, ConnectionId, GenUniqueCid},
    error::ErrorKind,
    frame::{
        NewConnectionIdFrame, RetireConnectionIdFrame,
        io::{ReceiveFrame, SendFrame},
    },
    net::{
        addr::EndpointAddr,
        route::{Link, Pathway},
        tx::ArcSendWaker,
    },
    packet::{DataHeader, DataPacket, Packet, header::OneRttHeader, signal::SpinBit},
    varint::VarInt,
};
use qinterface::{
    bind_uri::BindUri,
    component::route::{QuicRouter, QuicRouterEntry, QuicRouterRegistry, RcvdPacketQueue, Way},
};
use serde_json::{Value, json};
use vcore::{Args, Report, Rng};

type Fail = (String, String);

macro_rules! fail {
    ($sig:expr, $($arg:tt)*) => {
        return Err(($sig.to_string(), format!($($arg)*)))
    };
}

// ================================================================================================
// local ids + router
// ================================================================================================

#[derive(Clone, Default)]
struct NewCidSink(Arc<Mutex<Vec<NewConnectionIdFrame>>>);

impl SendFrame<NewConnectionIdFrame> for NewCidSink {
    fn send_frame<I: IntoIterator<Item = NewConnectionIdFrame>>(&self, iter: I) {
        self.0.lock().unwrap().extend(iter);
    }
}

#[derive(Clone, Debug)]
enum LOp {
    Create { server: bool },
    Limit { c: usize, n: u64 },
    Retire { c: usize, seq: u64 },
    Clear { c: usize },
    Drop { c: usize },
    DropOdcid { c: usize },
    /// connection `c` registers the original destination id that connection `from` registered earlier (a client
    /// that re-uses its first destination id for a second attempt): the table slot now belongs to `c`, and
    /// dropping `from`'s stale entry later must leave it alone
    TakeoverOdcid { c: usize, from: usize },
}

impl LOp {
    fn to_json(&self) -> Value {
        match self {
            LOp::Create { server } => json!(["create", server]),
            LOp::Limit { c, n } => json!(["limit", c, n]),
            LOp::Retire { c, seq } => json!(["retire", c, seq]),
            LOp::Clear { c } => json!(["clear", c]),
            LOp::Drop { c } => json!(["drop", c]),
            LOp::DropOdcid { c } => json!(["drop_odcid", c]),
            LOp::TakeoverOdcid { c, from } => json!(["takeover_odcid", c, from]),
        }
    }
    fn from_json(v: &Value) -> LOp {
        let u = |i: usize| v[i].as_u64().unwrap();
        match v[0].as_str().unwrap() {
            "create" => LOp::Create { server: v[1].as_bool().unwrap() },
            "limit" => LOp::Limit { c: u(1) as usize, n: u(2) },
            "retire" => LOp::Retire { c: u(1) as usize, seq: u(2) },
            "clear" => LOp::Clear { c: u(1) as usize },
            "drop" => LOp::Drop { c: u(1) as usize },
            "takeover_odcid" => LOp::TakeoverOdcid { c: u(1) as usize, from: u(2) as usize },
            _ => LOp::DropOdcid { c: u(1) as usize },
        }
    }
}

struct Conn {
    queue: Arc<RcvdPacketQueue>,
    sink: NewCidSink,
    local: Option<ArcLocalCids<QuicRouterRegistry<NewCidSink>>>,
    odcid: Option<(ConnectionId, QuicRouterEntry)>,
    // model
    issued: Vec<ConnectionId>,
    retired: BTreeSet<u64>,
    limit: Option<u64>,
    cleared: bool,
    frames_seen: usize,
    retired_before_limit: bool,
}

impl Conn {
    fn outstanding(&self) -> u64 {
        if self.cleared { 0 } else { self.issued.len() as u64 - self.retired.len() as u64 }
    }
    fn live(&self, seq: u64) -> bool {
        !self.cleared && (seq as usize) < self.issued.len() && !self.retired.contains(&seq)
    }
}

fn way() -> Way {
    let a: SocketAddr = "10.0.0.2:5555".parse().unwrap();
    let b: SocketAddr = "10.0.0.1:4433".parse().unwrap();
    (
        BindUri::from("inet://10.0.0.1:4433"),
        Pathway::new(EndpointAddr::direct(b), EndpointAddr::direct(a)),
        Link::new(a, b),
    )
}

fn probe_packet(cid: ConnectionId) -> Packet {
    Packet::Data(DataPacket {
        header: DataHeader::Short(OneRttHeader::new(SpinBit::default(), cid)),
        bytes: BytesMut::from(&[0x40u8, 1, 2, 3, 4, 5, 6, 7, 8, 9, 10, 11, 12, 13, 14, 15, 16, 17, 18, 19, 20, 21, 22, 23][..]),
        offset: 1 + cid.len(),
    })
}

#[derive(Default)]
struct LStats {
    probes: u64,
    probes_hit: u64,
    probes_miss: u64,
    retire_effective: u64,
    retire_duplicate: u64,
    retire_unissued: u64,
    frames: u64,
    at_limit: u64,
    below_limit: u64,
    max_conns: u64,
    odcid_takeovers: u64,
    stale_odcid_entries_checked: u64,
}

/// where does a short-header packet with this DCID land? Ok(Some(conn index)) / Ok(None) = unroutable
fn probe(router: &Arc<QuicRouter>, conns: &[Conn], cid: ConnectionId) -> Result<Option<usize>, Fail> {
    let delivered = match router.try_deliver(probe_packet(cid), way()).now_or_never() {
        Some(Ok(())) => true,
        Some(Err(_)) => false,
        None => fail!("INCONCLUSIVE", "try_deliver did not complete in one poll (queue full?)"),
    };
    let mut hit = None;
    for (i, c) in conns.iter().enumerate() {
        while let Some(Some(_)) = c.queue.one_rtt().recv().now_or_never() {
            if hit.is_some() {
                fail!("C14.router.cross-delivery", "one probe packet for {cid} appeared in more than one queue");
            }
            hit = Some(i);
        }
    }
    if delivered && hit.is_none() {
        // delivered to a queue that belongs to no connection we know: table still holds a dropped queue
        return Ok(Some(usize::MAX));
    }
    Ok(hit)
}

fn check_routes(router: &Arc<QuicRouter>, conns: &[Conn], od_slot: &BTreeMap<Vec<u8>, usize>, st: &mut LStats) -> Result<(), Fail> {
    for (ci, c) in conns.iter().enumerate() {
        for (seq, cid) in c.issued.iter().enumerate() {
            let expect = c.live(seq as u64);
            let got = probe(router, conns, *cid)?;
            st.probes += 1;
            match (expect, got) {
                (true, Some(g)) if g == ci => st.probes_hit += 1,
                (true, None) => fail!("C14.router.live-id-unroutable", "connection {ci} seq {seq} id {cid} is issued and unretired but the router has no entry"),
                (true, Some(g)) => fail!("C14.router.cross-delivery", "connection {ci} seq {seq} id {cid} is live but its packet landed in queue {g}"),
                (false, None) => st.probes_miss += 1,
                (false, Some(g)) => {
                    if c.local.is_none() || c.cleared {
                        fail!("C14.router.dead-connection-routed", "connection {ci} is gone/cleared but seq {seq} id {cid} still routes (to queue {g})")
                    } else {
                        fail!("C14.router.retired-id-routed", "connection {ci} seq {seq} id {cid} was retired but still routes (to queue {g})")
                    }
                }
            }
        }
        if let Some((od, _)) = &c.odcid {
            // the slot belongs to the connection that registered the id last and still holds its entry
            let owner = od_slot.get(&od.to_vec()).copied();
            let got = probe(router, conns, *od)?;
            st.probes += 1;
            if got == owner {
                st.probes_hit += 1;
                if owner != Some(ci) {
                    st.stale_odcid_entries_checked += 1;
                }
            } else {
                fail!("C14.router.odcid-entry", "ODCID {od} (entry held by connection {ci}) routes to {got:?}, the slot belongs to {owner:?}");
            }
        }
    }
    Ok(())
}

/// take newly captured NEW_CONNECTION_ID frames of connection `ci` into the model, checking numbering
fn absorb_frames(conns: &mut [Conn], ci: usize, all_ids: &mut BTreeSet<Vec<u8>>, st: &mut LStats) -> Result<usize, Fail> {
    let c = &mut conns[ci];
    let frames: Vec<NewConnectionIdFrame> = c.sink.0.lock().unwrap()[c.frames_seen..].to_vec();
    c.frames_seen += frames.len();
    for f in &frames {
        st.frames += 1;
        let expect = c.issued.len() as u64;
        if f.sequence() != expect {
            fail!("C14.local.numbering", "connection {ci}: NEW_CONNECTION_ID carries sequence {} but the next number is {expect}", f.sequence());
        }
        if f.retire_prior_to() > f.sequence() {
            fail!("C14.local.rpt-gt-seq", "connection {ci}: NEW_CONNECTION_ID seq {} has retire_prior_to {}", f.sequence(), f.retire_prior_to());
        }
        if !all_ids.insert(f.connection_id().to_vec()) {
            fail!("C14.local.duplicate-cid", "connection {ci}: id {} issued twice on one router", f.connection_id());
        }
        c.issued.push(*f.connection_id());
    }
    Ok(frames.len())
}

fn run_local(ops: &[LOp], st: &mut LStats) -> Result<(), (usize, Fail)> {
    let router = Arc::new(QuicRouter::new());
    let mut conns: Vec<Conn> = vec![];
    let mut all_ids: BTreeSet<Vec<u8>> = BTreeSet::new();
    let mut odcid_ctr = 0u64;
    // original destination id -> connection that owns the table slot
    let mut od_slot: BTreeMap<Vec<u8>, usize> = BTreeMap::new();
    for (step, op) in ops.iter().enumerate() {
        let r: Result<(), Fail> = (|| {
            match op.clone() {
                LOp::Create { server } => {
                    let queue = Arc::new(RcvdPacketQueue::new());
                    let sink = NewCidSink::default();
                    let registry = router.registry_on_issuing_scid(queue.clone(), sink.clone());
                    let scid = registry.gen_unique_cid();
                    if !all_ids.insert(scid.to_vec()) {
                        fail!("C14.local.duplicate-cid", "initial source id {scid} collides with an id already on the router");
                    }
                    let odcid = server.then(|| {
                        odcid_ctr += 1;
                        let mut b = [0u8; 12];
                        b[..8].copy_from_slice(&odcid_ctr.to_be_bytes());
                        b[8] = 0x0d; // first byte 0 never collides with library ids (top bit set)
                        let od = ConnectionId::from_slice(&b);
                        od_slot.insert(od.to_vec(), conns.len());
                        (od, router.insert(od.into(), queue.clone()))
                    });
                    let local = ArcLocalCids::new(scid, registry);
                    conns.push(Conn {
                        queue,
                        sink,
                        local: Some(local),
                        odcid,
                        issued: vec![scid],
                        retired: BTreeSet::new(),
                        limit: None,
                        cleared: false,
                        frames_seen: 0,
                        retired_before_limit: false,
                    });
                    let ci = conns.len() - 1;
                    st.max_conns = st.max_conns.max(conns.len() as u64);
                    absorb_frames(&mut conns, ci, &mut all_ids, st)?;
                    if conns[ci].local.as_ref().unwrap().initial_scid() != Some(scid) {
                        fail!("C14.local.initial-scid", "initial_scid() is not the id the connection was created with");
                    }
                }
                LOp::Limit { c, n } => {
                    if conns[c].cleared || conns[c].limit.is_some() {
                        return Ok(()); // clear() is terminal (its only production caller is Drop); set_limit runs once
                    }
                    let Some(local) = conns[c].local.clone() else { return Ok(()) };
                    let r = local.set_limit(n);
                    if let Err(e) = r {
                        fail!("C14.local.set-limit-error", "set_limit({n}) failed: {e}");
                    }
                    conns[c].limit = Some(n);
                    absorb_frames(&mut conns, c, &mut all_ids, st)?;
                    if !conns[c].cleared {
                        if conns[c].outstanding() == n {
                            st.at_limit += 1;
                        } else {
                            st.below_limit += 1;
                        }
                    }
                }
                LOp::Retire { c, seq } => {
                    if conns[c].cleared {
                        return Ok(());
                    }
                    let Some(local) = conns[c].local.clone() else { return Ok(()) };
                    let next = conns[c].issued.len() as u64;
                    let was_live = conns[c].live(seq);
                    let r = local.recv_frame(RetireConnectionIdFrame::new(VarInt::from_u64(seq).unwrap()));
                    let n_new = absorb_frames(&mut conns, c, &mut all_ids, st)?;
                    if seq >= next {
                        st.retire_unissued += 1;
                        match r {
                            Ok(()) => fail!("C14.local.retire-unissued-accepted", "connection {c}: RETIRE_CONNECTION_ID {seq} accepted although only 0..{next} were issued"),
                            Err(e) if !matches!(e.kind(), ErrorKind::ProtocolViolation | ErrorKind::ConnectionIdLimit) => {
                                fail!("C14.local.retire-unissued-kind", "connection {c}: retire of never-issued {seq} reported as {:?}", e.kind())
                            }
                            Err(_) => {}
                        }
                        if n_new != 0 {
                            fail!("C14.local.retire-unissued-accepted", "connection {c}: rejected retire of {seq} still issued {n_new} new ids");
                        }
                    } else {
                        if let Err(e) = r {
                            fail!("C14.local.retire-issued-rejected", "connection {c}: retire of issued number {seq} rejected: {e}");
                        }
                        if was_live {
                            st.retire_effective += 1;
                            conns[c].retired.insert(seq);
                            if conns[c].limit.is_none() {
                                conns[c].retired_before_limit = true;
                            }
                            if n_new != 1 {
                                fail!("C14.local.retire-not-replaced", "connection {c}: retiring live number {seq} produced {n_new} new ids instead of exactly one");
                            }
                        } else {
                            st.retire_duplicate += 1;
                            if n_new != 0 {
                                fail!("C14.local.duplicate-retire-reissued", "connection {c}: repeated/void retire of {seq} produced {n_new} new ids");
                            }
                        }
                    }
                }
                LOp::Clear { c } => {
                    if let Some(local) = conns[c].local.clone() {
                        local.clear();
                        conns[c].cleared = true;
                        let n_new = absorb_frames(&mut conns, c, &mut all_ids, st)?;
                        if n_new != 0 {
                            fail!("C14.local.issue-after-clear", "connection {c}: clear() issued {n_new} new ids");
                        }
                    }
                }
                LOp::Drop { c } => {
                    conns[c].local = None; // last ArcLocalCids handle: LocalCids::drop -> clear
                    conns[c].cleared = true;
                    if let Some((od, entry)) = conns[c].odcid.take() {
                        drop(entry);
                        if od_slot.get(&od.to_vec()) == Some(&c) {
                            od_slot.remove(&od.to_vec());
                        }
                    }
                }
                LOp::DropOdcid { c } => {
                    if let Some((od, entry)) = conns[c].odcid.take() {
                        drop(entry);
                        if od_slot.get(&od.to_vec()) == Some(&c) {
                            od_slot.remove(&od.to_vec());
                        }
                        let owner = od_slot.get(&od.to_vec()).copied();
                        let got = probe(&router, &conns, od)?;
                        if got != owner {
                            fail!("C14.router.odcid-entry", "after connection {c} dropped its QuicRouterEntry for ODCID {od} the id routes to {got:?}; the slot belongs to {owner:?}");
                        }
                    }
                }
                LOp::TakeoverOdcid { c, from } => {
                    if c != from && c < conns.len() && from < conns.len() && conns[c].odcid.is_none() && conns[c].local.is_some() && !conns[c].cleared {
                        if let Some(od) = conns[from].odcid.as_ref().map(|(od, _)| *od) {
                            let entry = router.insert(od.into(), conns[c].queue.clone());
                            conns[c].odcid = Some((od, entry));
                            od_slot.insert(od.to_vec(), c);
                            st.odcid_takeovers += 1;
                        }
                    }
                }
            }
            // invariants after every op
            for (ci, c) in conns.iter().enumerate() {
                let lim = c.limit.unwrap_or(2);
                if c.outstanding() > lim {
                    fail!("C14.local.over-limit", "connection {ci}: {} unretired ids outstanding, peer limit {lim}", c.outstanding());
                }
            }
            check_routes(&router, &conns, &od_slot, st)
        })();
        if let Err(f) = r {
            return Err((step, f));
        }
    }
    Ok(())
}

fn gen_local(rng: &mut Rng) -> Vec<LOp> {
    let nconn = rng.range(1, 3) as usize;
    let nops = rng.range(5, 70);
    let mut ops = vec![LOp::Create { server: rng.bool() }];
    let mut created = 1usize;
    // generator-side estimate of "next" per connection, to aim retires at interesting numbers
    let mut next: Vec<u64> = vec![2];
    let mut limit_set = vec![false];
    let production_order = rng.chance(3, 4); // set_limit before any retire (what the handshake guarantees)
    for _ in 0..nops {
        let c = rng.usize(created);
        match rng.below(20) {
            0 if created < nconn => {
                ops.push(LOp::Create { server: rng.bool() });
                created += 1;
                next.push(2);
                limit_set.push(false);
            }
            1 | 2 if !limit_set[c] => {
                let n = rng.range(2, 8);
                ops.push(LOp::Limit { c, n });
                limit_set[c] = true;
                next[c] = next[c].max(n);
            }
            3 if rng.chance(1, 4) => ops.push(LOp::Clear { c }),
            4 if rng.chance(1, 4) => ops.push(LOp::Drop { c }),
            5 if rng.chance(1, 2) => ops.push(LOp::DropOdcid { c }),
            6 if created > 1 && rng.chance(1, 2) => ops.push(LOp::TakeoverOdcid { c, from: rng.usize(created) }),
            _ => {
                if production_order && !limit_set[c] {
                    let n = rng.range(2, 8);
                    ops.push(LOp::Limit { c, n });
                    limit_set[c] = true;
                    next[c] = next[c].max(n);
                    continue;
                }
                let seq = match rng.below(10) {
                    0 => next[c],                                  // first never-issued number
                    1 => next[c] + rng.range(1, 5),                // beyond
                    2 => rng.below(next[c].max(1)),                // anything issued (often a duplicate)
                    3 => 0,
                    _ => {
                        // mostly the oldest / a recent one
                        let lo = next[c].saturating_sub(rng.range(1, 8));
                        rng.range(lo, next[c] - 1)
                    }
                };
                if seq < next[c] && next[c] < 40 {
                    next[c] += 1; // may be a duplicate; estimate only
                }
                ops.push(LOp::Retire { c, seq: seq.min(45) });
            }
        }
    }
    ops
}

// ================================================================================================
// remote ids
// ================================================================================================

#[derive(Clone, Default)]
struct RetireSink(Arc<Mutex<Vec<RetireConnectionIdFrame>>>);

impl SendFrame<RetireConnectionIdFrame> for RetireSink {
    fn send_frame<I: IntoIterator<Item = RetireConnectionIdFrame>>(&self, iter: I) {
        self.0.lock().unwrap().extend(iter);
    }
}

#[derive(Clone, Debug)]
enum ROp {
    NewCell,
    /// apply_initial_dcid on cell i (exactly once per history, before any frame)
    Initial { cell: usize },
    Frame { seq: u64, rpt: u64 },
    Borrow { cell: usize },
    Release { cell: usize },
    RetireCell { cell: usize },
}

impl ROp {
    fn to_json(&self) -> Value {
        match self {
            ROp::NewCell => json!(["cell"]),
            ROp::Initial { cell } => json!(["initial", cell]),
            ROp::Frame { seq, rpt } => json!(["frame", seq, rpt]),
            ROp::Borrow { cell } => json!(["borrow", cell]),
            ROp::Release { cell } => json!(["release", cell]),
            ROp::RetireCell { cell } => json!(["retire_cell", cell]),
        }
    }
    fn from_json(v: &Value) -> ROp {
        let u = |i: usize| v[i].as_u64().unwrap();
        match v[0].as_str().unwrap() {
            "cell" => ROp::NewCell,
            "initial" => ROp::Initial { cell: u(1) as usize },
            "frame" => ROp::Frame { seq: u(1), rpt: u(2) },
            "borrow" => ROp::Borrow { cell: u(1) as usize },
            "release" => ROp::Release { cell: u(1) as usize },
            _ => ROp::RetireCell { cell: u(1) as usize },
        }
    }
}

fn cid_of(seq: u64) -> ConnectionId {
    let mut b = [0u8; 8];
    vcore::prf_fill(0xc14, seq, 0, &mut b);
    b[0] = seq as u8; // distinct for distinct small seq
    b[1] = (seq >> 8) as u8;
    ConnectionId::from_slice(&b)
}

struct CellM {
    // `held` must be dropped before `cell` (it points into the cell's Arc allocation)
    held: Option<BorrowedCid<'static, RetireSink>>,
    cell: ArcCidCell<RetireSink>,
    held_seq: Option<u64>,
    last_seq: Option<u64>,
    retired: bool,
}

#[derive(Default)]
struct RStats {
    frames: u64,
    frames_dup: u64,
    frames_reordered: u64,
    limit_errors: u64,
    limit_errors_unjustified: u64,
    over_limit_by_one_accepted: u64,
    borrows_ok: u64,
    borrows_pending: u64,
    borrows_none: u64,
    switches: u64,
    retire_frames: u64,
    rpt_advances: u64,
    quiescence_checks: u64,
    stuck_cells: u64,
    max_cells: u64,
}

struct RemoteModel {
    limit: u64,
    known: BTreeMap<u64, ConnectionId>,
    max_rpt: u64,
    retire_count: BTreeMap<u64, u32>,
    sink_seen: usize,
    initial_done: bool,
    largest_seen: u64,
    dead: bool,
    /// violations of classes after which the history can still be followed (reported, history continues)
    soft: Vec<Fail>,
}

impl RemoteModel {
    fn usable(&self) -> Vec<u64> {
        self.known.keys().copied().filter(|s| *s >= self.max_rpt && !self.retire_count.contains_key(s)).collect()
    }
    fn contiguous(&self) -> bool {
        match self.known.keys().next_back() {
            None => false,
            Some(max) => (self.max_rpt..=*max).all(|s| self.known.contains_key(&s) || self.retire_count.contains_key(&s)),
        }
    }
}

fn drain_retires(sink: &RetireSink, m: &mut RemoteModel, cells: &[CellM], st: &mut RStats) -> Result<(), Fail> {
    let frames: Vec<RetireConnectionIdFrame> = sink.0.lock().unwrap()[m.sink_seen..].to_vec();
    m.sink_seen += frames.len();
    for f in frames {
        let seq = f.sequence();
        st.retire_frames += 1;
        let n = m.retire_count.entry(seq).or_insert(0);
        *n += 1;
        if *n > 1 {
            fail!("C14.remote.retire-duplicate", "RETIRE_CONNECTION_ID {seq} emitted {} times", *n);
        }
        if seq >= m.max_rpt && !m.known.contains_key(&seq) {
            fail!("C14.remote.retire-unknown-seq", "RETIRE_CONNECTION_ID {seq} emitted but the peer never issued it and retire_prior_to is {}", m.max_rpt);
        }
        if let Some(i) = cells.iter().position(|c| !c.retired && c.held_seq == Some(seq)) {
            fail!("C14.remote.retire-while-in-use", "RETIRE_CONNECTION_ID {seq} emitted while path {i} holds that id for a packet");
        }
    }
    Ok(())
}

fn run_remote(limit: u64, ops: &[ROp], st: &mut RStats) -> Vec<(usize, Fail)> {
    let sink = RetireSink::default();
    let remote = ArcRemoteCids::new(limit, sink.clone());
    let mut cells: Vec<CellM> = vec![];
    let mut m = RemoteModel { limit, known: BTreeMap::new(), max_rpt: 0, retire_count: BTreeMap::new(), sink_seen: 0, initial_done: false, largest_seen: 0, dead: false, soft: vec![] };
    let waker = ArcSendWaker::new();

    let do_op = |op: &ROp, cells: &mut Vec<CellM>, m: &mut RemoteModel, st: &mut RStats| -> Result<(), Fail> {
        match op.clone() {
            ROp::NewCell => {
                let cell = remote.apply_dcid();
                cells.push(CellM { held: None, cell, held_seq: None, last_seq: None, retired: false });
                st.max_cells = st.max_cells.max(cells.len() as u64);
            }
            ROp::Initial { cell } => {
                if m.initial_done || cell >= cells.len() {
                    return Ok(());
                }
                remote.apply_initial_dcid(cid_of(0), &cells[cell].cell);
                m.known.insert(0, cid_of(0));
                m.initial_done = true;
            }
            ROp::Frame { seq, rpt } => {
                if !m.initial_done {
                    return Ok(()); // production: frames are 1-RTT, the first Initial came before
                }
                st.frames += 1;
                if m.known.contains_key(&seq) {
                    st.frames_dup += 1;
                }
                if seq < m.largest_seen {
                    st.frames_reordered += 1;
                }
                m.largest_seen = m.largest_seen.max(seq);
                let new_rpt = m.max_rpt.max(rpt);
                let mut after: BTreeSet<u64> = m.known.keys().copied().collect();
                after.insert(seq);
                let active_after = after.iter().filter(|s| **s >= new_rpt && !m.retire_count.contains_key(s)).count() as u64;
                // what the peer itself must count as active when it sent this frame (lower bound)
                let peer_active = (rpt..=seq).filter(|s| !m.retire_count.contains_key(s)).count() as u64;
                let frame = NewConnectionIdFrame::new(cid_of(seq), VarInt::from_u64(seq).unwrap(), VarInt::from_u64(rpt).unwrap());
                match remote.recv_frame(frame) {
                    Err(e) => {
                        st.limit_errors += 1;
                        if e.kind() != ErrorKind::ConnectionIdLimit {
                            fail!("C14.remote.limit-kind", "NEW_CONNECTION_ID seq {seq} rpt {rpt} refused with {:?}", e.kind());
                        }
                        if active_after <= m.limit && peer_active <= m.limit {
                            // outside the property (it only says what must be refused); evidence only
                            st.limit_errors_unjustified += 1;
                        }
                        m.dead = true;
                    }
                    Ok(_) => {
                        if active_after > m.limit {
                            if active_after == m.limit + 1 {
                                st.over_limit_by_one_accepted += 1;
                            }
                            let class = if active_after == m.limit + 1 { "by-one" } else { "by-more" };
                            m.soft.push((
                                format!("C14.remote.limit:over-limit-accepted:{class}"),
                                format!(
                                    "NEW_CONNECTION_ID seq {seq} rpt {rpt} accepted: {active_after} active ids afterwards ({:?} from retire_prior_to {new_rpt}), local active_connection_id_limit {}",
                                    after.iter().filter(|s| **s >= new_rpt && !m.retire_count.contains_key(s)).collect::<Vec<_>>(),
                                    m.limit
                                ),
                            ));
                        }
                        if new_rpt > m.max_rpt {
                            st.rpt_advances += 1;
                        }
                        // (a frame arriving already below retire_prior_to is known to have been issued and is retired at once)
                        m.known.insert(seq, cid_of(seq));
                        m.max_rpt = new_rpt;
                    }
                }
            }
            ROp::Borrow { cell } => {
                if cell >= cells.len() || cells[cell].held.is_some() {
                    return Ok(());
                }
                let c = &cells[cell];
                // SAFETY: the BorrowedCid refers to the Mutex inside the Arc of `cells[cell].cell`; an Arc
                // clone is kept in the same CellM for as long as the guard exists and the guard is dropped
                // first (field order / explicit Release), so the reference never dangles.
                let r = c.cell.borrow_cid(waker.clone()).map(|o| o.map(|b| unsafe { std::mem::transmute::<BorrowedCid<'_, RetireSink>, BorrowedCid<'static, RetireSink>>(b) }));
                match r {
                    Ok(None) => {
                        st.borrows_none += 1;
                        if !c.retired {
                            fail!("C14.remote.borrow-none-on-live-path", "borrow_cid on live path {cell} says the path is retired");
                        }
                    }
                    Err(_) => {
                        st.borrows_pending += 1;
                        if c.retired {
                            fail!("C14.remote.borrow-after-retire", "borrow_cid on retired path {cell} waits for an id instead of reporting retirement");
                        }
                        let live = cells.iter().filter(|c| !c.retired).count();
                        if m.initial_done && m.contiguous() && m.usable().len() >= live {
                            fail!("C14.remote.borrow-starved", "path {cell} has no id although {} usable ids {:?} exist for {live} live paths", m.usable().len(), m.usable());
                        }
                    }
                    Ok(Some(b)) => {
                        st.borrows_ok += 1;
                        let cid: ConnectionId = *b;
                        if c.retired {
                            drop(b);
                            fail!("C14.remote.borrow-after-retire", "borrow_cid on retired path {cell} returned id {cid}");
                        }
                        let Some(seq) = m.known.iter().find(|(_, v)| **v == cid).map(|(s, _)| *s) else {
                            drop(b);
                            fail!("C14.remote.borrow-unknown-cid", "path {cell} borrowed {cid}, which the peer never issued");
                        };
                        if m.retire_count.contains_key(&seq) {
                            drop(b);
                            fail!("C14.remote.borrow-retired-cid", "path {cell} borrowed number {seq} after RETIRE_CONNECTION_ID {seq} was emitted");
                        }
                        if let Some(j) = cells.iter().position(|o| !o.retired && !std::ptr::eq(o, c) && (o.held_seq == Some(seq) || o.last_seq == Some(seq))) {
                            drop(b);
                            fail!("C14.remote.shared-between-paths", "paths {cell} and {j} both use number {seq}");
                        }
                        if seq < m.max_rpt {
                            let live = cells.iter().filter(|c| !c.retired).count();
                            let class = if m.contiguous() && m.usable().len() >= live { "replacement-available" } else { "no-replacement-available" };
                            if class == "no-replacement-available" {
                                st.stuck_cells += 1;
                            }
                            if class == "replacement-available" {
                                let usable = m.usable();
                                drop(b);
                                fail!("C14.remote.rpt-not-honoured:replacement-available", "renewed path {cell} still uses number {seq} < retire_prior_to {} although usable ids {usable:?} exist for {live} live paths", m.max_rpt);
                            }
                            // fewer usable ids than live paths (or a gap): there is nothing to switch to; the path keeps
                            // its old id until the peer supplies one.  Counted, not judged (see level_note).
                        }
                        if c.last_seq.is_some() && c.last_seq != Some(seq) {
                            st.switches += 1;
                        }
                        let c = &mut cells[cell];
                        c.held = Some(b);
                        c.held_seq = Some(seq);
                        c.last_seq = Some(seq);
                    }
                }
            }
            ROp::Release { cell } => {
                if cell < cells.len() {
                    cells[cell].held = None; // BorrowedCid::drop -> renew
                    cells[cell].held_seq = None;
                }
            }
            ROp::RetireCell { cell } => {
                if cell < cells.len() {
                    cells[cell].cell.retire();
                    cells[cell].retired = true;
                }
            }
        }
        drain_retires(&sink, m, cells, st)
    };

    let mut out: Vec<(usize, Fail)> = vec![];
    for (step, op) in ops.iter().enumerate() {
        if m.dead {
            break;
        }
        let r = do_op(op, &mut cells, &mut m, st);
        out.extend(m.soft.drain(..).map(|f| (step, f)));
        if let Err(f) = r {
            out.push((step, f));
            return out;
        }
    }
    if m.dead {
        return out;
    }
    // quiescence: release everything, look at what every live path would use now
    let n = ops.len();
    let mut in_use = BTreeSet::new();
    for phase in 0..2 {
        for i in 0..cells.len() {
            let r = if phase == 0 {
                do_op(&ROp::Release { cell: i }, &mut cells, &mut m, st)
            } else if cells[i].retired {
                Ok(())
            } else {
                let r = do_op(&ROp::Borrow { cell: i }, &mut cells, &mut m, st);
                if let Some(s) = cells[i].held_seq {
                    in_use.insert(s);
                }
                r.and_then(|()| do_op(&ROp::Release { cell: i }, &mut cells, &mut m, st))
            };
            out.extend(m.soft.drain(..).map(|f| (n, f)));
            if let Err(f) = r {
                out.push((n, f));
                return out;
            }
        }
    }
    st.quiescence_checks += 1;
    for s in m.known.keys() {
        let cnt = m.retire_count.get(s).copied().unwrap_or(0);
        if *s < m.max_rpt && !in_use.contains(s) && cnt != 1 {
            out.push((n, ("C14.remote.retire-missing:below-retire-prior-to".into(), format!("number {s} is below retire_prior_to {} and unused, but {cnt} RETIRE_CONNECTION_ID frames were emitted for it", m.max_rpt))));
            return out;
        }
    }
    for (i, c) in cells.iter().enumerate() {
        if c.retired {
            if let Some(s) = c.last_seq {
                let cnt = m.retire_count.get(&s).copied().unwrap_or(0);
                if cnt != 1 {
                    out.push((n, ("C14.remote.retire-missing:path-retired".into(), format!("path {i} was retired while using number {s}, RETIRE_CONNECTION_ID emitted {cnt} times"))));
                    return out;
                }
            }
        }
    }
    out
}

/// path churn with a well-behaved peer: one long-lived path on number 0, short-lived paths come and go, the
/// peer replaces each id we retire and never asks us to retire number 0 (so retire_prior_to stays 0)
fn gen_churn(rng: &mut Rng) -> (u64, Vec<ROp>) {
    let limit = rng.range(2, 8);
    let mut ops = vec![ROp::NewCell, ROp::Initial { cell: 0 }, ROp::Borrow { cell: 0 }, ROp::Release { cell: 0 }];
    let mut next = 1;
    for s in 1..limit {
        ops.push(ROp::Frame { seq: s, rpt: 0 });
        next = s + 1;
    }
    let mut cells = 1;
    for _ in 0..rng.range(2, 12) {
        ops.push(ROp::NewCell);
        let c = cells;
        cells += 1;
        ops.push(ROp::Borrow { cell: c });
        if rng.bool() {
            ops.push(ROp::Borrow { cell: 0 });
        }
        ops.push(ROp::Release { cell: c });
        ops.push(ROp::Release { cell: 0 });
        ops.push(ROp::RetireCell { cell: c });
        // the peer saw our RETIRE_CONNECTION_ID and replaces the id: it now has exactly `limit` active again
        ops.push(ROp::Frame { seq: next, rpt: 0 });
        next += 1;
    }
    (limit, ops)
}

fn gen_remote(rng: &mut Rng) -> (u64, Vec<ROp>) {
    if rng.chance(1, 6) {
        return gen_churn(rng);
    }
    let limit = rng.range(2, 8);
    let ncells = rng.range(1, 4) as usize;
    let mut ops = vec![];
    // some paths exist before the first Initial is processed
    let pre = rng.range(1, ncells as u64) as usize;
    for _ in 0..pre {
        ops.push(ROp::NewCell);
    }
    ops.push(ROp::Initial { cell: rng.usize(pre) });
    let mut cells = pre;
    // a well-behaved peer schedule with perturbations: the peer keeps <= limit ids active
    // peer state: next seq, rpt, set of active
    let mut next = 1u64;
    let mut rpt = 0u64;
    let mut sent: Vec<(u64, u64)> = vec![];
    let hostile = rng.chance(1, 5);
    let nops = rng.range(5, 80);
    for _ in 0..nops {
        match rng.below(16) {
            0 if cells < ncells => {
                ops.push(ROp::NewCell);
                cells += 1;
            }
            1 | 2 | 3 | 4 => {
                // peer issues
                if next > 40 {
                    continue;
                }
                if hostile && rng.chance(1, 3) {
                    // anything inside the range
                    let seq = rng.range(0, (next + limit + 2).min(42));
                    let r = rng.range(0, seq);
                    ops.push(ROp::Frame { seq, rpt: r });
                    sent.push((seq, r));
                    continue;
                }
                // honest: advance rpt so that next - rpt < limit (peer counts [rpt, next] as active)
                if next + 1 - rpt > limit || rng.chance(1, 5) {
                    let min_rpt = (next + 1).saturating_sub(limit);
                    rpt = rpt.max(rng.range(min_rpt, next).max(rpt));
                }
                let f = (next, rpt);
                next += 1;
                sent.push(f);
                match rng.below(6) {
                    0 => {} // lost for now (may be retransmitted later)
                    1 if ops.len() > 3 => {
                        // reordered: insert earlier
                        let at = ops.len() - rng.usize(3) - 1;
                        ops.insert(at.max(pre + 1), ROp::Frame { seq: f.0, rpt: f.1 });
                    }
                    _ => ops.push(ROp::Frame { seq: f.0, rpt: f.1 }),
                }
            }
            5 if !sent.is_empty() => {
                // retransmission / duplicate of an older frame
                let f = *rng.pick(&sent);
                ops.push(ROp::Frame { seq: f.0, rpt: f.1 });
            }
            6 if rng.chance(1, 3) => ops.push(ROp::RetireCell { cell: rng.usize(cells) }),
            7..=11 => ops.push(ROp::Borrow { cell: rng.usize(cells) }),
            _ => ops.push(ROp::Release { cell: rng.usize(cells) }),
        }
    }
    (limit, ops)
}

// ================================================================================================

fn hash_ops(tag: u64, js: &[Value]) -> u64 {
    vcore::fnv_str(&format!("{tag}{}", Value::from(js.to_vec())))
}

fn report(rep: &mut Report, kind: &str, extra: Value, ops_json: Vec<Value>, step: usize, f: Fail) {
    if f.0 == "INCONCLUSIVE" {
        rep.inconclusive(f.1);
        return;
    }
    let upto: Vec<Value> = ops_json.into_iter().take(step + 1).collect();
    let mut replay = json!({"kind": kind, "ops": upto});
    if let Some(o) = extra.as_object() {
        for (k, v) in o {
            replay[k] = v.clone();
        }
    }
    rep.violation(f.0, format!("step {step} of a {kind} history: {}", f.1), replay);
}

fn eval_local(rep: &mut Report, ops: &[LOp], stats: &mut LStats) {
    rep.evaluations += 1;
    let js: Vec<Value> = ops.iter().map(|o| o.to_json()).collect();
    match vcore::panics::catch(|| {
        let mut st = LStats::default();
        let r = run_local(ops, &mut st);
        (st, r)
    }) {
        Ok((st, r)) => {
            stats.probes += st.probes;
            stats.probes_hit += st.probes_hit;
            stats.probes_miss += st.probes_miss;
            stats.retire_effective += st.retire_effective;
            stats.retire_duplicate += st.retire_duplicate;
            stats.retire_unissued += st.retire_unissued;
            stats.frames += st.frames;
            stats.at_limit += st.at_limit;
            stats.below_limit += st.below_limit;
            stats.max_conns = stats.max_conns.max(st.max_conns);
            stats.odcid_takeovers += st.odcid_takeovers;
            stats.stale_odcid_entries_checked += st.stale_odcid_entries_checked;
            if st.retire_effective > 0 {
                rep.distinct(hash_ops(1, &js));
            }
            if let Err((step, f)) = r {
                report(rep, "local", json!({}), js, step, f);
            }
        }
        Err(p) => {
            let loc = vcore::panics::short_location(&p.location);
            rep.violation(format!("C14.panic:{loc}"), format!("panic in a local/router history: {} at {loc}", p.message), json!({"kind": "local", "ops": js}));
        }
    }
}

fn eval_remote(rep: &mut Report, limit: u64, ops: &[ROp], stats: &mut RStats) {
    rep.evaluations += 1;
    let js: Vec<Value> = ops.iter().map(|o| o.to_json()).collect();
    match vcore::panics::catch(|| {
        let mut st = RStats::default();
        let r = run_remote(limit, ops, &mut st);
        (st, r)
    }) {
        Ok((st, r)) => {
            macro_rules! acc { ($($f:ident),*) => { $( stats.$f += st.$f; )* } }
            acc!(frames, frames_dup, frames_reordered, limit_errors, limit_errors_unjustified, over_limit_by_one_accepted, borrows_ok, borrows_pending, borrows_none, switches, retire_frames, rpt_advances, quiescence_checks, stuck_cells);
            stats.max_cells = stats.max_cells.max(st.max_cells);
            if st.rpt_advances > 0 || st.switches > 0 {
                rep.distinct(hash_ops(2 + limit, &js));
            }
            for (step, f) in r {
                report(rep, "remote", json!({"limit": limit}), js.clone(), step, f);
            }
        }
        Err(p) => {
            let loc = vcore::panics::short_location(&p.location);
            rep.violation(format!("C14.panic:{loc}"), format!("panic in a remote-id history: {} at {loc}", p.message), json!({"kind": "remote", "limit": limit, "ops": js}));
        }
    }
}

pub fn run(args: &Args, rep: &mut Report) {
    rep.rule = "history = op sequence over (a) 1-3 connections on one router or (b) one peer-id registry with 1-4 paths; distinct = \
                distinct op sequences; non-trivial = (a) at least one effective retirement of a live id, (b) at least one \
                retire-prior-to advance or one path switching to another id"
        .into();
    let mut ls = LStats::default();
    let mut rs = RStats::default();
    if let Some(path) = args.get("replay") {
        let v: Value = serde_json::from_str(&std::fs::read_to_string(path).unwrap()).unwrap();
        let v = if v.get("replay").is_some() { v["replay"].clone() } else { v };
        let ops = v["ops"].as_array().cloned().unwrap_or_default();
        match v["kind"].as_str().unwrap_or("") {
            "local" => eval_local(rep, &ops.iter().map(LOp::from_json).collect::<Vec<_>>(), &mut ls),
            "remote" => eval_remote(rep, v["limit"].as_u64().unwrap(), &ops.iter().map(ROp::from_json).collect::<Vec<_>>(), &mut rs),
            other => rep.inconclusive(format!("unknown replay kind {other:?}")),
        }
        emit(rep, &ls, &rs);
        return;
    }
    let thorough = args.get("tier") == Some("thorough");
    let shard = args.u64("shard", 0);
    let n = args.budget(if thorough { 60_000 } else { 4_000 });
    let mut rng = Rng::new(args.seed() ^ 0xc14).fork(shard);
    for i in 0..n {
        let ops = gen_local(&mut rng);
        if i < 2 {
            rep.sample(json!({"kind": "local", "ops": ops.iter().take(16).map(|o| o.to_json()).collect::<Vec<_>>()}));
        }
        eval_local(rep, &ops, &mut ls);
        let (limit, ops) = gen_remote(&mut rng);
        if i < 2 {
            rep.sample(json!({"kind": "remote", "limit": limit, "ops": ops.iter().take(16).map(|o| o.to_json()).collect::<Vec<_>>()}));
        }
        eval_remote(rep, limit, &ops, &mut rs);
    }
    rep.add("local_histories", n);
    rep.add("remote_histories", n);
    emit(rep, &ls, &rs);
}

fn emit(rep: &mut Report, ls: &LStats, rs: &RStats) {
    rep.add("router_probes", ls.probes);
    rep.add("router_probes_hit_own_queue", ls.probes_hit);
    rep.add("router_probes_unroutable_as_expected", ls.probes_miss);
    rep.add("local_retire_effective", ls.retire_effective);
    rep.add("local_retire_duplicate", ls.retire_duplicate);
    rep.add("local_retire_never_issued", ls.retire_unissued);
    rep.add("local_new_cid_frames", ls.frames);
    rep.add("local_set_limit_outstanding_equals_limit", ls.at_limit);
    rep.add("local_set_limit_outstanding_below_limit", ls.below_limit);
    rep.max("max_connections_on_router", ls.max_conns);
    rep.add("router_odcid_takeovers", ls.odcid_takeovers);
    rep.add("router_stale_odcid_entries_checked", ls.stale_odcid_entries_checked);
    rep.add("remote_frames", rs.frames);
    rep.add("remote_frames_duplicate", rs.frames_dup);
    rep.add("remote_frames_reordered", rs.frames_reordered);
    rep.add("remote_limit_errors", rs.limit_errors);
    rep.add("remote_limit_errors_not_required_by_limit", rs.limit_errors_unjustified);
    rep.add("remote_over_limit_by_one_accepted", rs.over_limit_by_one_accepted);
    rep.add("remote_borrows_ok", rs.borrows_ok);
    rep.add("remote_borrows_pending", rs.borrows_pending);
    rep.add("remote_borrows_on_retired_path", rs.borrows_none);
    rep.add("remote_path_switches", rs.switches);
    rep.add("remote_retire_frames", rs.retire_frames);
    rep.add("remote_rpt_advances", rs.rpt_advances);
    rep.add("remote_quiescence_checks", rs.quiescence_checks);
    rep.add("remote_stuck_paths", rs.stuck_cells);
    rep.max("max_paths", rs.max_cells);
}
