//! C12 — stream limits, stream direction and final size are enforced.
//!
//! Leg 1 (one victim endpoint, hostile peer): for both roles, initial stream counts
//! {0,1,2,10,100} and both concurrency strategies of qbase/src/sid/handy.rs, a table of peer
//! frames with the outcome RFC 9000 requires: stream index >= advertised maximum => STREAM_LIMIT_ERROR
//! (§4.6, §19.11); STREAM / RESET_STREAM / STREAM_DATA_BLOCKED on a stream the victim opened as
//! send-only, STOP_SENDING / MAX_STREAM_DATA on a stream the victim only receives on =>
//! STREAM_STATE_ERROR (§19.4, 19.5, 19.8, 19.10, 19.13); data beyond / FIN different from / RESET
//! different from a known final size, final size below received data => FINAL_SIZE_ERROR (§4.5).
//! Implicit open (§3.2 / §2.1): using index k makes exactly prev..=k appear on accept, once, in order.
//! Local opens: ids in order and < granted; MAX_STREAMS only ever raises; originated MAX_STREAMS never decrease.
//! Leg 2 (two honest endpoints, streams_h.rs): the same ledger over generated open-heavy histories.
use qbase::sid::Dir;
use serde_json::{Value, json};
use vcore::{Args, Report, Rng};

use crate::{c01::{features_hash, report_case}, streams_h::*};

const COUNTS: [u64; 5] = [0, 1, 2, 10, 100];

fn cfg_for(victim: Side, bidi: u64, uni: u64, demand: bool, peer_bidi: u64, peer_uni: u64) -> Cfg {
    let vl = Limits { max_data: 1 << 30, bidi_local: 1 << 20, bidi_remote: 1 << 20, uni: 1 << 20, streams_bidi: bidi, streams_uni: uni };
    let pl = Limits { max_data: 1 << 30, bidi_local: 1 << 20, bidi_remote: 1 << 20, uni: 1 << 20, streams_bidi: peer_bidi, streams_uni: peer_uni };
    let lim = if victim == Side::C { [vl, pl] } else { [pl, vl] };
    Cfg { lim, demand: [demand, demand], cseed: 0 }
}

#[derive(Clone, Debug)]
enum Expect {
    Ok,
    Err(&'static str),
}

struct Scen {
    cfg: Cfg,
    victim: Side,
    steps: Vec<HStep>,
    expect: Expect,
    /// signature stem, e.g. "limit.accept-index-equals-max"
    clause: String,
    what: String,
}

fn frame_name(s: &HStep) -> &'static str {
    match s {
        HStep::Stream { fin: false, .. } => "stream",
        HStep::Stream { fin: true, .. } => "stream-fin",
        HStep::Reset { .. } => "reset_stream",
        HStep::Stop { .. } => "stop_sending",
        HStep::MaxStreamData { .. } => "max_stream_data",
        HStep::StreamDataBlocked { .. } => "stream_data_blocked",
        HStep::MaxStreams { .. } => "max_streams",
        HStep::StreamsBlocked { .. } => "streams_blocked",
        _ => "app",
    }
}

/// the frames a peer can use to refer to a stream (by kind index)
fn ref_frame(kind: u64, sid: u64) -> HStep {
    match kind {
        0 => HStep::Stream { sid, off: 0, len: 3, fin: false },
        1 => HStep::Reset { sid, code: 9, final_size: 3 },
        2 => HStep::StreamDataBlocked { sid, v: 5 },
        3 => HStep::Stop { sid, code: 9 },
        4 => HStep::MaxStreamData { sid, v: 77 },
        _ => HStep::Stream { sid, off: 0, len: 3, fin: true },
    }
}

fn eval(rep: &mut Report, sc: &Scen, run: &HRun) {
    rep.evaluations += 1;
    let last = sc.steps.len() - 1;
    let replay = || hostile_replay("c12-hostile", &sc.cfg, sc.victim, &sc.steps, json!({"clause": sc.clause, "expect": match &sc.expect { Expect::Ok => "Ok", Expect::Err(k) => k }, "what": sc.what}));
    for (i, r) in run.results.iter().enumerate() {
        match r {
            HRes::Panic(loc, msg) => {
                rep.violation(format!("C12.panic:{loc}"), format!("{}: step {i} {:?} panicked: {msg}", sc.what, sc.steps[i]), replay());
                return;
            }
            HRes::Err(kind, reason) if i < last => {
                rep.inconclusive(format!("c12 scenario {}: prefix step {i} {:?} refused with {kind}: {reason}", sc.clause, sc.steps[i]));
                return;
            }
            _ => {}
        }
    }
    let fname = frame_name(&sc.steps[last]);
    match (&sc.expect, &run.results[last]) {
        (Expect::Err(k), HRes::Err(kind, _)) if kind == k => {
            rep.count(&format!("hostile_refused_{k}"));
            rep.set("refused_frame_kinds", vcore::fnv_str(&format!("{k}{fname}")));
            rep.distinct(vcore::fnv_str(&format!("{:?}{:?}{:?}", sc.cfg, sc.victim, sc.steps)));
        }
        (Expect::Ok, HRes::Ok(_)) => {
            rep.count("legal_frames_accepted");
            rep.distinct(vcore::fnv_str(&format!("{:?}{:?}{:?}", sc.cfg, sc.victim, sc.steps)));
        }
        (Expect::Err(k), HRes::Ok(_)) => rep.violation(format!("C12.{}", sc.clause), format!("{}: {fname} was accepted, {k} required", sc.what), replay()),
        (Expect::Err(k), HRes::Err(kind, reason)) => rep.violation(format!("C12.{}:wrong-error:{kind}", sc.clause), format!("{}: {fname} answered with {kind} ({reason}), {k} required", sc.what), replay()),
        (Expect::Ok, HRes::Err(kind, reason)) => rep.violation(format!("C12.{}:legal-frame-refused:{kind}", sc.clause), format!("{}: legal {fname} refused with {kind}: {reason}", sc.what), replay()),
        (_, other) => rep.inconclusive(format!("c12 scenario ended with {other:?}")),
    }
}

fn judge(rep: &mut Report, sc: Scen) {
    let run = run_hostile(&sc.cfg, sc.victim, &sc.steps);
    eval(rep, &sc, &run);
}

/// advertised maximum stream count of the victim after `prefix`
fn advertised_max(cfg: &Cfg, victim: Side, prefix: &[HStep], dir: Dir) -> u64 {
    let init = if dir == Dir::Bi { cfg.lim[victim.ix()].streams_bidi } else { cfg.lim[victim.ix()].streams_uni };
    let run = run_hostile(cfg, victim, prefix);
    let mut a = init;
    for c in &run.originated {
        if let Ctl::Sc(qbase::frame::StreamCtlFrame::MaxStreams(m)) = c {
            let (d, v) = match m {
                qbase::frame::MaxStreamsFrame::Bi(v) => (Dir::Bi, v.into_u64()),
                qbase::frame::MaxStreamsFrame::Uni(v) => (Dir::Uni, v.into_u64()),
            };
            if d == dir {
                a = a.max(v);
            }
        }
    }
    a
}

fn limit_scenarios(rep: &mut Report, shard: u64, shards: u64) {
    let mut n = 0u64;
    for victim in [Side::C, Side::S] {
        for demand in [false, true] {
            for &m in &COUNTS {
                for dir in [Dir::Bi, Dir::Uni] {
                    for kind in 0..6u64 {
                        // STOP_SENDING / MAX_STREAM_DATA refer to the sending part: bidirectional streams only
                        if dir == Dir::Uni && (kind == 3 || kind == 4) {
                            continue;
                        }
                        for raised in [false, true] {
                            // `raised`: the limit was moved by the strategy first (demand: STREAMS_BLOCKED; consistent: a finished stream)
                            let cfg = cfg_for(victim, m, m, demand, 10, 10);
                            let peer = victim.peer().role();
                            let mut prefix = vec![];
                            if raised {
                                if demand {
                                    prefix.push(HStep::StreamsBlocked { dir, v: m });
                                } else {
                                    if m == 0 || dir == Dir::Bi {
                                        continue;
                                    }
                                    // finish peer uni stream 0 completely: consistent concurrency grants one more
                                    prefix.push(HStep::Stream { sid: mk_sid(peer, Dir::Uni, 0), off: 0, len: 2, fin: true });
                                }
                            }
                            let adv = advertised_max(&cfg, victim, &prefix, dir);
                            if raised && adv == m {
                                continue;
                            }
                            for k in [adv.wrapping_sub(1), adv, adv + 1, adv + 1000, (1 << 60) - 1] {
                                if k == u64::MAX || k > (1 << 60) - 1 {
                                    continue;
                                }
                                n += 1;
                                if n % shards != shard {
                                    continue;
                                }
                                let mut steps = prefix.clone();
                                steps.push(ref_frame(kind, mk_sid(peer, dir, k)));
                                let (expect, clause) = if k < adv {
                                    (Expect::Ok, "limit.below-max".to_string())
                                } else if k == adv {
                                    (Expect::Err("StreamLimit"), "limit.accept-index-equals-max".to_string())
                                } else {
                                    (Expect::Err("StreamLimit"), "limit.accept-index-above-max".to_string())
                                };
                                judge(rep, Scen { cfg: cfg.clone(), victim, steps, expect, clause, what: format!("victim {victim:?} ({}) advertises {adv} {dir:?} streams (initial {m}); peer uses index {k}", if demand { "demand" } else { "consistent" }) });
                            }
                        }
                    }
                }
            }
        }
    }
    rep.add("limit_table_rows_total", n);
}

fn direction_scenarios(rep: &mut Report) {
    for victim in [Side::C, Side::S] {
        let cfg = cfg_for(victim, 10, 10, false, 10, 10);
        let me = victim.role();
        let peer = victim.peer().role();
        for index in [0u64, 3] {
            // stream the victim opened as send-only: the peer must not send on it
            for kind in [0u64, 1, 2, 5] {
                let mut steps: Vec<HStep> = (0..=index).map(|_| HStep::Open(Dir::Uni)).collect();
                steps.push(ref_frame(kind, mk_sid(me, Dir::Uni, index)));
                judge(rep, Scen { cfg: cfg.clone(), victim, steps, expect: Expect::Err("StreamState"), clause: "direction.peer-sends-on-victims-send-only-stream".into(), what: format!("victim {victim:?} opened uni stream {index}") });
            }
            // stream the victim only receives on: the peer must not ask to stop sending / raise the send window
            for kind in [3u64, 4] {
                for known in [false, true] {
                    let sid = mk_sid(peer, Dir::Uni, index);
                    let mut steps = vec![];
                    if known {
                        steps.push(HStep::Stream { sid, off: 0, len: 1, fin: false });
                    }
                    steps.push(ref_frame(kind, sid));
                    judge(rep, Scen { cfg: cfg.clone(), victim, steps, expect: Expect::Err("StreamState"), clause: "direction.send-side-frame-on-victims-receive-only-stream".into(), what: format!("peer uni stream {index} of victim {victim:?} (known before: {known})") });
                }
            }
            // controls: the same frames on bidirectional streams are legal
            for kind in 0..6u64 {
                let mut steps: Vec<HStep> = (0..=index).map(|_| HStep::Open(Dir::Bi)).collect();
                steps.push(ref_frame(kind, mk_sid(me, Dir::Bi, index)));
                judge(rep, Scen { cfg: cfg.clone(), victim, steps, expect: Expect::Ok, clause: "direction.control-own-bidi".into(), what: format!("victim {victim:?} opened bidi stream {index}") });
                judge(rep, Scen { cfg: cfg.clone(), victim, steps: vec![ref_frame(kind, mk_sid(peer, Dir::Bi, index))], expect: Expect::Ok, clause: "direction.control-peer-bidi".into(), what: format!("peer bidi stream {index}") });
            }
            // observation only (not in the property statement): frames for a local stream that was never opened
            for kind in [0u64, 3, 4] {
                let run = run_hostile(&cfg, victim, &[ref_frame(kind, mk_sid(me, Dir::Bi, index))]);
                match &run.results[0] {
                    HRes::Err(k, _) => rep.count(&format!("obs_frame_on_unopened_local_stream_refused_{k}")),
                    HRes::Ok(_) => rep.count("obs_frame_on_unopened_local_stream_accepted"),
                    HRes::Panic(loc, msg) => rep.violation(format!("C12.panic:{loc}"), format!("frame on unopened local stream panicked: {msg}"), hostile_replay("c12-hostile", &cfg, victim, &[ref_frame(kind, mk_sid(me, Dir::Bi, index))], json!({"clause": "panic", "expect": "Ok", "what": ""}))),
                    _ => {}
                }
            }
        }
    }
}

fn final_size_scenarios(rep: &mut Report) {
    for victim in [Side::C, Side::S] {
        let cfg = cfg_for(victim, 10, 10, false, 10, 10);
        let me = victim.role();
        let peer = victim.peer().role();
        for (own, dir) in [(false, Dir::Uni), (false, Dir::Bi), (true, Dir::Bi)] {
            let sid = if own { mk_sid(me, dir, 0) } else { mk_sid(peer, dir, 1) };
            let open: Vec<HStep> = if own { vec![HStep::Open(Dir::Bi)] } else { vec![] };
            let s = |off: u64, len: usize, fin: bool| HStep::Stream { sid, off, len, fin };
            let rst = |fs: u64| HStep::Reset { sid, code: 3, final_size: fs };
            // final size 15 known, bytes 0..10 still missing (receiver keeps the stream in "size known")
            let size_known = vec![s(10, 5, true)];
            // 15 bytes received, no FIN yet
            let recv15 = vec![s(0, 15, false)];
            // partly read by the application
            let recv15_read = vec![s(0, 15, false), HStep::AcceptAll, HStep::ReadAll];
            let table: Vec<(&str, Vec<HStep>, HStep, Expect)> = vec![
                ("data-beyond-final-size", size_known.clone(), s(15, 1, false), Expect::Err("FinalSize")),
                ("data-beyond-final-size", size_known.clone(), s(20, 3, false), Expect::Err("FinalSize")),
                ("data-beyond-final-size", size_known.clone(), s(5, 11, false), Expect::Err("FinalSize")),
                ("fin-changes-final-size", size_known.clone(), s(0, 5, true), Expect::Err("FinalSize")),
                ("fin-changes-final-size", size_known.clone(), s(10, 7, true), Expect::Err("FinalSize")),
                ("fin-changes-final-size", size_known.clone(), s(14, 0, true), Expect::Err("FinalSize")),
                ("reset-changes-final-size", size_known.clone(), rst(14), Expect::Err("FinalSize")),
                ("reset-changes-final-size", size_known.clone(), rst(16), Expect::Err("FinalSize")),
                ("reset-changes-final-size", size_known.clone(), rst(0), Expect::Err("FinalSize")),
                ("fin-below-received", recv15.clone(), s(0, 3, true), Expect::Err("FinalSize")),
                ("fin-below-received", recv15.clone(), s(14, 0, true), Expect::Err("FinalSize")),
                ("fin-below-received", recv15_read.clone(), s(3, 4, true), Expect::Err("FinalSize")),
                ("reset-below-received", recv15.clone(), rst(14), Expect::Err("FinalSize")),
                ("reset-below-received", recv15.clone(), rst(0), Expect::Err("FinalSize")),
                ("reset-below-received", recv15_read.clone(), rst(7), Expect::Err("FinalSize")),
                // controls: consistent final sizes are legal
                ("control", size_known.clone(), s(10, 5, true), Expect::Ok),
                ("control", size_known.clone(), s(0, 15, true), Expect::Ok),
                ("control", size_known.clone(), s(3, 4, false), Expect::Ok),
                ("control", size_known.clone(), rst(15), Expect::Ok),
                ("control", recv15.clone(), s(15, 0, true), Expect::Ok),
                ("control", recv15.clone(), s(10, 9, true), Expect::Ok),
                ("control", recv15.clone(), rst(15), Expect::Ok),
                ("control", recv15.clone(), rst(400), Expect::Ok),
            ];
            for (name, prefix, hostile, expect) in table {
                let mut steps = open.clone();
                steps.extend(prefix);
                steps.push(hostile);
                judge(rep, Scen { cfg: cfg.clone(), victim, steps, expect, clause: format!("final-size.{name}"), what: format!("victim {victim:?}, {} {dir:?} stream", if own { "own" } else { "peer" }) });
            }
        }
    }
}

fn implicit_open_scenarios(rep: &mut Report, rng: &mut Rng, n: u64) {
    for _ in 0..n {
        let victim = if rng.bool() { Side::C } else { Side::S };
        let demand = rng.bool();
        let m = *rng.pick(&[1u64, 2, 10, 100]);
        let cfg = cfg_for(victim, m, m, demand, 10, 10);
        let peer = victim.peer().role();
        let mut steps = vec![];
        // model: next unseen index per direction, expected accept order
        let mut next = [0u64; 2];
        let mut expected: Vec<(Dir, u64)> = vec![];
        let mut pending: Vec<(Dir, u64)> = vec![];
        for _ in 0..rng.range(1, 8) {
            let dir = if rng.bool() { Dir::Bi } else { Dir::Uni };
            let d = dir_u(dir) as usize;
            let k = rng.below(m); // always below the limit: legal use
            let kind = loop {
                let kd = rng.below(6);
                if !(dir == Dir::Uni && (kd == 3 || kd == 4)) {
                    break kd;
                }
            };
            steps.push(ref_frame(kind, mk_sid(peer, dir, k)));
            while next[d] <= k {
                pending.push((dir, next[d]));
                next[d] += 1;
            }
            if rng.chance(1, 2) {
                steps.push(HStep::AcceptAll);
                // accept order within one AcceptAll: all bidi first, then all uni (the harness polls in that order)
                pending.sort_by_key(|(dd, i)| (dir_u(*dd), *i));
                expected.append(&mut pending);
            }
        }
        steps.push(HStep::AcceptAll);
        pending.sort_by_key(|(dd, i)| (dir_u(*dd), *i));
        expected.append(&mut pending);
        let run = run_hostile(&cfg, victim, &steps);
        rep.evaluations += 1;
        let replay = hostile_replay("c12-implicit", &cfg, victim, &steps, json!({"clause": "implicit-open", "expect": "Ok", "what": ""}));
        if let Some((i, r)) = run.results.iter().enumerate().find(|(_, r)| matches!(r, HRes::Err(..) | HRes::Panic(..))) {
            match r {
                HRes::Panic(loc, msg) => rep.violation(format!("C12.panic:{loc}"), format!("implicit-open scenario step {i} panicked: {msg}"), replay),
                HRes::Err(kind, reason) => rep.violation(format!("C12.implicit-open.legal-frame-refused:{kind}"), format!("legal frame {:?} (index below the limit {m}) refused: {reason}", steps[i]), replay),
                _ => {}
            }
            continue;
        }
        check_implicit(rep, &run.accepted, &expected, replay);
        rep.add("implicit_open_streams_accepted", run.accepted.len() as u64);
        rep.distinct(vcore::fnv_str(&format!("{:?}{:?}", victim, steps)));
    }
}

fn check_implicit(rep: &mut Report, got: &[(Dir, u64)], expected: &[(Dir, u64)], replay: Value) {
    if got == expected {
        rep.count("implicit_open_histories_exact");
        return;
    }
    let mut sorted = got.to_vec();
    sorted.sort_by_key(|(d, i)| (dir_u(*d), *i));
    let mut dedup = sorted.clone();
    dedup.dedup();
    let mut exp_sorted = expected.to_vec();
    exp_sorted.sort_by_key(|(d, i)| (dir_u(*d), *i));
    let clause = if dedup.len() != sorted.len() {
        "implicit-open.offered-twice"
    } else if sorted.len() < exp_sorted.len() {
        "implicit-open.stream-missing"
    } else if sorted.len() > exp_sorted.len() {
        "implicit-open.extra-stream"
    } else {
        "implicit-open.accept-order"
    };
    rep.violation(format!("C12.{clause}"), format!("accept yielded {got:?}, implicit-open model requires {expected:?}"), replay);
}

fn local_open_scenarios(rep: &mut Report) {
    for victim in [Side::C, Side::S] {
        for &g in &COUNTS {
            for dir in [Dir::Bi, Dir::Uni] {
                for bump in [0u64, 1, 5] {
                    rep.evaluations += 1;
                    let cfg = cfg_for(victim, 10, 10, false, g, g);
                    let tries = (g + 2).min(14);
                    let mut steps: Vec<HStep> = (0..tries).map(|_| HStep::Open(dir)).collect();
                    // a lower and an equal MAX_STREAMS must change nothing, a higher one grants exactly the difference
                    steps.push(HStep::MaxStreams { dir, v: g.saturating_sub(1) });
                    steps.push(HStep::MaxStreams { dir, v: g });
                    steps.push(HStep::Open(dir));
                    steps.push(HStep::MaxStreams { dir, v: g + bump });
                    // a stale lower value after the raise must be ignored as well
                    steps.push(HStep::MaxStreams { dir, v: g.saturating_sub(1) });
                    for _ in 0..bump + 1 {
                        steps.push(HStep::Open(dir));
                    }
                    let run = run_hostile(&cfg, victim, &steps);
                    let replay = hostile_replay("c12-local-open", &cfg, victim, &steps, json!({"clause": "open", "expect": "Ok", "what": format!("granted {g} bump {bump}")}));
                    if let Some((i, HRes::Panic(loc, msg))) = run.results.iter().enumerate().find(|(_, r)| matches!(r, HRes::Panic(..))) {
                        rep.violation(format!("C12.panic:{loc}"), format!("local-open scenario step {i} panicked: {msg}"), replay);
                        continue;
                    }
                    // model
                    let mut granted = g;
                    let mut next = 0u64;
                    let mut bad = None;
                    for (i, st) in steps.iter().enumerate() {
                        match st {
                            HStep::MaxStreams { v, .. } => granted = granted.max(*v),
                            HStep::Open(_) => {
                                let HRes::App(got) = &run.results[i] else { continue };
                                if next < granted {
                                    let want = mk_sid(victim.role(), dir, next);
                                    if got != &vec![want] {
                                        bad = Some(("open.blocked-below-limit-or-wrong-id", format!("open #{i}: expected stream index {next} (granted {granted}), got raw ids {got:?}")));
                                        break;
                                    }
                                    next += 1;
                                } else if !got.is_empty() {
                                    bad = Some(("open.beyond-limit", format!("open #{i} returned raw ids {got:?} although only {granted} streams are granted and {next} are open")));
                                    break;
                                }
                            }
                            _ => {}
                        }
                    }
                    match bad {
                        Some((clause, d)) => rep.violation(format!("C12.{clause}"), format!("victim {victim:?} {dir:?} granted {g}: {d}"), replay),
                        None => {
                            rep.count("local_open_histories_conform");
                            rep.add("local_opens_checked", next);
                            let blocked = run.originated.iter().filter(|c| c.name() == "streams_blocked").count();
                            rep.add("streams_blocked_frames_seen", blocked as u64);
                            rep.distinct(vcore::fnv_str(&format!("{:?}{:?}{}{}", victim, dir, g, bump)));
                        }
                    }
                }
            }
        }
    }
}

fn advertise_scenarios(rep: &mut Report) {
    for victim in [Side::C, Side::S] {
        for demand in [false, true] {
            for &m in &COUNTS {
                for dir in [Dir::Bi, Dir::Uni] {
                    for seq in [vec![m], vec![m, m + 1], vec![m, 0], vec![m, m + 1, m], vec![0], vec![m.saturating_sub(1)], vec![m + 5, m]] {
                        rep.evaluations += 1;
                        let cfg = cfg_for(victim, m, m, demand, 10, 10);
                        let steps: Vec<HStep> = seq.iter().map(|v| HStep::StreamsBlocked { dir, v: *v }).collect();
                        let run = run_hostile(&cfg, victim, &steps);
                        let replay = hostile_replay("c12-advertise", &cfg, victim, &steps, json!({"clause": "advertise", "expect": "Ok", "what": ""}));
                        if let Some((i, HRes::Panic(loc, msg))) = run.results.iter().enumerate().find(|(_, r)| matches!(r, HRes::Panic(..))) {
                            rep.violation(format!("C12.panic:{loc}"), format!("STREAMS_BLOCKED step {i} panicked: {msg}"), replay);
                            continue;
                        }
                        let mut adv = m;
                        let mut bad = None;
                        for c in &run.originated {
                            if let Ctl::Sc(qbase::frame::StreamCtlFrame::MaxStreams(f)) = c {
                                let (d, v) = match f {
                                    qbase::frame::MaxStreamsFrame::Bi(v) => (Dir::Bi, v.into_u64()),
                                    qbase::frame::MaxStreamsFrame::Uni(v) => (Dir::Uni, v.into_u64()),
                                };
                                if d != dir {
                                    continue;
                                }
                                rep.count("max_streams_originated_checked");
                                if v < adv {
                                    bad = Some(format!("victim {victim:?} originated MAX_STREAMS({dir:?}) = {v} after having advertised {adv} (peer sent STREAMS_BLOCKED {seq:?})"));
                                    break;
                                }
                                adv = v;
                            }
                        }
                        match bad {
                            Some(d) => rep.violation(format!("C12.advertise.max-streams-decreased:{}", if demand { "demand-concurrency" } else { "consistent-concurrency" }), d, replay),
                            None => rep.count("advertise_histories_monotone"),
                        }
                    }
                }
            }
        }
    }
}

fn run_e2e(rep: &mut Report, cfg: &Cfg, ops: &[Op], fin: bool) -> Option<CaseOut> {
    let r = vcore::panics::catch(|| run_case(cfg, ops, fin, false));
    rep.evaluations += 1;
    match r {
        Ok(out) => {
            report_case(rep, "C12", "c12-e2e", cfg, ops, fin, &out);
            Some(out)
        }
        Err(p) => {
            let loc = vcore::panics::short_location(&p.location);
            rep.violation(format!("C12.panic:{loc}"), format!("panic outside the guarded calls: {} at {}", p.message, p.location), case_replay("c12-e2e", cfg, ops, ops.len(), fin));
            None
        }
    }
}

fn replay(rep: &mut Report, v: &Value) {
    let kind = v["kind"].as_str().unwrap_or("");
    if kind == "c12-e2e" {
        let (cfg, ops, fin) = case_from_replay(v);
        run_e2e(rep, &cfg, &ops, fin);
        return;
    }
    let (cfg, victim, steps, ex) = hostile_from_replay(v);
    let run = run_hostile(&cfg, victim, &steps);
    match kind {
        "c12-hostile" => {
            let expect = match ex["expect"].as_str().unwrap_or("Ok") {
                "StreamLimit" => Expect::Err("StreamLimit"),
                "StreamState" => Expect::Err("StreamState"),
                "FinalSize" => Expect::Err("FinalSize"),
                _ => Expect::Ok,
            };
            let sc = Scen { cfg, victim, steps, expect, clause: ex["clause"].as_str().unwrap_or("replay").to_string(), what: ex["what"].as_str().unwrap_or("").to_string() };
            eval(rep, &sc, &run);
        }
        "c12-advertise" => {
            rep.evaluations += 1;
            let mut adv: [u64; 2] = [cfg.lim[victim.ix()].streams_bidi, cfg.lim[victim.ix()].streams_uni];
            for c in &run.originated {
                if let Ctl::Sc(qbase::frame::StreamCtlFrame::MaxStreams(f)) = c {
                    let (d, val) = match f {
                        qbase::frame::MaxStreamsFrame::Bi(x) => (0, x.into_u64()),
                        qbase::frame::MaxStreamsFrame::Uni(x) => (1, x.into_u64()),
                    };
                    if val < adv[d] {
                        rep.violation(format!("C12.advertise.max-streams-decreased:{}", if cfg.demand[victim.ix()] { "demand-concurrency" } else { "consistent-concurrency" }), format!("victim {victim:?} originated MAX_STREAMS = {val} after having advertised {}", adv[d]), v.clone());
                        return;
                    }
                    adv[d] = val;
                }
            }
        }
        _ => rep.inconclusive(format!("replay kind {kind} is regenerated by the enumeration, not replayable on its own")),
    }
}

pub fn run(args: &Args, rep: &mut Report) {
    rep.rule = "hostile leg: distinct = distinct (parameters, victim role, strategy, frame list) scenarios whose outcome matched the RFC table; honest leg: distinct = distinct op \
                lists in which at least one open was blocked by the stream limit or one MAX_STREAMS was delivered"
        .into();
    let rt = tokio::runtime::Builder::new_current_thread().enable_time().start_paused(true).build().unwrap();
    let _g = rt.enter();
    if let Some(path) = args.get("replay") {
        let v: Value = serde_json::from_str(&std::fs::read_to_string(path).unwrap()).unwrap();
        let v = if v.get("replay").is_some() { v["replay"].clone() } else { v };
        replay(rep, &v);
        return;
    }
    let thorough = args.get("tier") == Some("thorough");
    let shard = args.u64("shard", 0);
    let shards = args.u64("shards", 1);
    limit_scenarios(rep, shard, shards);
    if shard == 0 {
        direction_scenarios(rep);
        final_size_scenarios(rep);
        local_open_scenarios(rep);
        advertise_scenarios(rep);
    }
    let mut rng = Rng::new(args.seed() ^ 0xc12).fork(shard);
    implicit_open_scenarios(rep, &mut rng, if thorough { 20_000 } else { 400 });
    let n = args.budget(if thorough { 10_000 } else { 200 });
    for i in 0..n {
        let cfg = gen_cfg(&mut rng, Profile::C12);
        let ops = gen_ops(&mut rng, Profile::C12, &cfg);
        let Some(out) = run_e2e(rep, &cfg, &ops, true) else { continue };
        add_stats(rep, &out.stats, &out.ledger);
        rep.set("fault_feature_mixes", features_hash(&out.stats));
        rep.count("e2e_cases");
        if out.stats.open_blocked > 0 || out.ledger.max_streams_delivered > 0 {
            rep.distinct(ops_hash(&ops) ^ cfg.cseed);
        }
        if i < 2 {
            rep.sample(json!({"cfg": cfg.to_json(), "n_ops": ops.len(), "opens": out.stats.opens, "open_blocked": out.stats.open_blocked, "accepts": out.stats.accepts}));
        }
    }
}
