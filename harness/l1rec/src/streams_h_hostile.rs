// (included by streams_h_gen.rs) — single-endpoint hostile-peer scenarios: a victim endpoint receives an
// explicit list of frames through the same dispatch path as in the two-endpoint harness.

#[derive(Clone, Debug, PartialEq)]
pub enum HStep {
    /// the victim's application opens a stream (so the peer can legally refer to it)
    Open(Dir),
    Stream { sid: u64, off: u64, len: usize, fin: bool },
    Reset { sid: u64, code: u64, final_size: u64 },
    Stop { sid: u64, code: u64 },
    MaxStreamData { sid: u64, v: u64 },
    StreamDataBlocked { sid: u64, v: u64 },
    MaxStreams { dir: Dir, v: u64 },
    StreamsBlocked { dir: Dir, v: u64 },
    /// the victim's application accepts everything that is acceptable right now
    AcceptAll,
    /// the victim's application reads everything readable on all accepted / opened streams
    ReadAll,
}

pub fn mk_sid(role: Role, dir: Dir, index: u64) -> u64 {
    sid_raw(StreamId::new(role, dir, index))
}

pub fn sid_from(raw: u64) -> StreamId {
    StreamId::from(VarInt::from_u64(raw).unwrap())
}

impl HStep {
    pub fn to_json(&self) -> Value {
        match self {
            HStep::Open(d) => json!(["open", dir_u(*d)]),
            HStep::Stream { sid, off, len, fin } => json!(["s", sid, off, len, fin]),
            HStep::Reset { sid, code, final_size } => json!(["rst", sid, code, final_size]),
            HStep::Stop { sid, code } => json!(["stop", sid, code]),
            HStep::MaxStreamData { sid, v } => json!(["msd", sid, v]),
            HStep::StreamDataBlocked { sid, v } => json!(["sdb", sid, v]),
            HStep::MaxStreams { dir, v } => json!(["ms", dir_u(*dir), v]),
            HStep::StreamsBlocked { dir, v } => json!(["sb", dir_u(*dir), v]),
            HStep::AcceptAll => json!(["acc"]),
            HStep::ReadAll => json!(["read"]),
        }
    }
    pub fn from_json(v: &Value) -> HStep {
        let u = |i: usize| v[i].as_u64().unwrap();
        match v[0].as_str().unwrap() {
            "open" => HStep::Open(dir_of(u(1))),
            "s" => HStep::Stream { sid: u(1), off: u(2), len: u(3) as usize, fin: v[4].as_bool().unwrap() },
            "rst" => HStep::Reset { sid: u(1), code: u(2), final_size: u(3) },
            "stop" => HStep::Stop { sid: u(1), code: u(2) },
            "msd" => HStep::MaxStreamData { sid: u(1), v: u(2) },
            "sdb" => HStep::StreamDataBlocked { sid: u(1), v: u(2) },
            "ms" => HStep::MaxStreams { dir: dir_of(u(1)), v: u(2) },
            "sb" => HStep::StreamsBlocked { dir: dir_of(u(1)), v: u(2) },
            "acc" => HStep::AcceptAll,
            _ => HStep::ReadAll,
        }
    }
    /// the frame a peer would put on the wire for this step (None for application steps)
    pub fn frame(&self) -> Option<Frame> {
        let vi = |x: u64| VarInt::from_u64(x).unwrap();
        use qbase::frame::{MaxStreamDataFrame, MaxStreamsFrame, ResetStreamFrame, StopSendingFrame, StreamDataBlockedFrame, StreamsBlockedFrame};
        Some(match self {
            HStep::Stream { sid, off, len, fin } => {
                let mut f = StreamFrame::new(sid_from(*sid), *off, *len);
                f.set_eos_flag(*fin);
                Frame::Stream(f, Bytes::from(vec![0x5au8; *len]))
            }
            HStep::Reset { sid, code, final_size } => Frame::StreamCtl(StreamCtlFrame::ResetStream(ResetStreamFrame::new(sid_from(*sid), vi(*code), vi(*final_size)))),
            HStep::Stop { sid, code } => Frame::StreamCtl(StreamCtlFrame::StopSending(StopSendingFrame::new(sid_from(*sid), vi(*code)))),
            HStep::MaxStreamData { sid, v } => Frame::StreamCtl(StreamCtlFrame::MaxStreamData(MaxStreamDataFrame::new(sid_from(*sid), vi(*v)))),
            HStep::StreamDataBlocked { sid, v } => Frame::StreamCtl(StreamCtlFrame::StreamDataBlocked(StreamDataBlockedFrame::new(sid_from(*sid), vi(*v)))),
            HStep::MaxStreams { dir, v } => Frame::StreamCtl(StreamCtlFrame::MaxStreams(MaxStreamsFrame::with(*dir, vi(*v)))),
            HStep::StreamsBlocked { dir, v } => Frame::StreamCtl(StreamCtlFrame::StreamsBlocked(StreamsBlockedFrame::with(*dir, vi(*v)))),
            _ => return None,
        })
    }
}

#[derive(Debug, Clone)]
pub enum HRes {
    /// frame accepted; value = fresh bytes the stream layer reported
    Ok(usize),
    /// connection error (kind, reason)
    Err(String, String),
    Panic(String, String),
    /// application step: stream indices obtained
    App(Vec<u64>),
    Skipped,
}

pub struct HRun {
    pub results: Vec<HRes>,
    /// peer-initiated streams the victim's application accepted, in order: (dir, index)
    pub accepted: Vec<(Dir, u64)>,
    pub opened: Vec<u64>,
    pub originated: Vec<Ctl>,
    pub bytes_read: u64,
}

/// Run the steps against a fresh victim endpoint; stops at the first connection error or panic.
pub fn run_hostile(cfg: &Cfg, victim: Side, steps: &[HStep]) -> HRun {
    let e = Endpoint::new(victim, cfg);
    let flag = Arc::new(Flag::default());
    let waker = Waker::from(flag);
    let mut out = HRun { results: vec![], accepted: vec![], opened: vec![], originated: vec![], bytes_read: 0 };
    let mut readers: Vec<R> = vec![];
    let mut writers: Vec<W> = vec![];
    let mut dead = false;
    for st in steps {
        if dead {
            out.results.push(HRes::Skipped);
            continue;
        }
        let res = match st {
            HStep::Open(d) => {
                let mut got = vec![];
                match d {
                    Dir::Bi => {
                        if let Poll::Ready(Ok(Some((sid, (r, w))))) = poll_once(e.streams.open_bi(&e.params), &waker) {
                            got.push(sid_raw(sid));
                            readers.push(r);
                            writers.push(w);
                        }
                    }
                    Dir::Uni => {
                        if let Poll::Ready(Ok(Some((sid, w)))) = poll_once(e.streams.open_uni(&e.params), &waker) {
                            got.push(sid_raw(sid));
                            writers.push(w);
                        }
                    }
                }
                out.opened.extend(got.iter().copied());
                HRes::App(got)
            }
            HStep::AcceptAll => {
                let mut got = vec![];
                while let Poll::Ready(Ok((sid, (r, w)))) = poll_once(e.streams.accept_bi(&e.params), &waker) {
                    out.accepted.push((Dir::Bi, sid.id()));
                    got.push(sid_raw(sid));
                    readers.push(r);
                    writers.push(w);
                }
                while let Poll::Ready(Ok((sid, r))) = poll_once(e.streams.accept_uni(), &waker) {
                    out.accepted.push((Dir::Uni, sid.id()));
                    got.push(sid_raw(sid));
                    readers.push(r);
                }
                HRes::App(got)
            }
            HStep::ReadAll => {
                let mut cx = Context::from_waker(&waker);
                for r in readers.iter_mut() {
                    loop {
                        let mut dst = BytesMut::with_capacity(4096).limit(4096);
                        match r.poll_read(&mut cx, &mut dst) {
                            Poll::Ready(Ok(())) => {
                                let n = dst.into_inner().len();
                                out.bytes_read += n as u64;
                                if n == 0 {
                                    break;
                                }
                            }
                            _ => break,
                        }
                    }
                }
                HRes::App(vec![])
            }
            other => {
                let f = other.frame().unwrap();
                match vcore::panics::catch(|| e.recv_frame(f)) {
                    Ok(Ok(n)) => HRes::Ok(n),
                    Ok(Err(err)) => {
                        dead = true;
                        HRes::Err(kind_name(err.kind()), format!("{err}"))
                    }
                    Err(p) => {
                        dead = true;
                        HRes::Panic(vcore::panics::short_location(&p.location), p.message)
                    }
                }
            }
        };
        out.results.push(res);
        out.originated.extend(e.sink.take_originated());
    }
    if out.results.iter().any(|r| matches!(r, HRes::Panic(..))) {
        // a panic inside the library poisons its mutexes; dropping Reader / Writer would panic again
        std::mem::forget(readers);
        std::mem::forget(writers);
        std::mem::forget(e);
    }
    out
}

pub fn hostile_replay(kind: &str, cfg: &Cfg, victim: Side, steps: &[HStep], extra: Value) -> Value {
    json!({"kind": kind, "cfg": cfg.to_json(), "victim": victim as u64, "steps": steps.iter().map(|s| s.to_json()).collect::<Vec<_>>(), "expect": extra})
}

pub fn hostile_from_replay(v: &Value) -> (Cfg, Side, Vec<HStep>, Value) {
    (
        Cfg::from_json(&v["cfg"]),
        Side::from_u(v["victim"].as_u64().unwrap()),
        v["steps"].as_array().unwrap().iter().map(HStep::from_json).collect(),
        v["expect"].clone(),
    )
}
