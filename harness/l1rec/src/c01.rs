//! C01 — stream data is delivered reliably, in order, exactly once.
//!
//! Two real `DataStreams` endpoints (streams_h.rs) exchange PRF content over a channel that loses,
//! delays, reorders and duplicates packets and feeds back ack / loss verdicts (ack-after-loss,
//! repeated loss, delayed ack).  Oracle: every byte a `Reader` returns is `prf(seed, flow, offset)`
//! at exactly the next offset; EOF only at the writer's final size; reset outcomes only when the
//! harness itself cancelled / stopped; after the faults end, a waker-driven pump over a clean
//! network must bring every stream to `nread == written ∧ EOF ∧ shutdown() = Ok` within
//! K = 4·(#flows + outstanding frames) + 16 (+ flow-control allowance) rounds, and a fixpoint with
//! unfinished streams is reported as stuck.
use serde_json::{Value, json};
use vcore::{Args, Report, Rng};

use crate::streams_h::*;

pub fn report_case(rep: &mut Report, prop: &'static str, kind: &str, cfg: &Cfg, ops: &[Op], fin: bool, out: &CaseOut) -> bool {
    let mut own = false;
    for f in &out.fails {
        if f.prop == prop || f.prop == "ANY" {
            own = true;
            rep.violation(format!("{prop}.{}", f.clause), format!("step {}: {}", f.step, f.detail), case_replay(kind, cfg, ops, f.step + 1, fin));
        } else {
            rep.count(&format!("foreign_root_cause_{}.{}", f.prop, f.clause));
        }
    }
    if let Some(why) = &out.inconclusive {
        rep.inconclusive(why.clone());
    }
    own
}

pub fn features_hash(s: &Stats) -> u64 {
    let bits = [
        s.dropped > 0,
        s.duplicated > 0,
        s.delayed > 0,
        s.reordered_deliveries > 0,
        s.spurious_losses > 0,
        s.ack_after_loss > 0,
        s.repeated_loss > 0,
        s.range_acked_twice > 0,
        s.loss_after_range_acked > 0,
        s.retx_stream_frames > 0,
        s.retx_ctl_frames > 0,
        s.resets_seen > 0,
        s.write_pending > 0,
        s.open_blocked > 0,
        s.fin_frames > 0,
    ];
    bits.iter().fold(0u64, |a, b| a << 1 | *b as u64)
}

fn run_one(rep: &mut Report, cfg: &Cfg, ops: &[Op], fin: bool) -> CaseOut {
    let r = vcore::panics::catch(|| run_case(cfg, ops, fin, true));
    rep.evaluations += 1;
    match r {
        Ok(out) => {
            report_case(rep, "C01", "c01-e2e", cfg, ops, fin, &out);
            out
        }
        Err(p) => {
            let loc = vcore::panics::short_location(&p.location);
            rep.violation(format!("C01.panic:{loc}"), format!("panic outside the guarded calls: {} at {}", p.message, p.location), case_replay("c01-e2e", cfg, ops, ops.len(), fin));
            run_case(cfg, &[], false, false)
        }
    }
}

pub fn run(args: &Args, rep: &mut Report) {
    rep.rule = "case = (16 transport-parameter values, concurrency strategies, explicit op list of opens / writes / reads / shutdown / flush / cancel / stop / \
                packet assemblies with capacity, fate and ack-loss verdicts / ticks); distinct = distinct op lists (hash); non-trivial = at least one STREAM range was \
                retransmitted AND at least one packet was dropped, duplicated or delivered out of order AND at least one byte was read and verified"
        .into();
    let rt = tokio::runtime::Builder::new_current_thread().enable_time().start_paused(true).build().unwrap();
    let _g = rt.enter();
    if let Some(path) = args.get("replay") {
        let v: Value = serde_json::from_str(&std::fs::read_to_string(path).unwrap()).unwrap();
        let v = if v.get("replay").is_some() { v["replay"].clone() } else { v };
        let (cfg, ops, fin) = case_from_replay(&v);
        run_one(rep, &cfg, &ops, fin);
        return;
    }
    let thorough = args.get("tier") == Some("thorough");
    let shard = args.u64("shard", 0);
    let n = args.budget(if thorough { 20_000 } else { 250 });
    let mut rng = Rng::new(args.seed() ^ 0xc01).fork(shard);
    for i in 0..n {
        let cfg = gen_cfg(&mut rng, Profile::C01);
        let ops = gen_ops(&mut rng, Profile::C01, &cfg);
        let out = run_one(rep, &cfg, &ops, true);
        add_stats(rep, &out.stats, &out.ledger);
        rep.set("fault_feature_mixes", features_hash(&out.stats));
        rep.set("final_flow_states", out.state_hash);
        rep.add("flows", out.flows as u64);
        rep.max("max_final_rounds", out.final_rounds);
        rep.max("max_k_bound", out.k_bound);
        if out.completed {
            rep.count("cases_completed_all_streams");
        }
        let s = &out.stats;
        if s.retx_stream_frames > 0 && (s.dropped > 0 || s.duplicated > 0 || s.reordered_deliveries > 0) && s.bytes_read > 0 {
            rep.distinct(ops_hash(&ops) ^ cfg.cseed);
        }
        if i < 2 {
            rep.sample(json!({"cfg": cfg.to_json(), "n_ops": ops.len(), "first_ops": ops.iter().take(10).map(|o| o.to_json()).collect::<Vec<_>>(),
                "completed": out.completed, "final_rounds": out.final_rounds, "k": out.k_bound, "flows": out.flows}));
        }
    }
}
