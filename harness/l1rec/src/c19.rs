//! C19 (L1 part) — datagrams are carried whole, within the peer's size limit, or not at all.
//!
//! One history drives three real `qdatagram::DatagramFlow`s:
//!  * `tx`  — the sender under test: `writer(peer_max)`, `DatagramWriter::send`, `try_load_data_into`
//!            against custom packet targets (bounded `BufMut` + `RecordFrame`) whose remaining space is
//!            chosen relative to the datagram at the head of the queue;
//!  * `rx`  — a real receiver that advertised `peer_max` (`DatagramFlow::new(peer_max)`): every packet
//!            payload produced by `tx` is decoded with the real `FrameReader` and its DATAGRAM frames
//!            are handed to `rx.recv_frame`, then read back through `DatagramReader::poll_recv`;
//!  * `own` — a receiver with `local_max`, fed crafted DATAGRAM frames (both forms) around the limit.
//!
//! Oracle (model = FIFO of accepted payloads, payload bytes are a PRF of the datagram ordinal):
//!  send refuses iff 1+|d| > peer_max (writer creation refuses iff peer_max = 0); a load either writes
//!  nothing and keeps the queue, or writes [PADDING]* + exactly one DATAGRAM frame whose payload is the
//!  head of the queue; a datagram that fits an empty packet (space >= 1+|d|) is loaded; the frame
//!  without length ends the packet; every emitted frame is no larger than peer_max and is accepted by
//!  the real receiver that advertised peer_max; the receiving application reads the payloads unchanged,
//!  unmerged, in order; an incoming frame (type + length field + payload) larger than local_max
//!  => ProtocolViolation, a fitting one is accepted and readable.
//!
//! The clause "an accepted datagram is actually put on the wire" needs the whole stack (L2).
use std::collections::VecDeque;

use bytes::{
    BufMut, Bytes, BytesMut,
    buf::UninitSlice,
};
use qbase::{
    error::ErrorKind,
    frame::{DatagramFrame, EncodeSize, Frame, FrameReader, io::ReceiveFrame},
    packet::{RecordFrame, r#type::Type},
    util::ContinuousData,
    varint::VarInt,
};
use qdatagram::DatagramFlow;
use serde_json::{Value, json};
use std::task::{Context, Poll};
use vcore::{Args, Report, Rng};

// ---------------------------------------------------------------------------------------------
// packet target
// ---------------------------------------------------------------------------------------------

struct Target {
    buf: BytesMut,
    cap: usize,
    recorded: Vec<(DatagramFrame, Bytes)>,
    recorded_other: usize,
}

impl Target {
    fn new(cap: usize) -> Self {
        Target { buf: BytesMut::with_capacity(cap.min(1 << 17)), cap, recorded: vec![], recorded_other: 0 }
    }
}

unsafe impl BufMut for Target {
    fn remaining_mut(&self) -> usize {
        self.cap - self.buf.len()
    }
    unsafe fn advance_mut(&mut self, cnt: usize) {
        assert!(cnt <= self.remaining_mut(), "packet overflow: advance {cnt} with {} left", self.remaining_mut());
        unsafe { self.buf.advance_mut(cnt) }
    }
    fn chunk_mut(&mut self) -> &mut UninitSlice {
        let rem = self.cap - self.buf.len();
        if self.buf.capacity() - self.buf.len() < rem {
            self.buf.reserve(rem);
        }
        let c = self.buf.chunk_mut();
        let n = c.len().min(rem);
        &mut c[..n]
    }
}

impl<D: ContinuousData> RecordFrame<Frame<D>, D> for Target {
    fn record_frame(&mut self, frame: &Frame<D>) {
        match frame {
            Frame::Datagram(f, d) => self.recorded.push((*f, d.to_bytes())),
            _ => self.recorded_other += 1,
        }
    }
}

fn one_rtt() -> Type {
    Type::Short(qbase::packet::r#type::short::OneRtt::from(0u8))
}

// ---------------------------------------------------------------------------------------------
// history
// ---------------------------------------------------------------------------------------------

#[derive(Clone, Debug)]
enum Op {
    /// hand a datagram of `len` bytes to the writer
    Send { len: usize },
    /// assemble one packet: remaining space = |head of queue| + rel (>= 0); `many` = keep loading until refused
    Load { rel: i64, many: bool },
    /// incoming frame on `own`: payload length, with/without length field
    Recv { len: usize, with_len: bool },
    /// application reads on `own`
    Read,
}

impl Op {
    fn to_json(&self) -> Value {
        match self {
            Op::Send { len } => json!(["send", len]),
            Op::Load { rel, many } => json!(["load", rel, many]),
            Op::Recv { len, with_len } => json!(["recv", len, with_len]),
            Op::Read => json!(["read"]),
        }
    }
    fn from_json(v: &Value) -> Op {
        match v[0].as_str().unwrap() {
            "send" => Op::Send { len: v[1].as_u64().unwrap() as usize },
            "load" => Op::Load { rel: v[1].as_i64().unwrap(), many: v[2].as_bool().unwrap() },
            "recv" => Op::Recv { len: v[1].as_u64().unwrap() as usize, with_len: v[2].as_bool().unwrap() },
            _ => Op::Read,
        }
    }
}

fn payload(seed: u64, ordinal: u64, len: usize) -> Bytes {
    let mut v = vec![0u8; len];
    vcore::prf_fill(seed, ordinal, 0, &mut v);
    // make sure no payload looks like padding only / starts like a frame boundary by accident is irrelevant:
    // payloads are compared byte for byte
    Bytes::from(v)
}

fn varint_len(v: usize) -> usize {
    VarInt::try_from(v).map(|v| v.encoding_size()).unwrap_or(8)
}

#[derive(Default)]
struct Stats {
    sends_ok: u64,
    sends_refused: u64,
    loads_ok: u64,
    loads_refused: u64,
    loads_empty: u64,
    with_len: u64,
    without_len: u64,
    padded_first: u64,
    multi_packets: u64,
    piped: u64,
    recv_ok: u64,
    recv_violation: u64,
    reads_ok: u64,
    reads_pending: u64,
    shape: u64,
}

type Fail = (String, String);

macro_rules! fail {
    ($sig:expr, $($arg:tt)*) => {
        return Err(($sig.to_string(), format!($($arg)*)))
    };
}

fn noop_cx() -> Context<'static> {
    Context::from_waker(futures::task::noop_waker_ref())
}

fn run_history(seed: u64, peer_max: u64, local_max: u64, ops: &[Op], st: &mut Stats) -> Vec<(usize, Fail)> {
    let tx = DatagramFlow::new(0, Default::default());
    let rx = DatagramFlow::new(peer_max, Default::default());
    let own = DatagramFlow::new(local_max, Default::default());

    let mut out: Vec<(usize, Fail)> = vec![];
    let mut soft: Vec<Fail> = vec![];

    // writer creation
    let writer = match (tx.writer(peer_max), peer_max) {
        (Ok(w), m) if m > 0 => Some(w),
        (Err(_), 0) => None,
        (Ok(_), _) => return vec![(0, ("C19.writer.enabled-mismatch".into(), "writer() succeeds although the peer disabled datagrams (max_datagram_frame_size = 0)".into()))],
        (Err(e), m) => return vec![(0, ("C19.writer.enabled-mismatch".into(), format!("writer({m}) refused: {e}")))],
    };
    let mut rx_reader = if peer_max > 0 { rx.reader().ok() } else { None };
    let mut own_reader = match (own.reader(), local_max) {
        (Ok(r), m) if m > 0 => Some(r),
        (Err(_), 0) => None,
        (Ok(_), _) => return vec![(0, ("C19.reader.enabled-mismatch".into(), "reader() succeeds although datagrams are disabled locally".into()))],
        (Err(e), m) => return vec![(0, ("C19.reader.enabled-mismatch".into(), format!("reader() with local maximum {m} refused: {e}")))],
    };

    // models
    let mut queue: VecDeque<Bytes> = VecDeque::new(); // accepted, not yet loaded
    let mut ordinal = 0u64;
    let mut own_expected: VecDeque<Bytes> = VecDeque::new();
    let mut own_ordinal = 1u64 << 32;
    let mut own_dead = false;

    for (step, op) in ops.iter().enumerate() {
        let r: Result<(), Fail> = (|| {
            match *op {
                Op::Send { len } => {
                    let Some(w) = &writer else { return Ok(()) };
                    let d = payload(seed, ordinal, len);
                    ordinal += 1;
                    let fits = 1 + len as u64 <= peer_max;
                    // alternate the two entry points
                    let r = if ordinal % 2 == 0 { w.send(&d) } else { w.send_bytes(d.clone()) };
                    match (fits, r) {
                        (true, Ok(())) => {
                            st.sends_ok += 1;
                            queue.push_back(d);
                        }
                        (false, Err(_)) => st.sends_refused += 1,
                        (true, Err(e)) => fail!("C19.send.refused-fitting", "send of {len} bytes refused although 1+{len} <= peer limit {peer_max}: {e}"),
                        (false, Ok(())) => fail!("C19.send.accepted-oversize", "send of {len} bytes accepted although 1+{len} > peer limit {peer_max}"),
                    }
                }
                Op::Load { rel, many } => {
                    let head = queue.front().map(|d| d.len()).unwrap_or(0);
                    let space = (head as i64 + rel).max(0) as usize;
                    let mut t = Target::new(space);
                    let mut n_loaded = 0usize;
                    let mut expect: Vec<Bytes> = vec![];
                    let mut over: Vec<bool> = vec![];
                    loop {
                        let before = t.buf.len();
                        let rem = t.remaining_mut();
                        let r = tx.try_load_data_into(&mut t);
                        match r {
                            Err(_) => {
                                if t.buf.len() != before {
                                    fail!("C19.load.err-but-wrote", "try_load_data_into refused but wrote {} bytes", t.buf.len() - before);
                                }
                                match queue.front() {
                                    None => st.loads_empty += 1,
                                    Some(d) => {
                                        st.loads_refused += 1;
                                        if before == 0 && rem >= 1 + d.len() {
                                            fail!("C19.load.refused-although-fits", "a {}-byte datagram was refused by an empty packet with {rem} bytes of space", d.len());
                                        }
                                    }
                                }
                                break;
                            }
                            Ok(()) => {
                                let Some(d) = queue.pop_front() else {
                                    fail!("C19.load.empty-queue-wrote", "try_load_data_into reported a datagram although none is queued");
                                };
                                if t.buf.len() == before {
                                    fail!("C19.load.ok-but-nothing-written", "try_load_data_into reported success but wrote nothing");
                                }
                                st.loads_ok += 1;
                                n_loaded += 1;
                                // frame form from the bytes written by this call
                                let written = &t.buf[before..];
                                let pad = written.iter().take_while(|b| **b == 0).count();
                                // (a payload may start with zero bytes only after the type byte, so leading zeros are padding)
                                let ty = written.get(pad).copied();
                                let (with_len, frame_size) = match ty {
                                    Some(0x31) => (true, 1 + varint_len(d.len()) + d.len()),
                                    Some(0x30) => (false, 1 + d.len()),
                                    other => fail!("C19.load.frames:not-a-datagram-frame", "bytes written start (after {pad} padding bytes) with {other:?}, not a DATAGRAM type"),
                                };
                                if pad + frame_size != written.len() {
                                    fail!("C19.load.frames:size", "wrote {} bytes for {pad} padding + a {}-byte DATAGRAM frame ({} payload bytes)", written.len(), frame_size, d.len());
                                }
                                if with_len {
                                    st.with_len += 1;
                                } else {
                                    st.without_len += 1;
                                    if pad > 0 {
                                        st.padded_first += 1;
                                    }
                                    if t.remaining_mut() != 0 {
                                        fail!("C19.load.no-length-not-last", "DATAGRAM frame without length written with {} bytes of the packet still free: the next frame would be swallowed", t.remaining_mut());
                                    }
                                }
                                let over_limit = frame_size as u64 > peer_max;
                                if over_limit {
                                    let form = if with_len { "with-length-form" } else { "no-length-form" };
                                    soft.push((
                                        format!("C19.frame-exceeds-peer-limit:{form}"),
                                        format!(
                                            "a {}-byte datagram was accepted by send (1+{} <= {peer_max}) but emitted as a {frame_size}-byte DATAGRAM frame, larger than the peer's max_datagram_frame_size {peer_max} (packet space was {rem})",
                                            d.len(),
                                            d.len()
                                        ),
                                    ));
                                }
                                over.push(over_limit);
                                st.shape = (st.shape ^ ((with_len as u64) << 1 | (pad > 0) as u64 | (n_loaded as u64) << 2)).wrapping_mul(0x100000001b3);
                                expect.push(d);
                                if !many {
                                    break;
                                }
                            }
                        }
                    }
                    if n_loaded > 1 {
                        st.multi_packets += 1;
                    }
                    // what was recorded for the packet journal must be the same frames
                    if t.recorded.len() != n_loaded || t.recorded_other != 0 {
                        fail!("C19.load.frames:recorded", "{n_loaded} datagrams loaded but {} DATAGRAM / {} other frames recorded", t.recorded.len(), t.recorded_other);
                    }
                    // decode the packet payload with the real frame reader: exactly the loaded datagrams, in order
                    let bytes = t.buf.clone().freeze();
                    let mut got: Vec<(DatagramFrame, Bytes)> = vec![];
                    for f in FrameReader::new(bytes, one_rtt()) {
                        match f {
                            Ok((Frame::Padding(_), _)) => {}
                            Ok((Frame::Datagram(f, d), _)) => got.push((f, d)),
                            Ok((other, _)) => fail!("C19.load.frames:foreign-frame", "packet payload decodes to an unexpected frame {:?}", qbase::frame::GetFrameType::frame_type(&other)),
                            Err(e) => fail!("C19.load.frames:undecodable", "packet payload does not decode: {e:?}"),
                        }
                    }
                    if got.len() != expect.len() {
                        fail!("C19.load.frames:count", "{} datagrams loaded into the packet, it decodes to {} DATAGRAM frames", expect.len(), got.len());
                    }
                    for (k, ((f, d), e)) in got.iter().zip(expect.iter()).enumerate() {
                        if d != e {
                            let sig = if queue.iter().any(|q| q == d) { "C19.load.order" } else { "C19.load.payload-mismatch" };
                            fail!(sig, "DATAGRAM frame {k} of the packet carries {} bytes that are not the {}-byte datagram sent at that position", d.len(), e.len());
                        }
                        if over[k] {
                            continue; // already reported; a conforming receiver closes the connection on this frame
                        }
                        // the real receiver that advertised peer_max
                        match rx.recv_frame((*f, d.clone())) {
                            Ok(()) => st.piped += 1,
                            Err(err) => fail!("C19.frame-exceeds-peer-limit:refused-by-real-receiver", "receiver with max_datagram_frame_size {peer_max} refuses the emitted frame ({} payload bytes): {err}", d.len()),
                        }
                        let Some(reader) = rx_reader.as_mut() else { fail!("C19.reader.enabled-mismatch", "no reader on the piped receiver") };
                        match reader.poll_recv(&mut noop_cx()) {
                            Poll::Ready(Ok(b)) if &b == e => {}
                            Poll::Ready(Ok(b)) => fail!("C19.reader.payload", "peer application read {} bytes, sent datagram has {} bytes / different content", b.len(), e.len()),
                            Poll::Ready(Err(err)) => fail!("C19.reader.payload", "peer application read failed: {err}"),
                            Poll::Pending => fail!("C19.reader.lost", "datagram accepted by the receiver is not readable"),
                        }
                    }
                }
                Op::Recv { len, with_len } => {
                    if own_dead {
                        return Ok(());
                    }
                    let d = payload(seed, own_ordinal, len);
                    own_ordinal += 1;
                    let frame = DatagramFrame::new(with_len, VarInt::try_from(len).unwrap());
                    let frame_size = frame.encoding_size() + len;
                    debug_assert_eq!(frame_size, 1 + if with_len { varint_len(len) } else { 0 } + len);
                    let r = own.recv_frame((frame, d.clone()));
                    let too_big = frame_size as u64 > local_max;
                    match (too_big, r) {
                        (true, Err(e)) => {
                            if e.kind() != ErrorKind::ProtocolViolation {
                                fail!("C19.recv.error-kind", "oversize incoming datagram reported as {:?}", e.kind());
                            }
                            st.recv_violation += 1;
                            own_dead = true; // the connection is closed by the caller
                        }
                        (false, Ok(())) => {
                            st.recv_ok += 1;
                            own_expected.push_back(d);
                        }
                        (true, Ok(())) => fail!("C19.recv.oversize-accepted", "incoming DATAGRAM frame of {frame_size} bytes accepted, local max_datagram_frame_size is {local_max}"),
                        (false, Err(e)) => fail!("C19.recv.fitting-refused", "incoming DATAGRAM frame of {frame_size} bytes refused, local max_datagram_frame_size is {local_max}: {e}"),
                    }
                }
                Op::Read => {
                    let Some(reader) = own_reader.as_mut() else { return Ok(()) };
                    match (reader.poll_recv(&mut noop_cx()), own_expected.pop_front()) {
                        (Poll::Ready(Ok(b)), Some(e)) => {
                            if b != e {
                                let sig = if own_expected.iter().any(|q| *q == b) { "C19.reader.order" } else { "C19.reader.payload" };
                                fail!(sig, "application read {} bytes, next received datagram has {} bytes / different content", b.len(), e.len());
                            }
                            st.reads_ok += 1;
                        }
                        (Poll::Pending, None) => st.reads_pending += 1,
                        (Poll::Ready(Ok(b)), None) => fail!("C19.reader.spurious", "application read {} bytes although every received datagram was already read", b.len()),
                        (Poll::Pending, Some(e)) => fail!("C19.reader.lost", "a received {}-byte datagram is not readable", e.len()),
                        (Poll::Ready(Err(err)), _) => fail!("C19.reader.error", "read failed without a connection error: {err}"),
                    }
                }
            }
            Ok(())
        })();
        out.extend(soft.drain(..).map(|f| (step, f)));
        if let Err(f) = r {
            out.push((step, f));
            break;
        }
    }
    out
}

// ---------------------------------------------------------------------------------------------
// generators
// ---------------------------------------------------------------------------------------------

const LIMITS: [u64; 14] = [0, 1, 2, 3, 63, 64, 65, 66, 100, 1200, 16383, 16384, 16386, 65535];

fn gen_len(rng: &mut Rng, max: u64) -> usize {
    // sizes 0..limit+2, dense around the limit and the varint-width boundaries
    let m = max as i64;
    let v = match rng.below(8) {
        0 => 0,
        1 => m - 1 + rng.below(4) as i64 - 1,           // limit-2 .. limit+1  (1+len vs limit)
        2 => m - rng.below(4) as i64,
        3 => *rng.pick(&[62i64, 63, 64, 65, 16382, 16383, 16384, 16385]),
        4 => rng.below(max.max(1) + 3) as i64,
        5 => rng.below(40) as i64,
        _ => rng.below(max.min(1500).max(1) + 3) as i64,
    };
    v.clamp(0, m + 2) as usize
}

fn gen_history(rng: &mut Rng) -> (u64, u64, Vec<Op>) {
    let peer_max = *rng.pick(&LIMITS);
    let local_max = *rng.pick(&LIMITS);
    let n = rng.range(4, 40);
    let mut ops = vec![];
    for _ in 0..n {
        match rng.below(10) {
            0..=3 => ops.push(Op::Send { len: gen_len(rng, peer_max) }),
            4..=6 => {
                // space relative to the head datagram: |d|-1, |d|, |d|+1 (no-length fits exactly), |d|+1+lenvarint (with length fits exactly), around them, far beyond
                let rel = match rng.below(8) {
                    0 => -1,
                    1 => 0,
                    2 => 1,
                    3 => rng.range(2, 10) as i64,
                    4 => *rng.pick(&[1200i64, 1500, 70000]),
                    5 => -(rng.range(2, 70) as i64),
                    _ => rng.range(0, 12) as i64,
                };
                ops.push(Op::Load { rel, many: rng.chance(1, 3) });
            }
            7 | 8 => ops.push(Op::Recv { len: gen_len(rng, local_max), with_len: rng.bool() }),
            _ => ops.push(Op::Read),
        }
    }
    // drain both sides
    for _ in 0..rng.below(4) {
        ops.push(Op::Load { rel: *rng.pick(&[1i64, 2, 3, 9, 1200]), many: true });
    }
    for _ in 0..rng.below(4) {
        ops.push(Op::Read);
    }
    (peer_max, local_max, ops)
}

/// exhaustive sweep: for one (limit, size) pair every packet space from 0 to size + 12 and both load modes
fn sweep(rep: &mut Report, st: &mut Stats, shard: u64, shards: u64) {
    let mut idx = 0u64;
    for &limit in LIMITS.iter().filter(|l| **l > 0) {
        let sizes: Vec<usize> = {
            let m = limit as usize;
            let mut v: Vec<usize> = vec![0, 1, 2, 61, 62, 63, 64, 65, 66];
            v.extend([m.saturating_sub(4), m.saturating_sub(3), m.saturating_sub(2), m.saturating_sub(1), m, m + 1]);
            v.sort();
            v.dedup();
            v
        };
        for len in sizes {
            // every space value for small datagrams; for large ones the values around 0 and around |d|, |d|+1, |d|+1+lenvarint
            let spaces: Vec<usize> = if len <= 90 { (0..=len + 12).collect() } else { (0..=12).chain(len - 12..=len + 12).collect() };
            for space in spaces {
                idx += 1;
                if idx % shards != shard {
                    continue;
                }
                let ops = vec![Op::Send { len }, Op::Load { rel: space as i64 - len as i64, many: false }, Op::Load { rel: 1200, many: true }];
                eval(rep, st, 19, limit, 100, &ops, "sweep");
                rep.count("sweep_cases");
            }
            // receive side: both forms for this size against this limit as the local one
            for with_len in [false, true] {
                idx += 1;
                if idx % shards != shard {
                    continue;
                }
                let ops = vec![Op::Recv { len, with_len }, Op::Read, Op::Read];
                eval(rep, st, 19, 100, limit, &ops, "sweep-recv");
                rep.count("sweep_recv_cases");
            }
        }
    }
}

fn eval(rep: &mut Report, st: &mut Stats, seed: u64, peer_max: u64, local_max: u64, ops: &[Op], mode: &str) {
    rep.evaluations += 1;
    let js: Vec<Value> = ops.iter().map(|o| o.to_json()).collect();
    let r = vcore::panics::catch(|| {
        let mut s = Stats::default();
        let r = run_history(seed, peer_max, local_max, ops, &mut s);
        (s, r)
    });
    match r {
        Ok((s, r)) => {
            macro_rules! acc { ($($f:ident),*) => { $( st.$f += s.$f; )* } }
            acc!(sends_ok, sends_refused, loads_ok, loads_refused, loads_empty, with_len, without_len, padded_first, multi_packets, piped, recv_ok, recv_violation, reads_ok, reads_pending);
            rep.set("load_shapes", s.shape ^ peer_max.min(3));
            if s.loads_ok > 0 && s.loads_refused > 0 {
                rep.distinct(vcore::fnv_str(&format!("{peer_max}/{local_max}/{}", Value::from(js.clone()))));
            }
            for (step, (sig, what)) in r {
                let upto: Vec<Value> = js.iter().take(step + 1).cloned().collect();
                rep.violation(sig, format!("step {step} of a {mode} history (peer max {peer_max}, local max {local_max}): {what}"), json!({"kind": "c19", "cseed": seed, "peer_max": peer_max, "local_max": local_max, "ops": upto}));
            }
        }
        Err(p) => {
            let loc = vcore::panics::short_location(&p.location);
            // writes beyond the space the packet offered end in the target's assert or in bytes' "advance out of bounds"
            let overflow = p.message.contains("packet overflow") || p.message.contains("advance out of bounds") || p.location.contains("/bytes-");
            let sig = if overflow { "C19.load.overflow".to_string() } else { format!("C19.panic:{loc}") };
            rep.violation(sig, format!("panic in a {mode} history (peer max {peer_max}, local max {local_max}): {} at {loc}", p.message), json!({"kind": "c19", "cseed": seed, "peer_max": peer_max, "local_max": local_max, "ops": js}));
        }
    }
}

fn emit(rep: &mut Report, st: &Stats) {
    rep.add("sends_accepted", st.sends_ok);
    rep.add("sends_refused", st.sends_refused);
    rep.add("loads_ok", st.loads_ok);
    rep.add("loads_refused_no_room", st.loads_refused);
    rep.add("loads_on_empty_queue", st.loads_empty);
    rep.add("frames_with_length", st.with_len);
    rep.add("frames_without_length", st.without_len);
    rep.add("frames_padding_first", st.padded_first);
    rep.add("packets_with_several_datagrams", st.multi_packets);
    rep.add("frames_piped_through_real_receiver", st.piped);
    rep.add("incoming_accepted", st.recv_ok);
    rep.add("incoming_protocol_violation", st.recv_violation);
    rep.add("reads_ok", st.reads_ok);
    rep.add("reads_pending", st.reads_pending);
}

pub fn run(args: &Args, rep: &mut Report) {
    rep.rule = "history = (peer limit, local limit, op sequence of send / packet assembly with a chosen remaining space / incoming frame / read); \
                distinct = distinct (limits, op sequence); non-trivial = at least one datagram loaded into a packet and at least one load refused for lack of room"
        .into();
    let mut st = Stats::default();
    if let Some(path) = args.get("replay") {
        let v: Value = serde_json::from_str(&std::fs::read_to_string(path).unwrap()).unwrap();
        let v = if v.get("replay").is_some() { v["replay"].clone() } else { v };
        let ops: Vec<Op> = v["ops"].as_array().unwrap().iter().map(Op::from_json).collect();
        eval(rep, &mut st, v["cseed"].as_u64().unwrap(), v["peer_max"].as_u64().unwrap(), v["local_max"].as_u64().unwrap(), &ops, "replay");
        emit(rep, &st);
        return;
    }
    let thorough = args.get("tier") == Some("thorough");
    let shard = args.u64("shard", 0);
    let shards = args.u64("shards", 1).max(1);
    sweep(rep, &mut st, shard, shards);
    rep.exhaustive = Some(true);
    let n = args.budget(if thorough { 150_000 } else { 8_000 });
    let mut rng = Rng::new(args.seed() ^ 0xc19).fork(shard);
    for i in 0..n {
        let cseed = rng.next_u64();
        let (peer_max, local_max, ops) = gen_history(&mut rng);
        if i < 3 {
            rep.sample(json!({"peer_max": peer_max, "local_max": local_max, "ops": ops.iter().take(14).map(|o| o.to_json()).collect::<Vec<_>>()}));
        }
        eval(rep, &mut st, cseed, peer_max, local_max, &ops, "random");
    }
    rep.add("random_histories", n);
    emit(rep, &st);
}
