//! L1 component monitors over qrecovery / qcongestion / qdatagram.
//! usage: l1rec <property> --seed S --budget N --tier quick|thorough --shard i --shards n
//!              --out frag.json [--replay file]
mod c08;

use vcore::{Args, Report};

fn main() {
    let args = Args::parse();
    let prop = args.pos.first().cloned().unwrap_or_default();
    vcore::panics::install(true);
    let mut rep = Report::new(&prop.to_uppercase(), args.seed());
    match prop.as_str() {
        "c08" => c08::run(&args, &mut rep),
        other => {
            eprintln!("unknown property {other}");
            std::process::exit(2);
        }
    }
    rep.finish(args.get("out"));
}
