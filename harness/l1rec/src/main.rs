//! l1rec: runtime monitors; usage: l1rec <property> --seed S --tier quick|thorough --shard i --shards n [--budget N] --out frag.json [--replay file]
mod c01;
mod c04;
mod c08;
mod c09;
mod c09_stream;
mod c10;
mod c11;
mod c12;
mod c13;
mod c19;
mod streams_h;

use vcore::{Args, Report};

// counting allocator (C04 cost oracle reads it; negligible overhead for the other monitors)
#[global_allocator]
static A: vcore::alloc::CountingAlloc = vcore::alloc::CountingAlloc;

fn main() {
    let args = Args::parse();
    let prop = args.pos.first().cloned().unwrap_or_default();
    vcore::panics::install(!args.flag("loud"));
    let mut rep = Report::new(&prop.to_uppercase(), args.seed());
    // a panic that escapes the monitor's own guards (e.g. out of a Drop of a library type) still yields a fragment
    vcore::guarded(&mut rep, &args, |rep| {
        match prop.as_str() {
            "c01" => c01::run(&args, rep),
            "c04" => c04::run(&args, rep),
            "c08" => c08::run(&args, rep),
            "c09" => c09::run(&args, rep),
            "c10" => c10::run(&args, rep),
            "c11" => c11::run(&args, rep),
            "c12" => c12::run(&args, rep),
            "c13" => c13::run(&args, rep),
            "c19" => c19::run(&args, rep),
            other => {
                eprintln!("unknown property {other}");
                std::process::exit(2);
            }
        }
    });
    rep.finish(args.get("out"));
}
