//! L1 two-endpoint stream harness shared by C01 / C11 / C12.
//!
//! Two real `qrecovery::streams::DataStreams` (client and server), real connection-level flow
//! controllers, real `Reader`/`Writer` on the application side.  Frames are captured from a custom
//! packet target (`BufMut + RecordFrame`), travel as encoded bytes through a lossy channel driven
//! by an explicit op list (so a replay is the op list itself) and are decoded again with
//! `FrameReader` before they are dispatched exactly like `FlowControlledDataStreams` in
//! qconnection/src/space.rs does.  Ack / loss feedback follows the discipline of the production
//! sent-journal (qrecovery/src/journal/sent.rs): per packet `loss* ack?`, ack only for delivered
//! packets; lost reliable frames are re-queued, an acked RESET_STREAM calls `on_reset_acked`.
#![allow(dead_code)]
use std::{
    collections::{BTreeMap, VecDeque},
    future::Future,
    pin::Pin,
    sync::{
        Arc, Mutex,
        atomic::{AtomicU64, Ordering},
    },
    task::{Context, Poll, Wake, Waker},
};

use bytes::{
    BufMut, Bytes, BytesMut,
    buf::{Limit, UninitSlice},
};
use qbase::{
    cid::ConnectionId,
    error::{Error as QError, ErrorKind},
    flow::{ArcRecvController, ArcSendControler},
    frame::{
        DataBlockedFrame, Frame, FrameReader, GetFrameType, MaxDataFrame, ReliableFrame,
        StreamCtlFrame, StreamFrame,
        io::{ReceiveFrame, SendFrame},
    },
    net::tx::ArcSendWakers,
    packet::{Package, RecordFrame, r#type::Type},
    param::{ArcParameters, ClientParameters, ParameterId, Parameters, ServerParameters},
    role::Role,
    sid::{
        ControlStreamsConcurrency, Dir, StreamId,
        handy::{ConsistentConcurrency, DemandConcurrency},
    },
    util::ContinuousData,
    varint::VarInt,
};
use qrecovery::{
    recv::{Reader, StopSending},
    send::{CancelStream, Writer},
    streams::{DataStreams, Ext, error::StreamError},
};
use serde_json::{Value, json};
use vcore::Rng;

// ------------------------------------------------------------------------------------------------
// basic vocabulary

#[derive(Clone, Copy, PartialEq, Eq, Debug, PartialOrd, Ord)]
pub enum Side {
    C = 0,
    S = 1,
}

impl Side {
    pub fn peer(self) -> Side {
        if self == Side::C { Side::S } else { Side::C }
    }
    pub fn role(self) -> Role {
        if self == Side::C { Role::Client } else { Role::Server }
    }
    pub fn of(role: Role) -> Side {
        if role == Role::Client { Side::C } else { Side::S }
    }
    pub fn from_u(u: u64) -> Side {
        if u == 0 { Side::C } else { Side::S }
    }
    pub fn ix(self) -> usize {
        self as usize
    }
}

pub fn dir_u(d: Dir) -> u64 {
    if d == Dir::Bi { 0 } else { 1 }
}
pub fn dir_of(u: u64) -> Dir {
    if u == 0 { Dir::Bi } else { Dir::Uni }
}
pub fn sid_raw(s: StreamId) -> u64 {
    u64::from(s)
}

/// The eight stream-related transport parameters of one endpoint (what it *advertises*).
#[derive(Clone, Debug, PartialEq)]
pub struct Limits {
    pub max_data: u64,
    pub bidi_local: u64,
    pub bidi_remote: u64,
    pub uni: u64,
    pub streams_bidi: u64,
    pub streams_uni: u64,
}

impl Limits {
    pub fn to_json(&self) -> Value {
        json!([self.max_data, self.bidi_local, self.bidi_remote, self.uni, self.streams_bidi, self.streams_uni])
    }
    pub fn from_json(v: &Value) -> Limits {
        let g = |i: usize| v[i].as_u64().unwrap();
        Limits { max_data: g(0), bidi_local: g(1), bidi_remote: g(2), uni: g(3), streams_bidi: g(4), streams_uni: g(5) }
    }
}

#[derive(Clone, Debug, PartialEq)]
pub struct Cfg {
    pub lim: [Limits; 2],
    /// concurrency strategy per side: true = DemandConcurrency, false = ConsistentConcurrency
    pub demand: [bool; 2],
    /// seed of the PRF content
    pub cseed: u64,
}

impl Cfg {
    pub fn to_json(&self) -> Value {
        json!({"lim": [self.lim[0].to_json(), self.lim[1].to_json()], "demand": [self.demand[0], self.demand[1]], "cseed": self.cseed})
    }
    pub fn from_json(v: &Value) -> Cfg {
        Cfg {
            lim: [Limits::from_json(&v["lim"][0]), Limits::from_json(&v["lim"][1])],
            demand: [v["demand"][0].as_bool().unwrap(), v["demand"][1].as_bool().unwrap()],
            cseed: v["cseed"].as_u64().unwrap(),
        }
    }
}

// ------------------------------------------------------------------------------------------------
// control-frame sink handed to the library (the role of ArcReliableFrameDeque)

#[derive(Clone, Debug, PartialEq)]
pub enum Ctl {
    Sc(StreamCtlFrame),
    MaxData(MaxDataFrame),
    DataBlocked(DataBlockedFrame),
}

impl Ctl {
    pub fn reliable(&self) -> ReliableFrame {
        match self {
            Ctl::Sc(f) => ReliableFrame::StreamCtl(*f),
            Ctl::MaxData(f) => ReliableFrame::MaxData(*f),
            Ctl::DataBlocked(f) => ReliableFrame::DataBlocked(*f),
        }
    }
    pub fn name(&self) -> &'static str {
        match self {
            Ctl::Sc(StreamCtlFrame::ResetStream(_)) => "reset_stream",
            Ctl::Sc(StreamCtlFrame::StopSending(_)) => "stop_sending",
            Ctl::Sc(StreamCtlFrame::MaxStreamData(_)) => "max_stream_data",
            Ctl::Sc(StreamCtlFrame::MaxStreams(_)) => "max_streams",
            Ctl::Sc(StreamCtlFrame::StreamDataBlocked(_)) => "stream_data_blocked",
            Ctl::Sc(StreamCtlFrame::StreamsBlocked(_)) => "streams_blocked",
            Ctl::MaxData(_) => "max_data",
            Ctl::DataBlocked(_) => "data_blocked",
        }
    }
}

#[derive(Default, Debug)]
pub struct SinkInner {
    /// frames waiting to be put into a packet (library-originated and re-queued lost ones)
    pub q: VecDeque<Ctl>,
    /// frames the library originated since the log was drained last
    pub originated: Vec<Ctl>,
}

#[derive(Clone, Default, Debug)]
pub struct Sink(pub Arc<Mutex<SinkInner>>);

impl Sink {
    fn push(&self, c: Ctl) {
        let mut g = self.0.lock().unwrap();
        g.originated.push(c.clone());
        g.q.push_back(c);
    }
    pub fn requeue(&self, c: Ctl) {
        self.0.lock().unwrap().q.push_back(c);
    }
    pub fn take_originated(&self) -> Vec<Ctl> {
        std::mem::take(&mut self.0.lock().unwrap().originated)
    }
    pub fn queued(&self) -> usize {
        self.0.lock().unwrap().q.len()
    }
}

impl SendFrame<StreamCtlFrame> for Sink {
    fn send_frame<I: IntoIterator<Item = StreamCtlFrame>>(&self, iter: I) {
        for f in iter {
            self.push(Ctl::Sc(f));
        }
    }
}
impl SendFrame<MaxDataFrame> for Sink {
    fn send_frame<I: IntoIterator<Item = MaxDataFrame>>(&self, iter: I) {
        for f in iter {
            self.push(Ctl::MaxData(f));
        }
    }
}
impl SendFrame<DataBlockedFrame> for Sink {
    fn send_frame<I: IntoIterator<Item = DataBlockedFrame>>(&self, iter: I) {
        for f in iter {
            self.push(Ctl::DataBlocked(f));
        }
    }
}

// ------------------------------------------------------------------------------------------------
// packet target: bounded buffer + frame recorder

pub struct Target {
    buf: Limit<BytesMut>,
    /// STREAM frames as the library recorded them (what the production journal would store)
    pub rec_streams: Vec<(StreamFrame, usize)>,
    pub rec_other: usize,
}

impl Target {
    pub fn new(cap: usize) -> Self {
        Target { buf: BytesMut::with_capacity(cap.min(1 << 16)).limit(cap), rec_streams: vec![], rec_other: 0 }
    }
    pub fn written(&self) -> usize {
        self.buf.get_ref().len()
    }
    pub fn into_bytes(self) -> Bytes {
        self.buf.into_inner().freeze()
    }
}

unsafe impl BufMut for Target {
    fn remaining_mut(&self) -> usize {
        self.buf.remaining_mut()
    }
    unsafe fn advance_mut(&mut self, cnt: usize) {
        unsafe { self.buf.advance_mut(cnt) }
    }
    fn chunk_mut(&mut self) -> &mut UninitSlice {
        self.buf.chunk_mut()
    }
}

impl<D: ContinuousData> RecordFrame<Frame<D>, D> for Target {
    fn record_frame(&mut self, frame: &Frame<D>) {
        match frame {
            Frame::Stream(f, d) => self.rec_streams.push((*f, d.len())),
            _ => self.rec_other += 1,
        }
    }
}

pub fn one_rtt() -> Type {
    Type::Short(qbase::packet::r#type::short::OneRtt::from(0u8))
}

/// Decode the frames of a packet payload.
pub fn decode(payload: &Bytes) -> Result<Vec<Frame>, String> {
    let mut out = vec![];
    for r in FrameReader::new(payload.clone(), one_rtt()) {
        match r {
            Ok((f, _)) => out.push(f),
            Err(e) => return Err(format!("{e:?}")),
        }
    }
    Ok(out)
}

// ------------------------------------------------------------------------------------------------
// endpoint

#[derive(Clone, Copy, PartialEq, Eq, Debug)]
pub enum PktState {
    Flight,
    Lost,
    Acked,
}

#[derive(Debug)]
pub struct SentPkt {
    pub streams: Vec<StreamFrame>,
    pub ctl: Vec<Ctl>,
    pub state: PktState,
    pub delivered: bool,
    pub copies_in_net: u32,
}

pub struct Endpoint {
    pub side: Side,
    pub streams: DataStreams<Sink>,
    pub params: ArcParameters,
    pub snd: ArcSendControler<Sink>,
    pub rcv: ArcRecvController<Sink>,
    pub sink: Sink,
    pub next_pn: u64,
    pub sent: BTreeMap<u64, SentPkt>,
}

fn set_limits<R: qbase::role::IntoRole + Default>(p: &mut qbase::param::core::Parameters<R>, l: &Limits) {
    let v = |x: u64| VarInt::from_u64(x).unwrap();
    p.set(ParameterId::InitialMaxData, v(l.max_data)).unwrap();
    p.set(ParameterId::InitialMaxStreamDataBidiLocal, v(l.bidi_local)).unwrap();
    p.set(ParameterId::InitialMaxStreamDataBidiRemote, v(l.bidi_remote)).unwrap();
    p.set(ParameterId::InitialMaxStreamDataUni, v(l.uni)).unwrap();
    p.set(ParameterId::InitialMaxStreamsBidi, v(l.streams_bidi)).unwrap();
    p.set(ParameterId::InitialMaxStreamsUni, v(l.streams_uni)).unwrap();
}

impl Endpoint {
    /// Build one endpoint exactly like qconnection/src/builder.rs does: DataStreams with default
    /// (all-zero) remote parameters, then the TLS-finished handler's `revise_params` /
    /// `revise_max_data` with the peer's real parameters (0-RTT not in use).
    pub fn new(side: Side, cfg: &Cfg) -> Endpoint {
        let odcid = ConnectionId::from_slice(&[0xd0, 1, 2, 3, 4, 5, 6, 7]);
        let c_scid = ConnectionId::from_slice(&[0xc1, 1, 2, 3, 4, 5, 6, 7]);
        let s_scid = ConnectionId::from_slice(&[0x51, 1, 2, 3, 4, 5, 6, 7]);
        let mut cp = ClientParameters::default();
        set_limits(&mut cp, &cfg.lim[0]);
        cp.set(ParameterId::InitialSourceConnectionId, c_scid).unwrap();
        let mut sp = ServerParameters::default();
        set_limits(&mut sp, &cfg.lim[1]);
        sp.set(ParameterId::InitialSourceConnectionId, s_scid).unwrap();
        sp.set(ParameterId::OriginalDestinationConnectionId, odcid).unwrap();

        let sink = Sink::default();
        let wakers = ArcSendWakers::default();
        let me = &cfg.lim[side.ix()];
        let peer = &cfg.lim[side.peer().ix()];
        let ctrl: Box<dyn ControlStreamsConcurrency> = if cfg.demand[side.ix()] {
            Box::new(DemandConcurrency)
        } else {
            Box::new(ConsistentConcurrency::new(me.streams_bidi, me.streams_uni))
        };
        let snd = ArcSendControler::new(0, sink.clone(), wakers.clone());
        let rcv = ArcRecvController::new(me.max_data, sink.clone());
        let (streams, params) = match side {
            Side::C => {
                let streams = DataStreams::new(Role::Client, &cp, &ServerParameters::default(), ctrl, sink.clone(), wakers.clone(), None);
                let mut p = Parameters::new_client(cp.clone(), None, odcid);
                p.initial_scid_from_peer_need_equal(s_scid).unwrap();
                p.recv_remote_params(sp.clone()).unwrap();
                assert!(p.is_remote_params_ready());
                streams.revise_params(false, &sp);
                (streams, ArcParameters::from(p))
            }
            Side::S => {
                let streams = DataStreams::new(Role::Server, &sp, &ClientParameters::default(), ctrl, sink.clone(), wakers.clone(), None);
                let mut p = Parameters::new_server(sp.clone());
                p.initial_scid_from_peer_need_equal(c_scid).unwrap();
                p.recv_remote_params(cp.clone()).unwrap();
                assert!(p.is_remote_params_ready());
                streams.revise_params(false, &cp);
                (streams, ArcParameters::from(p))
            }
        };
        snd.revise_max_data(false, peer.max_data);
        Endpoint { side, streams, params, snd, rcv, sink, next_pn: 0, sent: BTreeMap::new() }
    }

    /// Dispatch one received frame the way FlowControlledDataStreams / the data space does.
    pub fn recv_frame(&self, frame: Frame) -> Result<usize, QError> {
        match frame {
            Frame::Stream(f, data) => {
                let fty = f.frame_type();
                let n = self.streams.recv_data((f, data)).map_err(QError::Quic)?;
                self.rcv.on_new_rcvd(fty, n)
            }
            Frame::StreamCtl(c) => {
                let fty = c.frame_type();
                let n = self.streams.recv_stream_control(c).map_err(QError::Quic)?;
                self.rcv.on_new_rcvd(fty, n)
            }
            Frame::MaxData(f) => self.snd.recv_frame(f).map(|_| 0),
            Frame::DataBlocked(f) => self.rcv.recv_frame(f).map(|_| 0),
            _ => Ok(0),
        }
    }

    /// max_data - sent_data of the send controller, observed through the public credit API
    /// (the credit is dropped unused, which returns it).
    pub fn credit_available(&self) -> Option<u64> {
        self.snd.credit(usize::MAX >> 2).ok().map(|c| c.available() as u64)
    }
}

// ------------------------------------------------------------------------------------------------
// counting waker

#[derive(Default, Debug)]
pub struct Flag(pub AtomicU64);

impl Wake for Flag {
    fn wake(self: Arc<Self>) {
        self.0.fetch_add(1, Ordering::SeqCst);
    }
    fn wake_by_ref(self: &Arc<Self>) {
        self.0.fetch_add(1, Ordering::SeqCst);
    }
}

impl Flag {
    pub fn count(&self) -> u64 {
        self.0.load(Ordering::SeqCst)
    }
}

/// One pollable application-side operation: remembers whether its last poll was Pending and how
/// many wake-ups it had seen then, so the final pump can be strictly waker-driven.
#[derive(Debug)]
pub struct Pollee {
    pub flag: Arc<Flag>,
    pub pending: bool,
    pub seen: u64,
    pub polls: u64,
}

impl Default for Pollee {
    fn default() -> Self {
        Pollee { flag: Arc::new(Flag::default()), pending: false, seen: 0, polls: 0 }
    }
}

impl Pollee {
    pub fn waker(&self) -> Waker {
        Waker::from(self.flag.clone())
    }
    /// should a waker-driven executor poll this now?
    pub fn runnable(&self) -> bool {
        !self.pending || self.flag.count() > self.seen
    }
    pub fn before_poll(&mut self) {
        self.seen = self.flag.count();
        self.polls += 1;
    }
    pub fn after_poll(&mut self, pending: bool) {
        self.pending = pending;
    }
}

pub fn kind_name(k: ErrorKind) -> String {
    format!("{k:?}")
}

pub type R = Reader<Ext<Sink>>;
pub type W = Writer<Ext<Sink>>;

/// poll a future exactly once
pub fn poll_once<F: Future>(fut: F, waker: &Waker) -> Poll<F::Output> {
    let mut fut = std::pin::pin!(fut);
    let mut cx = Context::from_waker(waker);
    fut.as_mut().poll(&mut cx)
}

include!("streams_h_sim.rs");
