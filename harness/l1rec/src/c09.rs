//! C09 — the send buffer keeps every unacknowledged byte and offers it for resending.
//!
//! Reference model: one colour per written byte (Pending / Flight / Lost / Recved) plus the
//! content bytes (position-derived PRF).  Three legs drive the *real* code with one op grammar:
//!   * `sndbuf`  : `qrecovery::send::SendBuf` directly, every observable compared after every op,
//!                 `pick_up` predicted exactly (range, fresh flag, data);
//!   * `crypto`  : `CryptoStream` writer/outgoing (`try_load_data_into`, force = resend_flighting),
//!                 every emitted CRYPTO frame predicted exactly;
//!   * `stream`  : one stream of a real `DataStreams` (Writer / Outgoing / FIN states), see
//!                 `c09_stream.rs`-like section at the bottom (property-level clauses).
//! Ack / loss reports only ever name ranges (frames) that an earlier pick-up returned, in any
//! order and any number of times, exactly like the sent-journal feeds them back in production.
use std::{
    collections::BTreeSet,
    ops::Range,
    pin::Pin,
    task::{Context, Poll},
};

use bytes::Bytes;
use qbase::{
    frame::CryptoFrame,
    varint::VarInt,
};
use qrecovery::{crypto::CryptoStream, send::SendBuf};
use serde_json::{Value, json};
use tokio::io::AsyncWrite;
use vcore::{Args, Report, Rng};

pub(crate) const P: u8 = 0;
pub(crate) const F: u8 = 1;
pub(crate) const L: u8 = 2;
pub(crate) const R: u8 = 3;
const CNAME: [&str; 4] = ["pending", "flight", "lost", "recved"];

#[inline]
pub(crate) fn content(seed: u64, i: u64) -> u8 {
    vcore::prf_byte(seed, 0x09, i)
}

pub(crate) fn content_bytes(seed: u64, off: u64, len: usize) -> Bytes {
    let mut v = vec![0u8; len];
    vcore::prf_fill(seed, 0x09, off, &mut v);
    Bytes::from(v)
}

fn varint_len(x: u64) -> usize {
    if x < 1 << 6 {
        1
    } else if x < 1 << 14 {
        2
    } else if x < 1 << 30 {
        4
    } else {
        8
    }
}

/// How much a pick-up may take at a given start offset.
#[derive(Clone, Copy, Debug, PartialEq)]
pub enum Pred {
    /// predicate returns None (no room in the packet)
    Deny,
    /// constant allowance
    Cap(usize),
    /// like a real frame header: room - 2 - varint(offset) (None if nothing is left)
    Frame(usize),
}

impl Pred {
    fn eval(self, off: u64) -> Option<usize> {
        match self {
            Pred::Deny => None,
            Pred::Cap(c) => Some(c),
            Pred::Frame(c) => {
                let least = 2 + if off != 0 { varint_len(off) } else { 0 };
                if c <= least { None } else { Some(c - least) }
            }
        }
    }
    fn to_json(self) -> Value {
        match self {
            Pred::Deny => json!(["deny"]),
            Pred::Cap(c) => json!(["cap", c]),
            Pred::Frame(c) => json!(["frame", c]),
        }
    }
    fn from_json(v: &Value) -> Pred {
        match v[0].as_str().unwrap() {
            "deny" => Pred::Deny,
            "cap" => Pred::Cap(v[1].as_u64().unwrap() as usize),
            _ => Pred::Frame(v[1].as_u64().unwrap() as usize),
        }
    }
}

#[derive(Clone, Debug, PartialEq)]
pub enum Op {
    Write(usize),
    Extend(u64),
    Pick { pred: Pred, flow: usize },
    Ack(u64, u64),
    Loss(u64, u64),
    Resend,
    /// forget_sent_state followed by the window revision (production: revise_max_stream_data(true, max))
    Forget(u64),
    /// crypto leg: try_load_data_into(packet of `cap` bytes, force)
    Load { cap: usize, force: bool },
}

impl Op {
    pub fn to_json(&self) -> Value {
        match self {
            Op::Write(n) => json!(["write", n]),
            Op::Extend(m) => json!(["extend", m]),
            Op::Pick { pred, flow } => json!(["pick", pred.to_json(), if *flow == usize::MAX { json!("max") } else { json!(flow) }]),
            Op::Ack(a, b) => json!(["ack", a, b]),
            Op::Loss(a, b) => json!(["loss", a, b]),
            Op::Resend => json!(["resend"]),
            Op::Forget(m) => json!(["forget", m]),
            Op::Load { cap, force } => json!(["load", cap, force]),
        }
    }
    pub fn from_json(v: &Value) -> Op {
        match v[0].as_str().unwrap() {
            "write" => Op::Write(v[1].as_u64().unwrap() as usize),
            "extend" => Op::Extend(v[1].as_u64().unwrap()),
            "pick" => Op::Pick {
                pred: Pred::from_json(&v[1]),
                flow: v[2].as_u64().map(|x| x as usize).unwrap_or(usize::MAX),
            },
            "ack" => Op::Ack(v[1].as_u64().unwrap(), v[2].as_u64().unwrap()),
            "loss" => Op::Loss(v[1].as_u64().unwrap(), v[2].as_u64().unwrap()),
            "resend" => Op::Resend,
            "forget" => Op::Forget(v[1].as_u64().unwrap()),
            _ => Op::Load { cap: v[1].as_u64().unwrap() as usize, force: v[2].as_bool().unwrap() },
        }
    }
    fn hash_into(&self, h: &mut u64) {
        let s = self.to_json().to_string();
        for b in s.bytes() {
            *h = (*h ^ b as u64).wrapping_mul(0x100000001b3);
        }
    }
}

/// What the model expects a pick-up to return.
#[derive(Debug, Clone, PartialEq)]
pub(crate) enum Expect {
    /// nothing offerable at all (every byte in the map is Flight/Recved, or Pending with flow 0)
    Nothing,
    /// lowest offerable byte is at `start` (colour `col`) but the predicate gives no room there
    NoRoom { start: u64, col: u8 },
    Take { start: u64, end: u64, col: u8 },
}

#[derive(Default)]
pub(crate) struct Stats {
    pub picks_ok: u64,
    pub picks_err: u64,
    pub fresh_bytes: u64,
    pub reoffered_bytes: u64,
    pub acks: u64,
    pub losses: u64,
    pub ack_after_loss: u64,
    pub loss_after_ack: u64,
    pub repeated_ack: u64,
    pub mixed_range_ops: u64,
    pub completions: u64,
    pub resends: u64,
    pub forgets: u64,
    pub over_window_writes: u64,
    pub short_at_old_boundary: u64,
    pub short_picks_elsewhere: u64,
    pub out_of_order_picks: u64,
    pub step_checks: u64,
    pub patterns: BTreeSet<u64>,
    pub contexts: BTreeSet<u64>,
    pub max_runs: u64,
}

/// Per-byte colour model of one send buffer.
pub(crate) struct Model {
    pub seed: u64,
    pub written: u64,
    pub max_data: u64,
    /// colour of every byte inside the map: len = min(written, max_data) as of the last write/extend
    pub col: Vec<u8>,
    /// how many times each byte was handed out as fresh (since the last forget)
    pub fresh: Vec<u8>,
}

impl Model {
    pub fn new(seed: u64, max_data: u64) -> Self {
        Model { seed, written: 0, max_data, col: vec![], fresh: vec![] }
    }
    fn grow(&mut self) {
        let size = self.written.min(self.max_data) as usize;
        if size > self.col.len() {
            self.col.resize(size, P);
            self.fresh.resize(size, 0);
        }
    }
    pub fn write(&mut self, n: usize) {
        self.written += n as u64;
        self.grow();
    }
    pub fn extend(&mut self, max: u64) {
        self.max_data = max;
        self.grow();
    }
    pub fn forget(&mut self) {
        self.col.clear();
        self.fresh.clear();
        self.max_data = 0;
    }
    pub fn sent(&self) -> u64 {
        // Pending bytes always form a suffix (they are handed out lowest first)
        self.col.iter().position(|c| *c == P).unwrap_or(self.col.len()) as u64
    }
    pub fn all_rcvd(&self) -> bool {
        self.col.len() as u64 == self.written && self.col.iter().all(|c| *c == R)
    }
    pub fn any_rcvd(&self) -> bool {
        self.col.iter().any(|c| *c == R)
    }
    pub fn run_end(&self, i: usize) -> usize {
        let c = self.col[i];
        let mut e = i;
        while e < self.col.len() && self.col[e] == c {
            e += 1;
        }
        e
    }
    pub fn lowest_offerable(&self, flow: usize) -> Option<usize> {
        self.col.iter().position(|c| *c == L || (*c == P && flow > 0))
    }
    pub fn expect(&self, pred: &dyn Fn(u64) -> Option<usize>, flow: usize) -> Expect {
        let Some(i) = self.lowest_offerable(flow) else { return Expect::Nothing };
        let c = self.col[i];
        let Some(avail) = pred(i as u64) else { return Expect::NoRoom { start: i as u64, col: c } };
        let allow = if c == L { avail } else { avail.min(flow) };
        let end = self.run_end(i).min(i.saturating_add(allow));
        Expect::Take { start: i as u64, end: end as u64, col: c }
    }
    pub fn take(&mut self, r: Range<u64>) {
        for i in r.start as usize..r.end as usize {
            if self.col[i] == P {
                self.fresh[i] = self.fresh[i].saturating_add(1);
            }
            self.col[i] = F;
        }
    }
    /// (distinct colours inside, context hash)
    fn context(&self, r: &Range<u64>, kind: u64) -> (u32, u64) {
        let mut h = 0xcbf29ce484222325u64 ^ kind;
        let mut mask = 0u32;
        let before = if r.start == 0 { 7 } else { self.col[r.start as usize - 1] };
        h = (h ^ before as u64).wrapping_mul(0x100000001b3);
        let mut prev = 9u8;
        for i in r.start as usize..(r.end as usize).min(self.col.len()) {
            mask |= 1 << self.col[i];
            if self.col[i] != prev {
                prev = self.col[i];
                h = (h ^ prev as u64).wrapping_mul(0x100000001b3);
            }
        }
        let after = if (r.end as usize) < self.col.len() { self.col[r.end as usize] } else { 7 };
        h = (h ^ (after as u64) << 4).wrapping_mul(0x100000001b3);
        (mask.count_ones(), h)
    }
    pub fn ack(&mut self, r: &Range<u64>, st: &mut Stats) {
        let (n, h) = self.context(r, 1);
        st.contexts.insert(h);
        if n > 1 {
            st.mixed_range_ops += 1;
        }
        let mut any_l = false;
        let mut all_r = !r.is_empty();
        for i in r.start as usize..r.end as usize {
            any_l |= self.col[i] == L;
            all_r &= self.col[i] == R;
            self.col[i] = R;
        }
        st.acks += 1;
        st.ack_after_loss += any_l as u64;
        st.repeated_ack += all_r as u64;
    }
    pub fn loss(&mut self, r: &Range<u64>, st: &mut Stats) {
        let (n, h) = self.context(r, 2);
        st.contexts.insert(h);
        if n > 1 {
            st.mixed_range_ops += 1;
        }
        let mut any_r = false;
        for i in r.start as usize..r.end as usize {
            any_r |= self.col[i] == R;
            if self.col[i] == F {
                self.col[i] = L;
            }
        }
        st.losses += 1;
        st.loss_after_ack += any_r as u64;
    }
    pub fn resend(&mut self) {
        for c in self.col.iter_mut() {
            if *c == F {
                *c = L;
            }
        }
    }
    pub fn pattern(&self) -> (u64, u64) {
        let mut h = 0xcbf29ce484222325u64;
        let mut runs = 0u64;
        let mut prev = 9u8;
        for c in &self.col {
            if *c != prev {
                prev = *c;
                runs += 1;
                h = (h ^ prev as u64).wrapping_mul(0x100000001b3);
            }
        }
        (runs, h)
    }
    pub fn shape_string(&self) -> String {
        let mut s = String::new();
        let mut i = 0;
        while i < self.col.len() {
            let e = self.run_end(i);
            s.push_str(&format!("{}..{}:{} ", i, e, CNAME[self.col[i] as usize]));
            i = e;
        }
        s
    }
}

pub(crate) type Fail = (usize, String, String);

/// Compare a returned (range, fresh, data) with the expectation and apply it to the model.
/// Returns Err((clause, detail)) on the first divergence.
pub(crate) fn check_pick(
    m: &mut Model,
    exp: &Expect,
    got: &Result<(Range<u64>, bool, Vec<u8>), String>,
    st: &mut Stats,
    cuts: &BTreeSet<u64>,
    pred: &dyn Fn(u64) -> Option<usize>,
    flow: usize,
) -> Result<(), (String, String)> {
    match (exp, got) {
        (Expect::Nothing, Err(_)) | (Expect::NoRoom { .. }, Err(_)) => {
            st.picks_err += 1;
            Ok(())
        }
        (Expect::Take { start, end, col }, Err(sig)) => {
            if end == start {
                // zero allowance: nothing demanded
                st.picks_err += 1;
                return Ok(());
            }
            Err((
                format!("pick-missed:{}", CNAME[*col as usize]),
                format!("pick_up returned Err({sig}) although bytes {start}..{end} are {} and the limits allow them; map: {}", CNAME[*col as usize], m.shape_string()),
            ))
        }
        (_, Ok((range, fresh, data))) => {
            // (1) only never-sent or lost bytes inside the window may be offered
            if range.end > m.col.len() as u64 || range.start > range.end {
                return Err(("offer-window".into(), format!("offered {range:?} but only {} bytes are written inside the window", m.col.len())));
            }
            for i in range.start as usize..range.end as usize {
                if m.col[i] == F || m.col[i] == R {
                    return Err((
                        format!("offer-colour:{}", CNAME[m.col[i] as usize]),
                        format!("offered {range:?} but byte {i} is {}; map: {}", CNAME[m.col[i] as usize], m.shape_string()),
                    ));
                }
            }
            let (mut start, mut end, mut col) = match exp {
                Expect::Take { start, end, col } => (*start, *end, *col),
                Expect::Nothing => {
                    return Err(("offer-unofferable".into(), format!("offered {range:?} although nothing is offerable under these limits; map: {}", m.shape_string())));
                }
                Expect::NoRoom { start, .. } => {
                    return Err(("offer-noroom".into(), format!("offered {range:?} although the predicate denies offset {start}")));
                }
            };
            // (2) lowest offset first: lost bytes are re-offered before anything higher.  The property does not
            // fix the order (only that lost bytes ARE offered again, which the final drain decides), so another
            // offerable start is tolerated: a lost run, or the lowest never-sent byte, within the limits at that offset.
            if range.start != start && range.end > range.start {
                let s0 = range.start as usize;
                let c = m.col[s0];
                let offerable = c == L || (c == P && flow > 0 && m.col.iter().position(|x| *x == P) == Some(s0));
                let alt_end = if offerable { pred(range.start).map(|avail| m.run_end(s0).min(s0.saturating_add(if c == L { avail } else { avail.min(flow) }))) } else { None };
                if let Some(e) = alt_end
                    && range.end as usize <= e
                {
                    st.out_of_order_picks += 1;
                    (start, end, col) = (range.start, e as u64, c);
                }
            }
            if range.start != start {
                return Err((
                    format!("pick-order:{}-skipped", CNAME[col as usize]),
                    format!("offered {range:?} but the lowest offerable byte is {start} ({}); map: {}", CNAME[col as usize], m.shape_string()),
                ));
            }
            // (3) extent: to the end of that colour run, clipped by the limits
            // A shorter, non-empty offer is legal (the property does not fix the extent); the real buffer is
            // only ever short at a position where an earlier operation cut the map (counted separately).
            let end = if range.end < end && range.end > range.start {
                if cuts.contains(&range.end) {
                    st.short_at_old_boundary += 1;
                } else {
                    st.short_picks_elsewhere += 1;
                }
                range.end
            } else {
                end
            };
            if range.end != end {
                return Err((
                    if range.end > end { "pick-extent:over-limit".to_string() } else { "pick-extent:short".to_string() },
                    format!("offered {range:?}, model expects {start}..{end}; map: {}", m.shape_string()),
                ));
            }
            // (4) fresh flag <=> never sent before
            if *fresh != (col == P) {
                return Err((
                    if *fresh { "fresh-flag:retransmission-counted-new".to_string() } else { "fresh-flag:new-data-not-counted".to_string() },
                    format!("offered {range:?} with is_fresh={fresh} but the bytes were {}", CNAME[col as usize]),
                ));
            }
            // (5) data = original bytes
            if data.len() as u64 != range.end - range.start {
                return Err(("data-length".into(), format!("offered {range:?} with {} data bytes", data.len())));
            }
            for (k, b) in data.iter().enumerate() {
                let i = range.start + k as u64;
                if *b != content(m.seed, i) {
                    return Err(("data-bytes".into(), format!("offered {range:?}: byte {i} is {:#x}, written {:#x}", b, content(m.seed, i))));
                }
            }
            if col == P {
                st.fresh_bytes += end - start;
            } else {
                st.reoffered_bytes += end - start;
            }
            m.take(start..end);
            // (6) a byte is new data at most once
            for i in start as usize..end as usize {
                if m.fresh[i] > 1 {
                    return Err(("fresh-twice".into(), format!("byte {i} was handed out as fresh data {} times", m.fresh[i])));
                }
            }
            st.picks_ok += 1;
            Ok(())
        }
    }
}

fn check_observables(m: &Model, buf: &SendBuf, st: &mut Stats) -> Result<(), (String, String)> {
    st.step_checks += 1;
    if buf.written() != m.written {
        return Err(("written".into(), format!("written() = {}, model {}", buf.written(), m.written)));
    }
    if buf.sent() != m.sent() {
        return Err(("sent".into(), format!("sent() = {}, model {}; map: {}", buf.sent(), m.sent(), m.shape_string())));
    }
    let rem = m.max_data.saturating_sub(m.written);
    if buf.remaining_mut() != rem || buf.has_remaining_mut() != (rem > 0) {
        return Err(("remaining".into(), format!("remaining_mut() = {}, model {}", buf.remaining_mut(), rem)));
    }
    if buf.max_data() != m.max_data {
        return Err(("max-data".into(), format!("max_data() = {}, model {}", buf.max_data(), m.max_data)));
    }
    if buf.is_all_rcvd() != m.all_rcvd() {
        return Err((
            if buf.is_all_rcvd() { "completion:early".to_string() } else { "completion:missed".to_string() },
            format!("is_all_rcvd() = {}, model {} (written {}); map: {}", buf.is_all_rcvd(), m.all_rcvd(), m.written, m.shape_string()),
        ));
    }
    Ok(())
}

/// Generator state shared by the legs: which ops to draw next.
pub(crate) struct Gen {
    pub rng: Rng,
    pub unit: usize,
    pub total_target: u64,
    pub style: u64,
}

impl Gen {
    pub fn new(mut rng: Rng) -> Self {
        let unit = match rng.below(4) {
            0 => rng.range(1, 4),
            1 => rng.range(2, 16),
            2 => rng.range(8, 64),
            _ => rng.range(32, 400),
        } as usize;
        let total_target = (unit as u64 * rng.range(4, 40)).min(4096);
        let style = rng.below(6);
        Gen { rng, unit, total_target, style }
    }
    pub fn size(&mut self) -> usize {
        match self.rng.below(10) {
            0 => 1,
            1 | 2 => self.rng.range(1, (self.unit as u64 * 3).max(1)) as usize,
            3 => self.unit * 2,
            4 => self.unit * 4,
            5 => (self.unit / 2).max(1),
            _ => self.unit,
        }
    }
    fn pred(&mut self) -> Pred {
        match self.rng.below(16) {
            0 => Pred::Deny,
            1 => Pred::Cap(1),
            2 => Pred::Cap(1 << 20),
            3 | 4 => Pred::Frame(self.size() + 3),
            _ => Pred::Cap(self.size()),
        }
    }
    fn flow(&mut self) -> usize {
        match self.rng.below(10) {
            0 => 0,
            1 => 1,
            2 | 3 => self.size(),
            _ => usize::MAX,
        }
    }
    /// next op of the sndbuf leg
    fn next(&mut self, m: &Model, ranges: &[Range<u64>], allow_forget: bool) -> Op {
        loop {
            let k = self.rng.below(100);
            // style shifts the mix: 0 = balanced, 1 = loss-heavy, 2 = ack-heavy, 3 = window-starved, 4 = big writes, 5 = balanced
            let (w_write, w_ext, w_pick, w_ack, w_loss) = match self.style {
                1 => (8, 5, 35, 10, 38),
                2 => (8, 5, 35, 38, 10),
                3 => (16, 4, 40, 18, 18),
                4 => (20, 10, 30, 18, 18),
                _ => (10, 7, 38, 20, 21),
            };
            let mut acc = w_write;
            if k < acc {
                if m.written >= self.total_target {
                    continue;
                }
                let n = if self.style == 4 { self.size() * 4 } else { self.size() };
                return Op::Write(n.max(1));
            }
            acc += w_ext;
            if k < acc {
                let inc = if self.style == 3 { self.rng.range(0, self.unit as u64) } else { self.rng.range(0, self.unit as u64 * 6) };
                return Op::Extend(m.max_data + inc);
            }
            acc += w_pick;
            if k < acc {
                return Op::Pick { pred: self.pred(), flow: self.flow() };
            }
            acc += w_ack;
            if k < acc {
                if ranges.is_empty() {
                    continue;
                }
                let r = &ranges[self.pick_idx(ranges.len())];
                return Op::Ack(r.start, r.end);
            }
            acc += w_loss;
            if k < acc {
                if ranges.is_empty() {
                    continue;
                }
                let r = &ranges[self.pick_idx(ranges.len())];
                return Op::Loss(r.start, r.end);
            }
            if k < acc + 2 {
                return Op::Resend;
            }
            if allow_forget && !m.any_rcvd() && self.rng.chance(1, 3) {
                let nm = self.rng.range(0, self.total_target);
                return Op::Forget(nm);
            }
        }
    }
    fn pick_idx(&mut self, n: usize) -> usize {
        // recent ranges more often, but any earlier one is possible
        if self.rng.chance(1, 2) { n - 1 - self.rng.usize(n.min(4)) } else { self.rng.usize(n) }
    }
}

pub(crate) enum Source<'a> {
    Gen { g: Gen, nops: usize, allow_forget: bool, drain: bool },
    Replay(&'a [Op]),
}

pub(crate) struct Outcome {
    pub fail: Option<Fail>,
    pub ops: Vec<Op>,
    pub st: Stats,
}

fn collect(data: &[Bytes]) -> Vec<u8> {
    let mut v = Vec::new();
    for d in data {
        v.extend_from_slice(d);
    }
    v
}

/// One history on a fresh SendBuf.
fn run_sndbuf(cseed: u64, cap0: u64, mut src: Source) -> Outcome {
    let mut buf = SendBuf::with_capacity(cap0);
    let mut m = Model::new(cseed, cap0);
    let mut st = Stats::default();
    let mut ops: Vec<Op> = vec![];
    let mut ranges: Vec<Range<u64>> = vec![];
    let mut cuts: BTreeSet<u64> = BTreeSet::new();
    let mut fail: Option<Fail> = None;
    let mut step = 0usize;
    let mut draining = 0u32;
    loop {
        let op = match &mut src {
            Source::Replay(v) => {
                if step >= v.len() {
                    break;
                }
                v[step].clone()
            }
            Source::Gen { g, nops, allow_forget, drain } => {
                if step < *nops {
                    g.next(&m, &ranges, *allow_forget)
                } else if *drain {
                    // drain phase: open the window, pick everything, ack everything
                    draining += 1;
                    if draining > 20_000 {
                        break;
                    }
                    if m.max_data < m.written {
                        Op::Extend(m.written)
                    } else if m.lowest_offerable(usize::MAX).is_some() {
                        Op::Pick { pred: Pred::Cap(g.size().max(1) * 8), flow: usize::MAX }
                    } else if let Some(i) = m.col.iter().position(|c| *c == F) {
                        // ack an earlier range that covers the lowest in-flight byte
                        let i = i as u64;
                        match ranges.iter().rev().find(|r| r.start <= i && i < r.end) {
                            Some(r) => Op::Ack(r.start, r.end),
                            None => break,
                        }
                    } else {
                        break;
                    }
                } else {
                    break;
                }
            }
        };
        ops.push(op.clone());
        let r: Result<(), (String, String)> = (|| {
            match op {
                Op::Write(n) => {
                    let data = content_bytes(cseed, m.written, n);
                    if m.written + n as u64 > m.max_data {
                        st.over_window_writes += 1;
                    }
                    vcore::panics::catch(|| buf.write(data)).map_err(|p| (format!("panic:{}", vcore::panics::short_location(&p.location)), format!("write panicked: {}", p.message)))?;
                    cuts.insert(m.col.len() as u64);
                    m.write(n);
                }
                Op::Extend(max) => {
                    vcore::panics::catch(|| buf.extend(max)).map_err(|p| (format!("panic:{}", vcore::panics::short_location(&p.location)), format!("extend panicked: {}", p.message)))?;
                    cuts.insert(m.col.len() as u64);
                    m.extend(max);
                }
                Op::Forget(max) => {
                    st.forgets += 1;
                    vcore::panics::catch(|| {
                        buf.forget_sent_state();
                        if max > buf.max_data() {
                            buf.extend(max);
                        }
                    })
                    .map_err(|p| (format!("panic:{}", vcore::panics::short_location(&p.location)), format!("forget panicked: {}", p.message)))?;
                    m.forget();
                    if max > 0 {
                        m.extend(max);
                    }
                    ranges.clear();
                    cuts.clear();
                }
                Op::Pick { pred, flow } => {
                    let exp = m.expect(&|o| pred.eval(o), flow);
                    let got = vcore::panics::catch(|| buf.pick_up(|o| pred.eval(o), flow).map(|(r, f, d)| (r, f, collect(&d))).map_err(|s| format!("{s:?}")))
                        .map_err(|p| (format!("panic:{}", vcore::panics::short_location(&p.location)), format!("pick_up panicked: {}; map: {}", p.message, m.shape_string())))?;
                    if let Ok((r, ..)) = &got {
                        if !r.is_empty() {
                            ranges.push(r.clone());
                        }
                        cuts.insert(r.start);
                        cuts.insert(r.end);
                    }
                    check_pick(&mut m, &exp, &got, &mut st, &cuts, &|o| pred.eval(o), flow)?;
                }
                Op::Ack(a, b) => {
                    let before = m.shape_string();
                    vcore::panics::catch(|| buf.on_data_acked(&(a..b)))
                        .map_err(|p| (format!("panic:{}", vcore::panics::short_location(&p.location)), format!("on_data_acked({a}..{b}) panicked: {}; map before: {before}", p.message)))?;
                    m.ack(&(a..b), &mut st);
                }
                Op::Loss(a, b) => {
                    let before = m.shape_string();
                    vcore::panics::catch(|| buf.may_loss_data(&(a..b)))
                        .map_err(|p| (format!("panic:{}", vcore::panics::short_location(&p.location)), format!("may_loss_data({a}..{b}) panicked: {}; map before: {before}", p.message)))?;
                    m.loss(&(a..b), &mut st);
                }
                Op::Resend => {
                    st.resends += 1;
                    vcore::panics::catch(|| buf.resend_flighting()).map_err(|p| (format!("panic:{}", vcore::panics::short_location(&p.location)), format!("resend_flighting panicked: {}", p.message)))?;
                    m.resend();
                }
                Op::Load { .. } => {}
            }
            check_observables(&m, &buf, &mut st)?;
            Ok(())
        })();
        if let Err((clause, detail)) = r {
            fail = Some((step, clause, detail));
            break;
        }
        if m.all_rcvd() && m.written > 0 {
            st.completions += 1;
        }
        if step < 400 {
            let (runs, h) = m.pattern();
            st.patterns.insert(h);
            st.max_runs = st.max_runs.max(runs);
        }
        step += 1;
    }
    // a colour the buffer lost track of shows up as a pick divergence only when asked: probe at the end
    if fail.is_none() {
        if let Source::Gen { .. } = src {
            // final probe: whatever is lost must be re-offered, lowest first, until nothing is left
            let mut guard = 0;
            while let Some(i) = m.col.iter().position(|c| *c == L) {
                guard += 1;
                if guard > 10_000 {
                    break;
                }
                let op = Op::Pick { pred: Pred::Cap(1 << 20), flow: 0 };
                ops.push(op);
                let exp = m.expect(&|_| Some(1 << 20), 0);
                let got = vcore::panics::catch(|| buf.pick_up(|_| Some(1 << 20), 0).map(|(r, f, d)| (r, f, collect(&d))).map_err(|s| format!("{s:?}")));
                let res = match got {
                    Ok(g) => {
                        if let Ok((r, ..)) = &g {
                            cuts.insert(r.start);
                            cuts.insert(r.end);
                        }
                        check_pick(&mut m, &exp, &g, &mut st, &cuts, &|_| Some(1 << 20), 0).and_then(|_| check_observables(&m, &buf, &mut st))
                    }
                    Err(p) => Err((format!("panic:{}", vcore::panics::short_location(&p.location)), format!("pick_up panicked: {} (lost byte {i})", p.message))),
                };
                if let Err((clause, detail)) = res {
                    fail = Some((ops.len() - 1, clause, detail));
                    break;
                }
            }
        }
    }
    Outcome { fail, ops, st }
}

// ------------------------------------------------------------------------------------------------
// crypto leg
// ------------------------------------------------------------------------------------------------

pub(crate) mod target {
    //! A bounded packet body that records the data frames written into it.
    use bytes::{BufMut, Bytes, BytesMut, buf::UninitSlice};
    use qbase::{
        frame::{CryptoFrame, Frame, StreamFrame},
        packet::RecordFrame,
        util::ContinuousData,
    };

    pub enum Rec {
        Crypto(CryptoFrame, Bytes),
        Stream(StreamFrame, Bytes),
        Other(String),
    }

    pub struct Target {
        pub buf: BytesMut,
        pub cap: usize,
        pub frames: Vec<Rec>,
    }

    impl Target {
        pub fn new(cap: usize) -> Self {
            Target { buf: BytesMut::with_capacity(cap), cap, frames: vec![] }
        }
    }

    unsafe impl BufMut for Target {
        fn remaining_mut(&self) -> usize {
            self.cap - self.buf.len()
        }
        unsafe fn advance_mut(&mut self, cnt: usize) {
            assert!(cnt <= self.remaining_mut(), "packet overflow: advance {cnt} with {} left", self.remaining_mut());
            unsafe { self.buf.advance_mut(cnt) }
        }
        fn chunk_mut(&mut self) -> &mut UninitSlice {
            let rem = self.cap - self.buf.len();
            if self.buf.capacity() - self.buf.len() < rem {
                self.buf.reserve(rem);
            }
            let c = self.buf.chunk_mut();
            let n = c.len().min(rem);
            &mut c[..n]
        }
    }

    impl<D: ContinuousData> RecordFrame<Frame<D>, D> for Target {
        fn record_frame(&mut self, frame: &Frame<D>) {
            self.frames.push(match frame {
                Frame::Crypto(f, d) => Rec::Crypto(*f, d.to_bytes()),
                Frame::Stream(f, d) => Rec::Stream(*f, d.to_bytes()),
                other => Rec::Other(format!("{:?}", qbase::frame::GetFrameType::frame_type(other))),
            });
        }
    }
}

fn noop_cx() -> Context<'static> {
    Context::from_waker(futures::task::noop_waker_ref())
}

/// One history on a fresh CryptoStream (writer + outgoing).
fn run_crypto(cseed: u64, mut src: Source) -> Outcome {
    use target::{Rec, Target};
    let cs = CryptoStream::new(Default::default());
    let mut writer = cs.writer();
    let outgoing = cs.outgoing();
    let mut m = Model::new(cseed, qbase::varint::VARINT_MAX);
    let mut st = Stats::default();
    let mut ops: Vec<Op> = vec![];
    let mut frames: Vec<Range<u64>> = vec![];
    let mut cuts: BTreeSet<u64> = BTreeSet::new();
    let mut fail: Option<Fail> = None;
    let mut step = 0usize;
    let mut draining = 0;
    loop {
        let op = match &mut src {
            Source::Replay(v) => {
                if step >= v.len() {
                    break;
                }
                v[step].clone()
            }
            Source::Gen { g, nops, drain, .. } => {
                if step < *nops {
                    let k = g.rng.below(100);
                    if k < 14 && m.written < g.total_target {
                        Op::Write(g.size().max(1))
                    } else if k < 55 {
                        let cap = match g.rng.below(8) {
                            0 => g.rng.range(0, 6) as usize,
                            1 => 1200,
                            2 => g.size() * 3 + 8,
                            _ => g.size() + g.rng.range(3, 8) as usize,
                        };
                        Op::Load { cap, force: g.rng.chance(1, 10) }
                    } else if frames.is_empty() {
                        Op::Write(g.size().max(1))
                    } else if k < 76 {
                        let r = &frames[g.pick_idx(frames.len())];
                        Op::Ack(r.start, r.end)
                    } else {
                        let r = &frames[g.pick_idx(frames.len())];
                        Op::Loss(r.start, r.end)
                    }
                } else if *drain {
                    draining += 1;
                    if draining > 20_000 {
                        break;
                    }
                    if m.lowest_offerable(usize::MAX).is_some() {
                        Op::Load { cap: 1200, force: false }
                    } else if let Some(i) = m.col.iter().position(|c| *c == F) {
                        let i = i as u64;
                        match frames.iter().rev().find(|r| r.start <= i && i < r.end) {
                            Some(r) => Op::Ack(r.start, r.end),
                            None => break,
                        }
                    } else {
                        break;
                    }
                } else {
                    break;
                }
            }
        };
        ops.push(op.clone());
        let r: Result<(), (String, String)> = (|| {
            let pmap = |what: &str, p: vcore::panics::PanicRecord| (format!("panic:{}", vcore::panics::short_location(&p.location)), format!("{what} panicked: {}", p.message));
            match op {
                Op::Write(n) => {
                    let data = content_bytes(cseed, m.written, n);
                    let res = vcore::panics::catch(|| Pin::new(&mut writer).poll_write(&mut noop_cx(), &data)).map_err(|p| pmap("poll_write", p))?;
                    match res {
                        Poll::Ready(Ok(k)) if k == n => {}
                        other => return Err(("crypto-write".into(), format!("poll_write({n}) returned {other:?}"))),
                    }
                    cuts.insert(m.col.len() as u64);
                    m.write(n);
                }
                Op::Load { cap, force } => {
                    let mut t = Target::new(cap);
                    let res = vcore::panics::catch(|| outgoing.try_load_data_into(&mut t, force)).map_err(|p| pmap("try_load_data_into", p))?;
                    if force {
                        st.resends += 1;
                        m.resend();
                    }
                    if t.buf.len() > cap {
                        return Err(("crypto-overflow".into(), format!("wrote {} bytes into a {cap}-byte packet", t.buf.len())));
                    }
                    let mut room = cap;
                    let n = t.frames.len();
                    for (k, f) in t.frames.iter().enumerate() {
                        let (a, b, d) = match f {
                            Rec::Crypto(f, d) => (f.offset(), f.offset() + f.len(), d.to_vec()),
                            _ => return Err(("crypto-foreign-frame".into(), "non-CRYPTO frame recorded".into())),
                        };
                        if b > a {
                            frames.push(a..b);
                        }
                        cuts.insert(a);
                        cuts.insert(b);
                        let r = room;
                        let exp = m.expect(&|o| CryptoFrame::estimate_max_capacity(r, o), usize::MAX);
                        let fresh = matches!(exp, Expect::Take { col, .. } if col == P);
                        check_pick(&mut m, &exp, &Ok((a..b, fresh, d)), &mut st, &cuts, &|o| CryptoFrame::estimate_max_capacity(r, o), usize::MAX)
                            .map_err(|(c, d)| (c, format!("load(cap {cap}, force {force}) frame #{k} with {room} bytes of room: {d}")))?;
                        let sz = 1 + varint_len(a) + varint_len(b - a) + (b - a) as usize;
                        if sz > room {
                            return Err(("crypto-overflow".into(), format!("frame {a}..{b} needs {sz} bytes, {room} were left")));
                        }
                        room -= sz;
                    }
                    if room != bytes::BufMut::remaining_mut(&t) {
                        return Err(("harness".into(), format!("frame size bookkeeping: {room} vs {}", bytes::BufMut::remaining_mut(&t))));
                    }
                    // whatever is still offerable must not fit any more
                    let r = room;
                    if let Expect::Take { start, end, col } = m.expect(&|o| CryptoFrame::estimate_max_capacity(r, o), usize::MAX) {
                        if end > start {
                            return Err((
                                format!("pick-missed:{}", CNAME[col as usize]),
                                format!("load(cap {cap}, force {force}) stopped after {n} frames with {room} bytes of room although bytes {start}..{end} are {} and fit; map: {}", CNAME[col as usize], m.shape_string()),
                            ));
                        }
                    }
                    if res.is_ok() != (n > 0) {
                        return Err(("crypto-load-result".into(), format!("try_load_data_into returned {res:?} with {n} frames written")));
                    }
                    if n == 0 {
                        st.picks_err += 1;
                    }
                }
                Op::Ack(a, b) => {
                    let f = CryptoFrame::new(VarInt::from_u64(a).unwrap(), VarInt::from_u64(b - a).unwrap());
                    vcore::panics::catch(|| outgoing.on_data_acked(&f)).map_err(|p| pmap("on_data_acked", p))?;
                    m.ack(&(a..b), &mut st);
                }
                Op::Loss(a, b) => {
                    let f = CryptoFrame::new(VarInt::from_u64(a).unwrap(), VarInt::from_u64(b - a).unwrap());
                    vcore::panics::catch(|| outgoing.may_loss_data(&f)).map_err(|p| pmap("may_loss_data", p))?;
                    m.loss(&(a..b), &mut st);
                }
                _ => {}
            }
            // completion: poll_flush is Ready exactly when everything written is acknowledged
            st.step_checks += 1;
            let fl = vcore::panics::catch(|| Pin::new(&mut writer).poll_flush(&mut noop_cx())).map_err(|p| pmap("poll_flush", p))?;
            let ready = matches!(fl, Poll::Ready(Ok(())));
            if ready != m.all_rcvd() {
                return Err((
                    if ready { "completion:early".to_string() } else { "completion:missed".to_string() },
                    format!("crypto poll_flush ready = {ready}, model all-acknowledged = {}; map: {}", m.all_rcvd(), m.shape_string()),
                ));
            }
            Ok(())
        })();
        if let Err((clause, detail)) = r {
            fail = Some((step, clause, detail));
            break;
        }
        if m.all_rcvd() && m.written > 0 {
            st.completions += 1;
        }
        if step < 400 {
            let (runs, h) = m.pattern();
            st.patterns.insert(h);
            st.max_runs = st.max_runs.max(runs);
        }
        step += 1;
    }
    Outcome { fail, ops, st }
}

// ------------------------------------------------------------------------------------------------

fn merge_stats(rep: &mut Report, leg: &str, st: &Stats) {
    rep.add(&format!("{leg}_picks_ok"), st.picks_ok);
    rep.add(&format!("{leg}_picks_refused"), st.picks_err);
    rep.add(&format!("{leg}_fresh_bytes"), st.fresh_bytes);
    rep.add(&format!("{leg}_reoffered_bytes"), st.reoffered_bytes);
    rep.add(&format!("{leg}_acks"), st.acks);
    rep.add(&format!("{leg}_losses"), st.losses);
    rep.add(&format!("{leg}_ack_after_loss"), st.ack_after_loss);
    rep.add(&format!("{leg}_loss_after_ack"), st.loss_after_ack);
    rep.add(&format!("{leg}_repeated_ack"), st.repeated_ack);
    rep.add(&format!("{leg}_mixed_colour_range_ops"), st.mixed_range_ops);
    rep.add(&format!("{leg}_completions_observed"), st.completions);
    rep.add(&format!("{leg}_resend_flighting"), st.resends);
    rep.add(&format!("{leg}_forget_sent_state"), st.forgets);
    rep.add(&format!("{leg}_writes_beyond_window"), st.over_window_writes);
    rep.add(&format!("{leg}_short_offers_at_old_boundary"), st.short_at_old_boundary);
    rep.add(&format!("{leg}_short_offers_elsewhere_tolerated"), st.short_picks_elsewhere);
    rep.add(&format!("{leg}_out_of_order_offers_tolerated"), st.out_of_order_picks);
    rep.add(&format!("{leg}_step_checks"), st.step_checks);
    rep.max("max_colour_runs", st.max_runs);
    for h in &st.patterns {
        rep.set("colour_patterns", *h);
    }
    for h in &st.contexts {
        rep.set("ack_loss_contexts", *h);
    }
}

fn report(rep: &mut Report, leg: &str, cseed: u64, cap0: u64, o: &Outcome) {
    if let Some((step, clause, detail)) = &o.fail {
        let sig = if clause == "harness" { None } else { Some(format!("C09.{clause}")) };
        let replay = json!({"kind": "c09", "leg": leg, "cseed": cseed, "cap0": cap0,
            "ops": o.ops.iter().map(|x| x.to_json()).collect::<Vec<_>>()});
        match sig {
            Some(sig) => rep.violation(sig, format!("{leg} leg, step {step}: {detail}"), replay),
            None => rep.inconclusive(format!("{leg} leg harness trouble at step {step}: {detail}")),
        }
    }
}

fn hist_hash(leg: &str, cap0: u64, ops: &[Op]) -> u64 {
    let mut h = vcore::fnv_str(leg) ^ cap0.wrapping_mul(0x9e3779b97f4a7c15);
    for o in ops {
        o.hash_into(&mut h);
    }
    h
}

pub fn run(args: &Args, rep: &mut Report) {
    rep.rule = "history = op sequence (write/extend/pick_up/ack/loss/resend) on one send buffer (SendBuf, crypto stream or \
                data stream); distinct = distinct (leg, initial window, op sequence) hashes; non-trivial = at least one \
                byte was re-offered after a loss report AND at least one ack/loss report hit a range holding more than one colour"
        .into();
    if let Some(path) = args.get("replay") {
        let v: Value = serde_json::from_str(&std::fs::read_to_string(path).unwrap()).unwrap();
        let v = if v.get("replay").is_some() { v["replay"].clone() } else { v };
        let leg = v["leg"].as_str().unwrap_or("sndbuf").to_string();
        rep.evaluations += 1;
        if leg == "stream" {
            crate::c09_stream::replay(rep, &v);
            return;
        }
        let ops: Vec<Op> = v["ops"].as_array().unwrap().iter().map(Op::from_json).collect();
        let cseed = v["cseed"].as_u64().unwrap();
        let cap0 = v["cap0"].as_u64().unwrap_or(0);
        match leg.as_str() {
            "sndbuf" => {
                let o = run_sndbuf(cseed, cap0, Source::Replay(&ops));
                report(rep, "sndbuf", cseed, cap0, &o);
            }
            "crypto" => {
                let o = run_crypto(cseed, Source::Replay(&ops));
                report(rep, "crypto", cseed, cap0, &o);
            }
            other => rep.inconclusive(format!("unknown leg {other}")),
        }
        return;
    }
    let thorough = args.get("tier") == Some("thorough");
    let shard = args.u64("shard", 0);
    let n = args.budget(if thorough { 60_000 } else { 2_500 });
    let mut rng = Rng::new(args.seed() ^ 0xc09).fork(shard);
    for i in 0..n {
        let cseed = rng.next_u64();
        let leg = match i % 10 {
            0..=5 => "sndbuf",
            // under an interpreter (Miri) the crypto sender's `assert!(waker.will_wake(..))` depends on vtable
            // addresses of the harness's noop waker, which the interpreter does not keep unique: the leg is
            // driven natively only
            6 | 7 if args.flag("interp") => "sndbuf",
            6 | 7 => "crypto",
            _ => "stream",
        };
        let g = Gen::new(rng.fork(i));
        let nops = match rng.below(4) {
            0 => rng.range(5, 30),
            1 | 2 => rng.range(30, 80),
            _ => rng.range(80, 200),
        } as usize;
        let drain = rng.bool();
        match leg {
            "sndbuf" => {
                let cap0 = match rng.below(5) {
                    0 => 0,
                    1 => g.unit as u64,
                    2 => g.total_target / 2,
                    3 => g.total_target,
                    _ => 1 << 20,
                };
                let allow_forget = rng.chance(1, 8);
                let o = run_sndbuf(cseed, cap0, Source::Gen { g, nops, allow_forget, drain });
                rep.evaluations += 1;
                merge_stats(rep, "sndbuf", &o.st);
                if o.st.reoffered_bytes > 0 && o.st.mixed_range_ops > 0 {
                    rep.distinct(hist_hash(leg, cap0, &o.ops));
                }
                if i < 2 {
                    rep.sample(json!({"leg": leg, "cap0": cap0, "n_ops": o.ops.len(), "first_ops": o.ops.iter().take(14).map(|x| x.to_json()).collect::<Vec<_>>()}));
                }
                report(rep, leg, cseed, cap0, &o);
            }
            "crypto" => {
                let o = run_crypto(cseed, Source::Gen { g, nops, allow_forget: false, drain });
                rep.evaluations += 1;
                merge_stats(rep, "crypto", &o.st);
                if o.st.reoffered_bytes > 0 && o.st.mixed_range_ops > 0 {
                    rep.distinct(hist_hash(leg, 0, &o.ops));
                }
                if i % 10 == 6 && i < 20 {
                    rep.sample(json!({"leg": leg, "n_ops": o.ops.len(), "first_ops": o.ops.iter().take(14).map(|x| x.to_json()).collect::<Vec<_>>()}));
                }
                report(rep, leg, cseed, 0, &o);
            }
            _ => crate::c09_stream::one(rep, cseed, g, nops, drain, i < 20),
        }
    }
    rep.add("histories", n);
}
