// (included by streams_h_sim.rs) — application side: real Reader / Writer driven by explicit ops,
// self-identifying PRF content, C01 byte/EOF/reset oracle, waker-driven final pump.

#[derive(Clone, Copy, Debug, PartialEq)]
pub enum WEnd {
    Ok,
    Reset(u64),
}

#[derive(Clone, Copy, Debug, PartialEq)]
pub enum REnd {
    Eof,
    Reset(u64),
}

/// One direction of data on one stream.
pub struct Flow {
    pub sid: StreamId,
    /// side that writes
    pub from: Side,
    /// PRF object id of this flow
    pub obj: u64,
    pub w: Option<W>,
    pub r: Option<R>,
    pub wp: Pollee,
    pub rp: Pollee,
    pub written: u64,
    /// bytes of a write that returned Pending and that the application retries when woken
    pub want_write: usize,
    pub want_mode: u8,
    pub shutdown_called: bool,
    pub wend: Option<WEnd>,
    pub final_size: Option<u64>,
    pub flush_wanted: bool,
    pub flush_mark: u64,
    pub cancelled: Option<u64>,
    pub stop_issued: Option<u64>,
    pub nread: u64,
    pub rend: Option<REnd>,
}

impl Flow {
    fn new(sid: StreamId, from: Side) -> Flow {
        Flow {
            sid,
            from,
            obj: sid_raw(sid) * 2 + from as u64,
            w: None,
            r: None,
            wp: Pollee::default(),
            rp: Pollee::default(),
            written: 0,
            want_write: 0,
            want_mode: 0,
            shutdown_called: false,
            wend: None,
            final_size: None,
            flush_wanted: false,
            flush_mark: 0,
            cancelled: None,
            stop_issued: None,
            nread: 0,
            rend: None,
        }
    }
    pub fn reset_allowed(&self, code: u64) -> bool {
        self.cancelled == Some(code) || self.stop_issued == Some(code)
    }
    pub fn writer_done(&self) -> bool {
        self.wend.is_some()
    }
    pub fn reader_done(&self) -> bool {
        self.rend.is_some()
    }
}

#[derive(Default)]
pub struct App {
    pub flows: Vec<Flow>,
    pub index: BTreeMap<(u64, u8), usize>,
    /// opens the application still waits for, per side and direction
    pub pending_opens: [[u32; 2]; 2],
    pub open_pollee: [[Pollee; 2]; 2],
    pub accept_pollee: [[Pollee; 2]; 2],
    /// order in which streams were opened / accepted per side and direction (stream indices)
    pub opened: [[Vec<u64>; 2]; 2],
    pub accepted: [[Vec<u64>; 2]; 2],
    fin_emitted: std::collections::BTreeSet<(u8, u64)>,
}

impl App {
    fn flow_ix(&mut self, sid: StreamId, from: Side) -> usize {
        let k = (sid_raw(sid), from as u8);
        if let Some(i) = self.index.get(&k) {
            return *i;
        }
        self.flows.push(Flow::new(sid, from));
        self.index.insert(k, self.flows.len() - 1);
        self.flows.len() - 1
    }
    pub fn writers(&self, side: Side) -> Vec<usize> {
        (0..self.flows.len()).filter(|i| self.flows[*i].from == side && self.flows[*i].w.is_some()).collect()
    }
    pub fn readers(&self, side: Side) -> Vec<usize> {
        (0..self.flows.len()).filter(|i| self.flows[*i].from != side && self.flows[*i].r.is_some()).collect()
    }
    fn fin_was_emitted(&self, side: Side, sid: StreamId) -> bool {
        self.fin_emitted.contains(&(side as u8, sid_raw(sid)))
    }
    fn note_fin_emitted(&mut self, side: Side, f: StreamFrame) {
        if f.is_fin() {
            self.fin_emitted.insert((side as u8, sid_raw(f.stream_id())));
        }
    }
}

fn stream_err_code(e: &StreamError) -> Result<u64, String> {
    match e {
        StreamError::Reset(r) => Ok(r.error_code()),
        other => Err(format!("{other:?}")),
    }
}

fn io_err_code(e: &std::io::Error) -> Result<u64, String> {
    match e.get_ref().and_then(|i| i.downcast_ref::<StreamError>()) {
        Some(se) => stream_err_code(se),
        None => Err(format!("{e:?}")),
    }
}

impl Sim {
    /// a panic anywhere in an application-side or feedback call is recorded, never propagated
    fn guarded(&mut self, what: &str, f: impl FnOnce(&mut Sim)) {
        if let Err(p) = vcore::panics::catch(|| f(self)) {
            let loc = vcore::panics::short_location(&p.location);
            self.fail("ANY", format!("panic:{loc}"), format!("{what} panicked: {} at {}", p.message, p.location));
            self.dead = Some((Side::C, "panic".into(), p.message));
        }
    }

    pub fn apply(&mut self, op: &Op) {
        if self.dead.is_some() {
            return;
        }
        let what = format!("{op:?}");
        self.guarded(&what, |s| s.apply_inner(op));
    }

    fn apply_inner(&mut self, op: &Op) {
        match op {
            Op::Open { side, dir } => self.op_open(*side, *dir, true),
            Op::Accept { side } => self.op_accept(*side),
            Op::Write { side, slot, len, mode } => {
                let ws = self.app.writers(*side);
                if !ws.is_empty() {
                    self.op_write(ws[slot % ws.len()], *len, *mode);
                }
            }
            Op::Shutdown { side, slot } => {
                let ws = self.app.writers(*side);
                if !ws.is_empty() {
                    self.op_shutdown(ws[slot % ws.len()]);
                }
            }
            Op::Flush { side, slot } => {
                let ws = self.app.writers(*side);
                if !ws.is_empty() {
                    self.op_flush(ws[slot % ws.len()], true);
                }
            }
            Op::Cancel { side, slot, code } => {
                let ws = self.app.writers(*side);
                if !ws.is_empty() {
                    self.op_cancel(ws[slot % ws.len()], *code);
                }
            }
            Op::Read { side, slot, cap, mode } => {
                let rs = self.app.readers(*side);
                if !rs.is_empty() {
                    self.op_read(rs[slot % rs.len()], *cap, *mode);
                }
            }
            Op::Stop { side, slot, code } => {
                let rs = self.app.readers(*side);
                if !rs.is_empty() {
                    self.op_stop(rs[slot % rs.len()], *code);
                }
            }
            Op::Pkt { side, cap, nctl, delays, loss, ack } => {
                self.packetise(*side, *cap, *nctl, delays, loss, *ack);
            }
            Op::Tick { n } => {
                for _ in 0..*n {
                    self.tick_once();
                }
            }
        }
        self.collect_originated();
    }

    /// try to open a stream; `new_request` = the application asks for one more stream (otherwise a retry)
    pub fn op_open(&mut self, side: Side, dir: Dir, new_request: bool) {
        let d = dir_u(dir) as usize;
        let s = side.ix();
        self.app.open_pollee[s][d].before_poll();
        let waker = self.app.open_pollee[s][d].waker();
        let e = &self.ep[s];
        enum Got {
            Bi(StreamId, R, W),
            Uni(StreamId, W),
            Pending,
            Exhausted,
            Err(String),
        }
        let got = match dir {
            Dir::Bi => match poll_once(e.streams.open_bi(&e.params), &waker) {
                Poll::Ready(Ok(Some((sid, (r, w))))) => Got::Bi(sid, r, w),
                Poll::Ready(Ok(None)) => Got::Exhausted,
                Poll::Ready(Err(err)) => Got::Err(format!("{err}")),
                Poll::Pending => Got::Pending,
            },
            Dir::Uni => match poll_once(e.streams.open_uni(&e.params), &waker) {
                Poll::Ready(Ok(Some((sid, w)))) => Got::Uni(sid, w),
                Poll::Ready(Ok(None)) => Got::Exhausted,
                Poll::Ready(Err(err)) => Got::Err(format!("{err}")),
                Poll::Pending => Got::Pending,
            },
        };
        self.app.open_pollee[s][d].after_poll(matches!(got, Got::Pending));
        match got {
            Got::Pending => {
                if new_request {
                    self.app.pending_opens[s][d] += 1;
                }
                self.stats.open_blocked += 1;
                self.events.push(Event::OpenBlocked { side, dir });
            }
            Got::Exhausted => {}
            Got::Err(e) => self.fail("C01", "open-error", format!("open_{dir:?} on {side:?} failed without a connection error: {e}")),
            Got::Bi(sid, r, w) => {
                if !new_request {
                    self.app.pending_opens[s][d] -= 1;
                }
                self.note_opened(side, dir, sid);
                let a = self.app.flow_ix(sid, side);
                self.app.flows[a].w = Some(w);
                let b = self.app.flow_ix(sid, side.peer());
                self.app.flows[b].r = Some(r);
            }
            Got::Uni(sid, w) => {
                if !new_request {
                    self.app.pending_opens[s][d] -= 1;
                }
                self.note_opened(side, dir, sid);
                let a = self.app.flow_ix(sid, side);
                self.app.flows[a].w = Some(w);
            }
        }
    }

    fn note_opened(&mut self, side: Side, dir: Dir, sid: StreamId) {
        self.stats.opens += 1;
        if sid.role() != side.role() || sid.dir() != dir {
            self.fail("C12", "open.wrong-kind", format!("open_{dir:?} on {side:?} returned {sid}"));
        }
        self.app.opened[side.ix()][dir_u(dir) as usize].push(sid.id());
        self.events.push(Event::Opened { side, sid: sid_raw(sid) });
    }

    pub fn op_accept(&mut self, side: Side) {
        let s = side.ix();
        loop {
            self.app.accept_pollee[s][0].before_poll();
            let waker = self.app.accept_pollee[s][0].waker();
            let e = &self.ep[s];
            let r = poll_once(e.streams.accept_bi(&e.params), &waker);
            self.app.accept_pollee[s][0].after_poll(r.is_pending());
            match r {
                Poll::Pending => break,
                Poll::Ready(Err(err)) => {
                    self.fail("C01", "accept-error", format!("accept_bi on {side:?}: {err}"));
                    break;
                }
                Poll::Ready(Ok((sid, (r, w)))) => {
                    self.note_accepted(side, Dir::Bi, sid);
                    let a = self.app.flow_ix(sid, side.peer());
                    self.app.flows[a].r = Some(r);
                    let b = self.app.flow_ix(sid, side);
                    self.app.flows[b].w = Some(w);
                }
            }
        }
        loop {
            self.app.accept_pollee[s][1].before_poll();
            let waker = self.app.accept_pollee[s][1].waker();
            let e = &self.ep[s];
            let r = poll_once(e.streams.accept_uni(), &waker);
            self.app.accept_pollee[s][1].after_poll(r.is_pending());
            match r {
                Poll::Pending => break,
                Poll::Ready(Err(err)) => {
                    self.fail("C01", "accept-error", format!("accept_uni on {side:?}: {err}"));
                    break;
                }
                Poll::Ready(Ok((sid, r))) => {
                    self.note_accepted(side, Dir::Uni, sid);
                    let a = self.app.flow_ix(sid, side.peer());
                    self.app.flows[a].r = Some(r);
                }
            }
        }
    }

    fn note_accepted(&mut self, side: Side, dir: Dir, sid: StreamId) {
        self.stats.accepts += 1;
        let v = &mut self.app.accepted[side.ix()][dir_u(dir) as usize];
        let expect = v.len() as u64;
        let ok = sid.role() == side.peer().role() && sid.dir() == dir && sid.id() == expect;
        v.push(sid.id());
        if !ok {
            self.fail("C12", "implicit-open.accept-order", format!("accept_{dir:?} on {side:?} yielded {sid}, expected index {expect} of the peer's {dir:?} streams"));
        }
        self.events.push(Event::Accepted { side, sid: sid_raw(sid) });
    }

    fn writer_error(&mut self, i: usize, what: &str, code: Result<u64, String>) {
        let f = &mut self.app.flows[i];
        match code {
            Ok(c) if f.reset_allowed(c) => {
                if f.wend.is_none() {
                    f.wend = Some(WEnd::Reset(c));
                }
            }
            Ok(c) => {
                let d = format!("{what} on {} ({:?} writes) failed with reset code {c}, but the harness issued cancel={:?} stop={:?}", f.sid, f.from, f.cancelled, f.stop_issued);
                self.fail("C01", "reset-unprovoked:writer", d);
            }
            Err(e) => {
                let d = format!("{what} on {} ({:?} writes) failed: {e}", f.sid, f.from);
                self.fail("C01", "writer-error", d);
            }
        }
    }

    pub fn op_write(&mut self, i: usize, len: usize, mode: u8) {
        let cseed = self.cfg.cseed;
        let f = &mut self.app.flows[i];
        if f.shutdown_called || f.cancelled.is_some() || f.wend.is_some() {
            return;
        }
        let mut data = vec![0u8; len];
        vcore::prf_fill(cseed, f.obj, f.written, &mut data);
        f.wp.before_poll();
        let waker = f.wp.waker();
        let mut cx = Context::from_waker(&waker);
        let w = f.w.as_mut().unwrap();
        // Ok(Some(n)) accepted n bytes, Ok(None) pending
        let res: Result<Option<usize>, Result<u64, String>> = match mode {
            0 => match tokio::io::AsyncWrite::poll_write(Pin::new(w), &mut cx, &data) {
                Poll::Ready(Ok(n)) => Ok(Some(n)),
                Poll::Ready(Err(e)) => Err(io_err_code(&e)),
                Poll::Pending => Ok(None),
            },
            1 => match futures::Sink::<Bytes>::poll_ready(Pin::new(&mut *w), &mut cx) {
                Poll::Ready(Ok(())) => match futures::Sink::<Bytes>::start_send(Pin::new(&mut *w), Bytes::from(data.clone())) {
                    Ok(()) => Ok(Some(len)),
                    Err(e) => Err(stream_err_code(&e)),
                },
                Poll::Ready(Err(e)) => Err(stream_err_code(&e)),
                Poll::Pending => Ok(None),
            },
            _ => match w.write(Bytes::from(data.clone())) {
                Ok(()) => Ok(Some(len)),
                Err(e) => Err(stream_err_code(&e)),
            },
        };
        f.wp.after_poll(matches!(res, Ok(None)));
        match res {
            Ok(Some(n)) => {
                if n != len {
                    let d = format!("write of {len} bytes on {} accepted {n}", f.sid);
                    self.fail("C01", "write-short", d);
                    return;
                }
                f.written += n as u64;
                f.want_write = 0;
                self.stats.bytes_written += n as u64;
            }
            Ok(None) => {
                f.want_write = len;
                f.want_mode = mode;
                self.stats.write_pending += 1;
            }
            Err(code) => self.writer_error(i, "write", code),
        }
    }

    pub fn op_shutdown(&mut self, i: usize) {
        let f = &mut self.app.flows[i];
        if f.wend.is_some() {
            return;
        }
        if !f.shutdown_called {
            f.shutdown_called = true;
            f.want_write = 0;
            f.flush_wanted = false; // shutdown subsumes a flush that is still pending
            if f.cancelled.is_none() {
                f.final_size = Some(f.written);
            }
        }
        f.wp.before_poll();
        let waker = f.wp.waker();
        let mut cx = Context::from_waker(&waker);
        let r = f.w.as_mut().unwrap().poll_shutdown(&mut cx);
        f.wp.after_poll(r.is_pending());
        match r {
            Poll::Pending => {}
            Poll::Ready(Ok(())) => {
                f.wend = Some(WEnd::Ok);
                self.stats.shutdown_ok += 1;
            }
            Poll::Ready(Err(e)) => {
                let c = stream_err_code(&e);
                self.writer_error(i, "shutdown", c);
            }
        }
    }

    pub fn op_flush(&mut self, i: usize, new_request: bool) {
        let f = &mut self.app.flows[i];
        if f.wend.is_some() || f.shutdown_called {
            f.flush_wanted = false;
            return;
        }
        if new_request {
            f.flush_wanted = true;
            f.flush_mark = f.written;
        }
        f.wp.before_poll();
        let waker = f.wp.waker();
        let mut cx = Context::from_waker(&waker);
        let r = f.w.as_mut().unwrap().poll_flush(&mut cx);
        f.wp.after_poll(r.is_pending());
        match r {
            Poll::Pending => {}
            Poll::Ready(Ok(())) => {
                f.flush_wanted = false;
                self.stats.flush_ok += 1;
            }
            Poll::Ready(Err(e)) => {
                f.flush_wanted = false;
                let c = stream_err_code(&e);
                self.writer_error(i, "flush", c);
            }
        }
    }

    pub fn op_cancel(&mut self, i: usize, code: u64) {
        let f = &mut self.app.flows[i];
        if f.wend.is_some() || f.cancelled.is_some() {
            return;
        }
        f.cancelled = Some(code);
        f.want_write = 0;
        f.wp.pending = false; // the application acts on its own, it does not wait for a wake-up of an earlier write
        f.w.as_mut().unwrap().cancel(code);
    }

    pub fn op_stop(&mut self, i: usize, code: u64) {
        let f = &mut self.app.flows[i];
        if f.rend.is_some() || f.stop_issued.is_some() {
            return;
        }
        f.stop_issued = Some(code);
        f.r.as_mut().unwrap().stop(code);
    }

    /// one read attempt; returns number of bytes read (0 also for pending / terminal)
    pub fn op_read(&mut self, i: usize, cap: usize, mode: u8) -> usize {
        let cseed = self.cfg.cseed;
        let cap = cap.max(1);
        let f = &mut self.app.flows[i];
        f.rp.before_poll();
        let waker = f.rp.waker();
        let mut cx = Context::from_waker(&waker);
        let r = f.r.as_mut().unwrap();
        enum Got {
            Data(Vec<u8>),
            Eof,
            Pending,
            Err(Result<u64, String>),
        }
        let got = match mode {
            0 => {
                let mut dst = BytesMut::with_capacity(cap.min(1 << 16)).limit(cap);
                match r.poll_read(&mut cx, &mut dst) {
                    Poll::Ready(Ok(())) => {
                        let v = dst.into_inner();
                        if v.is_empty() { Got::Eof } else { Got::Data(v.to_vec()) }
                    }
                    Poll::Ready(Err(e)) => Got::Err(stream_err_code(&e)),
                    Poll::Pending => Got::Pending,
                }
            }
            1 => {
                let mut store = vec![0u8; cap.min(1 << 17)];
                let mut rb = tokio::io::ReadBuf::new(&mut store);
                match tokio::io::AsyncRead::poll_read(Pin::new(r), &mut cx, &mut rb) {
                    Poll::Ready(Ok(())) => {
                        let v = rb.filled().to_vec();
                        if v.is_empty() { Got::Eof } else { Got::Data(v) }
                    }
                    Poll::Ready(Err(e)) => Got::Err(io_err_code(&e)),
                    Poll::Pending => Got::Pending,
                }
            }
            _ => match futures::Stream::poll_next(Pin::new(r), &mut cx) {
                Poll::Ready(Some(Ok(b))) => {
                    if b.is_empty() {
                        Got::Err(Err("poll_next yielded an empty chunk".into()))
                    } else {
                        Got::Data(b.to_vec())
                    }
                }
                Poll::Ready(None) => Got::Eof,
                Poll::Ready(Some(Err(e))) => Got::Err(stream_err_code(&e)),
                Poll::Pending => Got::Pending,
            },
        };
        f.rp.after_poll(matches!(got, Got::Pending));
        let who = format!("{} ({:?}->{:?})", f.sid, f.from, f.from.peer());
        let (obj, nread, written, rend, final_size, cancelled, stop_issued) = (f.obj, f.nread, f.written, f.rend, f.final_size, f.cancelled, f.stop_issued);
        match got {
            Got::Pending => {
                self.stats.read_pending += 1;
                if let Some(end) = rend {
                    self.fail("C01", "terminal-unstable", format!("reader of {who} returned Pending after it had reported {end:?}"));
                }
                0
            }
            Got::Data(v) => {
                if let Some(end) = rend {
                    self.fail("C01", "data-after-end", format!("reader of {who} returned {} bytes after it had reported {end:?}", v.len()));
                    return 0;
                }
                if mode != 2 && v.len() > cap {
                    self.fail("C01", "read-overflow", format!("reader of {who} returned {} bytes into a buffer of {cap}", v.len()));
                }
                let start = nread;
                if start + v.len() as u64 > written {
                    self.fail("C01", "read-beyond-written", format!("reader of {who} returned bytes {start}..{} but only {written} were written", start + v.len() as u64));
                    return 0;
                }
                for (k, b) in v.iter().enumerate() {
                    let want = vcore::prf_byte(cseed, obj, start + k as u64);
                    if *b != want {
                        self.fail("C01", "byte-mismatch", format!("reader of {who}: byte at offset {} is {b:#04x}, written was {want:#04x} (read of {} bytes at {start})", start + k as u64, v.len()));
                        return 0;
                    }
                }
                self.app.flows[i].nread += v.len() as u64;
                self.stats.bytes_read += v.len() as u64;
                v.len()
            }
            Got::Eof => {
                match rend {
                    Some(REnd::Eof) => {}
                    Some(other) => self.fail("C01", "terminal-unstable", format!("reader of {who} reported EOF after {other:?}")),
                    None => {
                        self.app.flows[i].rend = Some(REnd::Eof);
                        self.stats.eofs += 1;
                        match final_size {
                            Some(fs) if fs == nread => {}
                            Some(fs) => self.fail("C01", "eof-early", format!("reader of {who} reported EOF after {nread} bytes, final size is {fs}")),
                            None => self.fail("C01", "eof-without-fin", format!("reader of {who} reported EOF after {nread} bytes but the writer never shut down (written {written}, cancelled {cancelled:?})")),
                        }
                    }
                }
                0
            }
            Got::Err(Ok(code)) => {
                match rend {
                    Some(REnd::Reset(c)) if c == code => {}
                    Some(other) => self.fail("C01", "terminal-unstable", format!("reader of {who} reported reset {code} after {other:?}")),
                    None => {
                        if cancelled == Some(code) || stop_issued == Some(code) {
                            self.app.flows[i].rend = Some(REnd::Reset(code));
                            self.stats.resets_seen += 1;
                        } else {
                            self.fail("C01", "reset-unprovoked:reader", format!("reader of {who} failed with reset code {code}, but the harness issued cancel={cancelled:?} stop={stop_issued:?}"));
                        }
                    }
                }
                0
            }
            Got::Err(Err(e)) => {
                self.fail("C01", "reader-error", format!("reader of {who} failed: {e}"));
                0
            }
        }
    }

    // ------------------------------------------------------------------------------------------
    // final phase

    /// The fault schedule is over: the application wants every stream finished.
    pub fn begin_final(&mut self) {
        self.guarded("begin of the clean phase", |s| s.begin_final_inner());
    }

    fn begin_final_inner(&mut self) {
        self.final_mode = true;
        for side in [Side::C, Side::S] {
            self.op_accept(side);
        }
        for i in 0..self.app.flows.len() {
            if self.app.flows[i].w.is_some() && !self.app.flows[i].shutdown_called && self.app.flows[i].wend.is_none() {
                self.op_shutdown(i);
            }
        }
        // the application gives up on streams it could not open yet
        self.app.pending_opens = [[0; 2]; 2];
        self.collect_originated();
    }

    pub fn all_done(&self) -> bool {
        self.app.flows.iter().all(|f| (f.w.is_none() || f.writer_done()) && f.reader_done() && !(f.flush_wanted && f.wend.is_none()))
    }

    pub fn undone(&self) -> String {
        let mut s = String::new();
        for f in &self.app.flows {
            if !((f.w.is_none() || f.writer_done()) && f.reader_done() && !(f.flush_wanted && f.wend.is_none())) {
                s += &format!(
                    "[{} {:?}->: written {} final {:?} wend {:?} | reader {} nread {} rend {:?} cancel {:?} stop {:?} flush_wanted {}] ",
                    f.sid,
                    f.from,
                    f.written,
                    f.final_size,
                    f.wend,
                    if f.r.is_some() { "attached" } else { "not-accepted" },
                    f.nread,
                    f.rend,
                    f.cancelled,
                    f.stop_issued,
                    f.flush_wanted
                );
                if s.len() > 600 {
                    break;
                }
            }
        }
        s
    }

    /// application progress, strictly waker-driven (a real executor re-polls only after a wake-up)
    fn app_round(&mut self) -> u64 {
        let mut progress = 0u64;
        for side in [Side::C, Side::S] {
            let s = side.ix();
            if self.app.accept_pollee[s][0].runnable() || self.app.accept_pollee[s][1].runnable() {
                let before = self.stats.accepts;
                self.op_accept(side);
                progress += self.stats.accepts - before;
            }
        }
        for i in 0..self.app.flows.len() {
            if self.dead.is_some() {
                break;
            }
            // reader: drain while data is available
            if self.app.flows[i].r.is_some() && self.app.flows[i].rend.is_none() && self.app.flows[i].rp.runnable() {
                loop {
                    let before_end = self.app.flows[i].rend;
                    let n = self.op_read(i, 1 << 16, (i % 3) as u8);
                    progress += n as u64;
                    if self.app.flows[i].rend != before_end {
                        progress += 1;
                    }
                    if n == 0 || !self.fails.is_empty() {
                        break;
                    }
                }
            }
            // writer
            let f = &self.app.flows[i];
            if f.w.is_some() && f.wend.is_none() && f.wp.runnable() {
                let before = (f.written, f.wend, f.flush_wanted, f.shutdown_called);
                if f.want_write > 0 && !f.shutdown_called && f.cancelled.is_none() {
                    let (l, m) = (f.want_write, f.want_mode);
                    self.op_write(i, l, m);
                } else if f.flush_wanted && !f.shutdown_called {
                    self.op_flush(i, false);
                } else if f.shutdown_called || f.cancelled.is_some() || self.final_mode {
                    self.op_shutdown(i);
                }
                let f = &self.app.flows[i];
                if (f.written, f.wend, f.flush_wanted, f.shutdown_called) != before {
                    progress += 1;
                }
            }
        }
        self.collect_originated();
        progress
    }

    /// One pump round of the clean network: application, packetise both sides until nothing is
    /// left, deliver everything, give every packet its truthful verdict.  Returns a progress count
    /// (0 = fixpoint: nothing can ever change any more).
    pub fn pump_round(&mut self, cap: usize) -> u64 {
        let mut p = 1;
        self.guarded("clean pump round", |s| p = s.pump_round_inner(cap));
        p
    }

    fn pump_round_inner(&mut self, cap: usize) -> u64 {
        self.stats.pump_rounds += 1;
        let mut progress = self.app_round();
        for side in [Side::C, Side::S] {
            let mut guard = 0;
            loop {
                if self.dead.is_some() {
                    break;
                }
                let r = self.packetise(side, cap, usize::MAX, &[1], &[], None);
                if r.is_none() {
                    break;
                }
                progress += 1;
                guard += 1;
                if guard > 50_000 {
                    break;
                }
            }
        }
        progress += self.deliver_all();
        progress += self.resolve_all();
        progress
    }
}

include!("streams_h_gen.rs");
