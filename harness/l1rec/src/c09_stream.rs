//! C09 stream leg: one locally opened stream of a real `qrecovery::streams::DataStreams`
//! (Writer on the application side, `try_load_data_into` / `on_data_acked` / `may_loss_data` /
//! MAX_STREAM_DATA on the transport side) against the same per-byte colour model plus a FIN state.
//!
//! Extents are not predicted here (stream scheduling tokens are an internal policy); the oracle
//! checks the property itself: only lost / never-sent in-window bytes are offered, lowest first,
//! original data, new data charged to connection flow control exactly once, lost bytes and a lost
//! FIN offered again whenever the packet has room, flush / shutdown complete exactly when
//! everything (and the FIN) is acknowledged.
use std::{
    future::Future,
    pin::pin,
    sync::{Arc, Mutex},
    task::{Context, Poll},
};

use bytes::BufMut;
use qbase::{
    cid::ConnectionId,
    flow::ArcSendControler,
    frame::{
        DataBlockedFrame, MaxDataFrame, MaxStreamDataFrame, StreamCtlFrame, StreamFrame,
        io::{ReceiveFrame, SendFrame},
    },
    net::tx::ArcSendWakers,
    param::{ArcParameters, ClientParameters, ParameterId, Parameters, ServerParameters},
    role::Role,
    sid::handy::ConsistentConcurrency,
    varint::VarInt,
};
use qrecovery::streams::DataStreams;
use serde_json::{Value, json};
use vcore::Report;

use crate::c09::{F, Gen, L, Model, P, Stats, content, content_bytes, target::{Rec, Target}};

#[derive(Clone, Default, Debug)]
struct Sink(Arc<Mutex<Vec<String>>>);

impl SendFrame<StreamCtlFrame> for Sink {
    fn send_frame<I: IntoIterator<Item = StreamCtlFrame>>(&self, iter: I) {
        self.0.lock().unwrap().extend(iter.into_iter().map(|f| format!("{f:?}")));
    }
}
impl SendFrame<DataBlockedFrame> for Sink {
    fn send_frame<I: IntoIterator<Item = DataBlockedFrame>>(&self, iter: I) {
        self.0.lock().unwrap().extend(iter.into_iter().map(|f| format!("{f:?}")));
    }
}

#[derive(Clone, Debug)]
pub enum SOp {
    Write(usize),
    Window(u64),
    ConnMax(u64),
    Load(usize),
    /// index into the list of frames emitted so far
    Ack(usize),
    Loss(usize),
    Shutdown,
}

impl SOp {
    fn to_json(&self) -> Value {
        match self {
            SOp::Write(n) => json!(["write", n]),
            SOp::Window(m) => json!(["window", m]),
            SOp::ConnMax(m) => json!(["connmax", m]),
            SOp::Load(c) => json!(["load", c]),
            SOp::Ack(i) => json!(["ack", i]),
            SOp::Loss(i) => json!(["loss", i]),
            SOp::Shutdown => json!(["shutdown"]),
        }
    }
    fn from_json(v: &Value) -> SOp {
        let n = || v[1].as_u64().unwrap();
        match v[0].as_str().unwrap() {
            "write" => SOp::Write(n() as usize),
            "window" => SOp::Window(n()),
            "connmax" => SOp::ConnMax(n()),
            "load" => SOp::Load(n() as usize),
            "ack" => SOp::Ack(n() as usize),
            "loss" => SOp::Loss(n() as usize),
            _ => SOp::Shutdown,
        }
    }
}

#[derive(Clone, Copy, PartialEq, Debug)]
enum Fin {
    NotSent,
    Sent,
    Lost,
    /// lost, then carried again by a retransmitted last chunk: a further bare FIN is allowed, not required
    LostMaybeResent,
    Rcvd,
}

struct Setup {
    bidi: bool,
    win0: u64,
    conn0: u64,
}

enum Src<'a> {
    Gen { g: Gen, nops: usize, drain: bool },
    Replay(&'a [SOp]),
}

struct Out {
    fail: Option<(usize, String, String)>,
    ops: Vec<SOp>,
    st: Stats,
    fin_sent: u64,
    fin_resent: u64,
    fin_duplicate: u64,
    finished: u64,
}

fn noop_cx() -> Context<'static> {
    Context::from_waker(futures::task::noop_waker_ref())
}

fn run_stream(cseed: u64, setup: &Setup, mut src: Src) -> Out {
    let mut out = Out { fail: None, ops: vec![], st: Stats::default(), fin_sent: 0, fin_resent: 0, fin_duplicate: 0, finished: 0 };
    // ---- build one DataStreams (we are the server, the peer is the client) ----
    let v = |x: u64| VarInt::from_u64(x).unwrap();
    let cid = ConnectionId::from_slice(&[1, 2, 3, 4, 5, 6, 7, 8]);
    let mut client = ClientParameters::new();
    let mut server = ServerParameters::new();
    let setp = (|| -> Result<(), String> {
        for (id, val) in [
            (ParameterId::InitialMaxStreamsBidi, 8u64),
            (ParameterId::InitialMaxStreamsUni, 8),
            (ParameterId::InitialMaxData, setup.conn0),
            (ParameterId::InitialMaxStreamDataBidiLocal, setup.win0),
            (ParameterId::InitialMaxStreamDataBidiRemote, setup.win0),
            (ParameterId::InitialMaxStreamDataUni, setup.win0),
        ] {
            client.set(id, v(val)).map_err(|e| format!("{e:?}"))?;
            server.set(id, v(val)).map_err(|e| format!("{e:?}"))?;
        }
        client.set(ParameterId::InitialSourceConnectionId, cid).map_err(|e| format!("{e:?}"))?;
        Ok(())
    })();
    if let Err(e) = setp {
        out.fail = Some((0, "harness".into(), format!("parameter setup: {e}")));
        return out;
    }
    let sink = Sink::default();
    let wakers = ArcSendWakers::default();
    let ds = DataStreams::new(Role::Server, &server, &ClientParameters::default(), Box::new(ConsistentConcurrency::new(8, 8)), sink.clone(), wakers.clone(), None);
    ds.revise_params(false, &client);
    let flow: ArcSendControler<Sink> = ArcSendControler::new(setup.conn0, sink.clone(), wakers.clone());
    let mut params = Parameters::new_server(server.clone());
    if let Err(e) = params.recv_remote_params(client.clone()).and_then(|_| params.initial_scid_from_peer_need_equal(cid)) {
        out.fail = Some((0, "harness".into(), format!("parameter handshake: {e:?}")));
        return out;
    }
    let params: ArcParameters = params.into();
    let (sid, mut writer) = if setup.bidi {
        let mut fut = pin!(ds.open_bi(&params));
        match fut.as_mut().poll(&mut noop_cx()) {
            Poll::Ready(Ok(Some((sid, (_r, w))))) => (sid, w),
            other => {
                out.fail = Some((0, "harness".into(), format!("open_bi not ready: {}", if other.is_pending() { "pending" } else { "error/none" })));
                return out;
            }
        }
    } else {
        let mut fut = pin!(ds.open_uni(&params));
        match fut.as_mut().poll(&mut noop_cx()) {
            Poll::Ready(Ok(Some((sid, w)))) => (sid, w),
            other => {
                out.fail = Some((0, "harness".into(), format!("open_uni not ready: {}", if other.is_pending() { "pending" } else { "error/none" })));
                return out;
            }
        }
    };

    let mut m = Model::new(cseed, setup.win0);
    let mut conn_max = setup.conn0;
    let mut conn_sent = 0u64;
    let mut shutdown = false;
    let mut total = 0u64;
    let mut fin = Fin::NotSent;
    let mut done = false; // DataRcvd
    let mut frames: Vec<StreamFrame> = vec![];
    let mut step = 0usize;
    let mut draining = 0;
    loop {
        let op = match &mut src {
            Src::Replay(v) => {
                if step >= v.len() {
                    break;
                }
                v[step].clone()
            }
            Src::Gen { g, nops, drain } => {
                if step < *nops {
                    let k = g.rng.below(100);
                    if k < 12 {
                        SOp::Write(g.size().max(1))
                    } else if k < 19 {
                        SOp::Window(m.max_data + g.rng.range(0, g.unit as u64 * 6))
                    } else if k < 24 {
                        SOp::ConnMax(conn_max + g.rng.range(0, g.unit as u64 * 6))
                    } else if k < 56 {
                        SOp::Load(match g.rng.below(8) {
                            0 => g.rng.range(0, 30) as usize,
                            1 => 1200,
                            2 => 25 + g.size() * 3,
                            _ => 25 + g.rng.range(0, 12) as usize + g.size(),
                        })
                    } else if k < 59 {
                        SOp::Shutdown
                    } else if frames.is_empty() {
                        SOp::Write(g.size().max(1))
                    } else {
                        let n = frames.len();
                        let i = if g.rng.chance(1, 2) { n - 1 - g.rng.usize(n.min(4)) } else { g.rng.usize(n) };
                        if k < 79 { SOp::Ack(i) } else { SOp::Loss(i) }
                    }
                } else if *drain && !done {
                    draining += 1;
                    if draining > 20_000 {
                        break;
                    }
                    if !shutdown {
                        SOp::Shutdown
                    } else if m.max_data < m.written {
                        SOp::Window(m.written)
                    } else if conn_max - conn_sent < m.col.iter().filter(|c| **c == P).count() as u64 {
                        SOp::ConnMax(conn_sent + m.written)
                    } else if m.lowest_offerable(1).is_some() || fin == Fin::NotSent || fin == Fin::Lost {
                        SOp::Load(1200)
                    } else {
                        // acknowledge the oldest frame that still covers an unacknowledged byte, or the FIN
                        let want = m.col.iter().position(|c| *c == F).map(|i| i as u64);
                        let pick = frames.iter().rposition(|f| match want {
                            Some(i) => f.range().start <= i && i < f.range().end,
                            None => f.is_fin(),
                        });
                        match pick {
                            Some(i) => SOp::Ack(i),
                            None => break,
                        }
                    }
                } else {
                    break;
                }
            }
        };
        out.ops.push(op.clone());
        if std::env::var_os("C09_TRACE").is_some() {
            eprintln!("step {step}: {:?}  fin {fin:?} map {}", op, m.shape_string());
            if std::env::var_os("C09_TRACE2").is_some() {
                eprintln!("     writer {:?}", writer);
            }
        }
        let st = &mut out.st;
        let res: Result<(), (String, String)> = (|| {
            let pmap = |what: &str, p: vcore::panics::PanicRecord| (format!("panic:{}", vcore::panics::short_location(&p.location)), format!("{what} panicked: {}", p.message));
            match op {
                SOp::Write(n) => {
                    let data = content_bytes(cseed, m.written, n);
                    let r = vcore::panics::catch(|| writer.write(data)).map_err(|p| pmap("Writer::write", p))?;
                    match (r.is_ok(), shutdown) {
                        (true, false) => {
                            if m.written + n as u64 > m.max_data {
                                st.over_window_writes += 1;
                            }
                            m.write(n)
                        }
                        (false, true) => {}
                        (true, true) => return Err(("write-after-shutdown".into(), "Writer::write accepted data after shutdown".into())),
                        (false, false) => return Err(("write-refused".into(), format!("Writer::write refused data on an open stream: {:?}", r.err()))),
                    }
                }
                SOp::Window(max) => {
                    let f = StreamCtlFrame::MaxStreamData(MaxStreamDataFrame::new(sid, v(max)));
                    vcore::panics::catch(|| ds.recv_stream_control(f)).map_err(|p| pmap("recv MAX_STREAM_DATA", p))?.map_err(|e| ("harness".to_string(), format!("MAX_STREAM_DATA refused: {e:?}")))?;
                    if max > m.max_data && !matches!(fin, Fin::Sent | Fin::Lost | Fin::LostMaybeResent | Fin::Rcvd) {
                        m.extend(max);
                    }
                }
                SOp::ConnMax(max) => {
                    flow.recv_frame(MaxDataFrame::new(v(max))).map_err(|e| ("harness".to_string(), format!("{e:?}")))?;
                    conn_max = conn_max.max(max);
                }
                SOp::Shutdown => {
                    let r = vcore::panics::catch(|| writer.poll_shutdown(&mut noop_cx())).map_err(|p| pmap("poll_shutdown", p))?;
                    if !shutdown {
                        shutdown = true;
                        total = m.written;
                    }
                    let _ = r;
                }
                SOp::Load(cap) => {
                    let mut t = Target::new(cap);
                    let res = vcore::panics::catch(|| ds.try_load_data_into(&mut t, &flow, false)).map_err(|p| pmap("try_load_data_into", p))?;
                    if t.buf.len() > cap {
                        return Err(("packet-overflow".into(), format!("wrote {} bytes into a {cap}-byte packet", t.buf.len())));
                    }
                    let n_frames = t.frames.len();
                    for rec in &t.frames {
                        let (f, d) = match rec {
                            Rec::Stream(f, d) => (*f, d.clone()),
                            _ => return Err(("foreign-frame".into(), "non-STREAM frame recorded by the stream loader".into())),
                        };
                        frames.push(f);
                        let r = f.range();
                        if std::env::var_os("C09_TRACE").is_some() {
                            eprintln!("  step {step}: frame #{} {r:?} fin={} (model fin {fin:?})", frames.len() - 1, f.is_fin());
                        }
                        let ctx = format!("load(cap {cap}) emitted STREAM {r:?} fin={}; map: {}", f.is_fin(), m.shape_string());
                        if f.stream_id() != sid {
                            return Err(("foreign-frame".into(), format!("{ctx}: wrong stream id")));
                        }
                        if d.len() as u64 != r.end - r.start {
                            return Err(("data-length".into(), format!("{ctx}: carries {} bytes", d.len())));
                        }
                        if r.end > m.col.len() as u64 {
                            return Err(("offer-window".into(), format!("{ctx}: only {} bytes are written inside the peer's window {}", m.col.len(), m.max_data)));
                        }
                        let credit = conn_max - conn_sent;
                        if r.is_empty() {
                            // bare FIN: legal whenever the stream is shut down and every byte has been sent at least once
                            // (a duplicate FIN is wasteful, not wrong)
                            let legal = f.is_fin() && shutdown && r.start == total && m.sent() == total && m.col.len() as u64 == total;
                            if !legal {
                                return Err(("fin-frame:unexpected-empty".into(), format!("{ctx}: empty frame while fin state is {fin:?}, shutdown={shutdown}, total={total}")));
                            }
                            match fin {
                                Fin::NotSent => {
                                    out.fin_sent += 1;
                                    fin = Fin::Sent;
                                }
                                Fin::Lost | Fin::LostMaybeResent => {
                                    out.fin_resent += 1;
                                    fin = Fin::Sent;
                                }
                                Fin::Sent | Fin::Rcvd => out.fin_duplicate += 1,
                            }
                            continue;
                        }
                        let col = m.col[r.start as usize];
                        for i in r.start as usize..r.end as usize {
                            let c = m.col[i];
                            if c == F || c == crate::c09::R {
                                return Err((format!("offer-colour:{}", if c == F { "flight" } else { "recved" }), format!("{ctx}: byte {i} is not offerable")));
                            }
                            if c != col {
                                return Err(("offer-colour:mixed".into(), format!("{ctx}: mixes never-sent and lost bytes in one frame")));
                            }
                        }
                        if col == P && (credit == 0 || r.end - r.start > credit) {
                            return Err(("flow-credit".into(), format!("{ctx}: {} new bytes with connection credit {credit}", r.end - r.start)));
                        }
                        let lowest = m.lowest_offerable(if credit > 0 { 1 } else { 0 }).unwrap() as u64;
                        if r.start != lowest {
                            return Err((
                                format!("pick-order:{}-skipped", if m.col[lowest as usize] == L { "lost" } else { "pending" }),
                                format!("{ctx}: lowest offerable byte is {lowest}"),
                            ));
                        }
                        for (k, b) in d.iter().enumerate() {
                            let i = r.start + k as u64;
                            if *b != content(cseed, i) {
                                return Err(("data-bytes".into(), format!("{ctx}: byte {i} is {:#x}, written {:#x}", b, content(cseed, i))));
                            }
                        }
                        let want_fin = shutdown && r.end == total;
                        if f.is_fin() != want_fin {
                            return Err((if f.is_fin() { "fin-flag:spurious".to_string() } else { "fin-flag:missing".to_string() }, format!("{ctx}: shutdown={shutdown}, final size {total}")));
                        }
                        if col == P {
                            conn_sent += r.end - r.start;
                            st.fresh_bytes += r.end - r.start;
                        } else {
                            st.reoffered_bytes += r.end - r.start;
                        }
                        m.take(r.clone());
                        for i in r.start as usize..r.end as usize {
                            if m.fresh[i] > 1 {
                                return Err(("fresh-twice".into(), format!("{ctx}: byte {i} handed out as new data twice")));
                            }
                        }
                        if f.is_fin() {
                            match fin {
                                Fin::NotSent => {
                                    out.fin_sent += 1;
                                    fin = Fin::Sent
                                }
                                Fin::Lost => {
                                    out.fin_resent += 1;
                                    fin = Fin::LostMaybeResent
                                }
                                _ => {}
                            }
                        }
                    }
                    if res.is_ok() != (n_frames > 0) {
                        return Err(("load-result".into(), format!("try_load_data_into returned {res:?} with {n_frames} frames written")));
                    }
                    if n_frames > 0 {
                        st.picks_ok += n_frames as u64;
                    } else {
                        st.picks_err += 1;
                    }
                    // new data is charged to the connection exactly once
                    let avail = flow.credit(usize::MAX).map(|c| c.available() as u64).map_err(|e| ("harness".to_string(), format!("{e:?}")))?;
                    if conn_max - avail != conn_sent {
                        return Err(("fresh-accounting".into(), format!("connection flow control has charged {} bytes, {} bytes were handed out as new data", conn_max - avail, conn_sent)));
                    }
                    // room left => nothing offerable may remain
                    let room = t.remaining_mut();
                    if room >= 34 && !done {
                        let credit = conn_max - conn_sent;
                        if let Some(i) = m.lowest_offerable(if credit > 0 { 1 } else { 0 }) {
                            return Err((
                                format!("pick-missed:{}", if m.col[i] == L { "lost" } else { "pending" }),
                                format!("load(cap {cap}) left {room} bytes of room but byte {i} is {} and offerable (credit {credit}); map: {}", if m.col[i] == L { "lost" } else { "pending" }, m.shape_string()),
                            ));
                        }
                        if shutdown && fin == Fin::NotSent && m.sent() == total && m.col.len() as u64 == total {
                            return Err(("fin-missed".into(), format!("load(cap {cap}) left {room} bytes of room, everything is sent and the stream is shut down, but no FIN was emitted")));
                        }
                        if fin == Fin::Lost {
                            return Err(("fin-not-resent".into(), format!("load(cap {cap}) left {room} bytes of room, the FIN was reported lost, but it was not sent again")));
                        }
                    }
                }
                SOp::Ack(i) => {
                    let f = frames[i];
                    vcore::panics::catch(|| ds.on_data_acked(f)).map_err(|p| pmap("on_data_acked", p))?;
                    if !done {
                        m.ack(&f.range(), st);
                        if f.is_fin() {
                            fin = Fin::Rcvd;
                        }
                        if fin == Fin::Rcvd && m.all_rcvd() {
                            done = true;
                            out.finished += 1;
                        }
                    }
                }
                SOp::Loss(i) => {
                    let f = frames[i];
                    vcore::panics::catch(|| ds.may_loss_data(&f)).map_err(|p| pmap("may_loss_data", p))?;
                    if !done {
                        m.loss(&f.range(), st);
                        if f.is_fin() && fin != Fin::Rcvd {
                            fin = Fin::Lost;
                        }
                    }
                }
            }
            // completion
            st.step_checks += 1;
            let fl = vcore::panics::catch(|| writer.poll_flush(&mut noop_cx())).map_err(|p| pmap("poll_flush", p))?;
            let ready = matches!(fl, Poll::Ready(Ok(())));
            let want = m.all_rcvd() && matches!(fin, Fin::NotSent | Fin::Rcvd);
            if ready != want {
                return Err((
                    if ready { "completion:early".to_string() } else { "completion:missed".to_string() },
                    format!("poll_flush ready = {ready}; all bytes acknowledged = {}, fin {fin:?}; map: {}", m.all_rcvd(), m.shape_string()),
                ));
            }
            if shutdown {
                let sd = vcore::panics::catch(|| writer.poll_shutdown(&mut noop_cx())).map_err(|p| pmap("poll_shutdown", p))?;
                let ready = matches!(sd, Poll::Ready(Ok(())));
                if ready != done {
                    return Err((
                        if ready { "shutdown:early".to_string() } else { "shutdown:missed".to_string() },
                        format!("poll_shutdown ready = {ready}; all bytes acknowledged = {}, fin {fin:?}", m.all_rcvd()),
                    ));
                }
            }
            Ok(())
        })();
        if let Err((c, d)) = res {
            out.fail = Some((step, c, d));
            break;
        }
        if m.all_rcvd() && m.written > 0 {
            out.st.completions += 1;
        }
        if step < 400 {
            let (runs, h) = m.pattern();
            out.st.patterns.insert(h);
            out.st.max_runs = out.st.max_runs.max(runs);
        }
        step += 1;
    }
    // a Writer dropped while open only logs
    drop(writer);
    out
}

fn report(rep: &mut Report, cseed: u64, setup: &Setup, o: &Out) {
    if let Some((step, clause, detail)) = &o.fail {
        let replay = json!({"kind": "c09", "leg": "stream", "cseed": cseed, "bidi": setup.bidi, "win0": setup.win0, "conn0": setup.conn0,
            "ops": o.ops.iter().map(|x| x.to_json()).collect::<Vec<_>>()});
        if clause == "harness" {
            rep.inconclusive(format!("stream leg harness trouble at step {step}: {detail}"));
        } else {
            rep.violation(format!("C09.{clause}"), format!("stream leg, step {step}: {detail}"), replay);
        }
    }
}

pub fn replay(rep: &mut Report, v: &Value) {
    let ops: Vec<SOp> = v["ops"].as_array().unwrap().iter().map(SOp::from_json).collect();
    let setup = Setup { bidi: v["bidi"].as_bool().unwrap_or(true), win0: v["win0"].as_u64().unwrap(), conn0: v["conn0"].as_u64().unwrap() };
    let cseed = v["cseed"].as_u64().unwrap();
    let o = run_stream(cseed, &setup, Src::Replay(&ops));
    report(rep, cseed, &setup, &o);
}

pub fn one(rep: &mut Report, cseed: u64, mut g: Gen, nops: usize, drain: bool, sample: bool) {
    let win0 = match g.rng.below(4) {
        0 => 0,
        1 => g.unit as u64,
        2 => g.total_target,
        _ => 1 << 20,
    };
    let conn0 = match g.rng.below(4) {
        0 => 0,
        1 => g.total_target / 2,
        _ => 1 << 20,
    };
    // uni streams take their window from the bidi parameter (see property C11); both are set equal here
    let setup = Setup { bidi: g.rng.chance(3, 4), win0, conn0 };
    let o = run_stream(cseed, &setup, Src::Gen { g, nops, drain });
    rep.evaluations += 1;
    let st = &o.st;
    rep.add("stream_frames_emitted", st.picks_ok);
    rep.add("stream_loads_empty", st.picks_err);
    rep.add("stream_fresh_bytes", st.fresh_bytes);
    rep.add("stream_reoffered_bytes", st.reoffered_bytes);
    rep.add("stream_acks", st.acks);
    rep.add("stream_losses", st.losses);
    rep.add("stream_ack_after_loss", st.ack_after_loss);
    rep.add("stream_loss_after_ack", st.loss_after_ack);
    rep.add("stream_repeated_ack", st.repeated_ack);
    rep.add("stream_mixed_colour_range_ops", st.mixed_range_ops);
    rep.add("stream_step_checks", st.step_checks);
    rep.add("stream_fin_sent", o.fin_sent);
    rep.add("stream_fin_resent", o.fin_resent);
    rep.add("stream_fin_duplicate_bare", o.fin_duplicate);
    rep.add("stream_finished_data_rcvd", o.finished);
    rep.add("stream_writes_beyond_window", st.over_window_writes);
    for h in &st.patterns {
        rep.set("colour_patterns", *h);
    }
    for h in &st.contexts {
        rep.set("ack_loss_contexts", *h);
    }
    if st.reoffered_bytes > 0 && st.mixed_range_ops > 0 {
        let mut h = vcore::fnv_str("stream") ^ setup.win0.wrapping_mul(31) ^ setup.conn0.wrapping_mul(131);
        for op in &o.ops {
            for b in op.to_json().to_string().bytes() {
                h = (h ^ b as u64).wrapping_mul(0x100000001b3);
            }
        }
        rep.distinct(h);
    }
    if sample {
        rep.sample(json!({"leg": "stream", "bidi": setup.bidi, "win0": setup.win0, "conn0": setup.conn0, "n_ops": o.ops.len(),
            "first_ops": o.ops.iter().take(14).map(|x| x.to_json()).collect::<Vec<_>>()}));
    }
    report(rep, cseed, &setup, &o);
}
