// (included by streams_h.rs) — explicit op list, simulator core: packetise / channel / ack-loss feedback

#[derive(Clone, Debug, PartialEq)]
pub enum Op {
    Open { side: Side, dir: Dir },
    Accept { side: Side },
    /// mode 0 AsyncWrite::poll_write, 1 Sink (poll_ready + start_send), 2 inherent write()
    Write { side: Side, slot: usize, len: usize, mode: u8 },
    Shutdown { side: Side, slot: usize },
    Flush { side: Side, slot: usize },
    Cancel { side: Side, slot: usize, code: u64 },
    /// mode 0 inherent poll_read(BufMut), 1 AsyncRead (ReadBuf), 2 Stream::poll_next
    Read { side: Side, slot: usize, cap: usize, mode: u8 },
    Stop { side: Side, slot: usize, code: u64 },
    /// assemble one packet: up to `nctl` queued control frames, then STREAM frames up to `cap` bytes.
    /// `delays`: one entry per copy put on the wire (empty = dropped), each the number of ticks until delivery.
    /// `loss`: ticks after sending at which the packet is declared lost (may be spurious, may repeat);
    /// `ack`: ticks after sending at which it is acked (only executed once a copy was delivered).
    Pkt { side: Side, cap: usize, nctl: usize, delays: Vec<u32>, loss: Vec<u32>, ack: Option<u32> },
    Tick { n: u32 },
}

fn su(s: Side) -> u64 {
    s as u64
}

impl Op {
    pub fn to_json(&self) -> Value {
        match self {
            Op::Open { side, dir } => json!(["open", su(*side), dir_u(*dir)]),
            Op::Accept { side } => json!(["acc", su(*side)]),
            Op::Write { side, slot, len, mode } => json!(["w", su(*side), slot, len, mode]),
            Op::Shutdown { side, slot } => json!(["sh", su(*side), slot]),
            Op::Flush { side, slot } => json!(["fl", su(*side), slot]),
            Op::Cancel { side, slot, code } => json!(["cx", su(*side), slot, code]),
            Op::Read { side, slot, cap, mode } => json!(["r", su(*side), slot, cap, mode]),
            Op::Stop { side, slot, code } => json!(["st", su(*side), slot, code]),
            Op::Pkt { side, cap, nctl, delays, loss, ack } => {
                json!(["pkt", su(*side), cap, nctl, delays, loss, ack.map(|a| a as i64).unwrap_or(-1)])
            }
            Op::Tick { n } => json!(["t", n]),
        }
    }
    pub fn from_json(v: &Value) -> Op {
        let u = |i: usize| v[i].as_u64().unwrap();
        let s = |i: usize| Side::from_u(v[i].as_u64().unwrap());
        let vu = |i: usize| v[i].as_array().unwrap().iter().map(|x| x.as_u64().unwrap() as u32).collect::<Vec<_>>();
        match v[0].as_str().unwrap() {
            "open" => Op::Open { side: s(1), dir: dir_of(u(2)) },
            "acc" => Op::Accept { side: s(1) },
            "w" => Op::Write { side: s(1), slot: u(2) as usize, len: u(3) as usize, mode: u(4) as u8 },
            "sh" => Op::Shutdown { side: s(1), slot: u(2) as usize },
            "fl" => Op::Flush { side: s(1), slot: u(2) as usize },
            "cx" => Op::Cancel { side: s(1), slot: u(2) as usize, code: u(3) },
            "r" => Op::Read { side: s(1), slot: u(2) as usize, cap: u(3) as usize, mode: u(4) as u8 },
            "st" => Op::Stop { side: s(1), slot: u(2) as usize, code: u(3) },
            "pkt" => Op::Pkt {
                side: s(1),
                cap: u(2) as usize,
                nctl: u(3) as usize,
                delays: vu(4),
                loss: vu(5),
                ack: v[6].as_i64().filter(|a| *a >= 0).map(|a| a as u32),
            },
            _ => Op::Tick { n: u(1) as u32 },
        }
    }
    pub fn hash_into(&self, h: &mut u64) {
        let s = self.to_json().to_string();
        for b in s.bytes() {
            *h = (*h ^ b as u64).wrapping_mul(0x100000001b3);
        }
    }
}

pub fn ops_hash(ops: &[Op]) -> u64 {
    let mut h = 0xcbf29ce484222325u64;
    for o in ops {
        o.hash_into(&mut h);
    }
    h
}

/// What the decoded frame was, for observers.
#[derive(Clone, Debug)]
pub enum DFrame {
    Stream(StreamFrame),
    Ctl(Ctl),
    Padding,
    Other,
}

#[derive(Clone, Debug)]
pub enum Event {
    /// the library pushed a control frame into its sink (first transmission)
    Originated { side: Side, ctl: Ctl },
    /// a packet was assembled; `fresh_probe` = credit available after assembling
    Emitted { side: Side, pn: u64, cap: usize, streams: Vec<StreamFrame>, ctl: Vec<Ctl>, retx_ctl: usize },
    CreditProbe { side: Side, available: u64 },
    Delivered { to: Side, frame: DFrame, result: Result<usize, (String, String)> },
    Acked { side: Side, pn: u64 },
    Lost { side: Side, pn: u64 },
    Opened { side: Side, sid: u64 },
    OpenBlocked { side: Side, dir: Dir },
    Accepted { side: Side, sid: u64 },
}

/// A failure found by an oracle.  `prop` tells which property's clause it is (monitors report their
/// own and count the others as foreign root causes).
#[derive(Clone, Debug)]
pub struct Fail {
    pub prop: &'static str,
    pub clause: String,
    pub detail: String,
    pub step: usize,
}

#[derive(Debug)]
struct InNet {
    due: u64,
    seq: u64,
    from: Side,
    pn: u64,
    payload: Bytes,
}

#[derive(Debug)]
struct PendingVerdict {
    due: u64,
    seq: u64,
    side: Side,
    pn: u64,
    ack: bool,
}

#[derive(Default, Debug, Clone)]
pub struct Stats {
    pub packets: u64,
    pub empty_packets: u64,
    pub stream_frames: u64,
    pub fin_frames: u64,
    pub ctl_frames: u64,
    pub retx_stream_frames: u64,
    pub retx_ctl_frames: u64,
    pub dropped: u64,
    pub duplicated: u64,
    pub delayed: u64,
    pub reordered_deliveries: u64,
    pub acks: u64,
    pub losses: u64,
    pub spurious_losses: u64,
    pub ack_after_loss: u64,
    pub repeated_loss: u64,
    pub range_acked_twice: u64,
    pub loss_after_range_acked: u64,
    pub bytes_read: u64,
    pub bytes_written: u64,
    pub eofs: u64,
    pub resets_seen: u64,
    pub shutdown_ok: u64,
    pub flush_ok: u64,
    pub write_pending: u64,
    pub read_pending: u64,
    pub opens: u64,
    pub open_blocked: u64,
    pub accepts: u64,
    pub pump_rounds: u64,
    pub caps: std::collections::BTreeSet<usize>,
    pub ctl_kinds: std::collections::BTreeSet<&'static str>,
}

pub struct Sim {
    pub cfg: Cfg,
    pub ep: [Endpoint; 2],
    pub tick: u64,
    seq: u64,
    net: Vec<InNet>,
    verdicts: Vec<PendingVerdict>,
    pub events: Vec<Event>,
    pub app: App,
    /// first connection error raised by an endpoint: (side, kind, reason)
    pub dead: Option<(Side, String, String)>,
    pub fails: Vec<Fail>,
    pub step: usize,
    pub stats: Stats,
    /// per (sender side, stream) high-water mark of emitted offsets, to classify retransmissions
    hwm: BTreeMap<(usize, u64), u64>,
    /// per (sender side, stream) acked ranges (coarse: list), to count range-level double acks
    acked_ranges: BTreeMap<(usize, u64), Vec<(u64, u64)>>,
    last_delivered_pn: [Option<u64>; 2],
    pub final_mode: bool,
}

impl Sim {
    pub fn new(cfg: Cfg) -> Sim {
        let ep = [Endpoint::new(Side::C, &cfg), Endpoint::new(Side::S, &cfg)];
        let mut s = Sim {
            cfg,
            ep,
            tick: 0,
            seq: 0,
            net: vec![],
            verdicts: vec![],
            events: vec![],
            app: App::default(),
            dead: None,
            fails: vec![],
            step: 0,
            stats: Stats::default(),
            hwm: BTreeMap::new(),
            acked_ranges: BTreeMap::new(),
            last_delivered_pn: [None, None],
            final_mode: false,
        };
        s.collect_originated();
        s
    }

    pub fn fail(&mut self, prop: &'static str, clause: impl Into<String>, detail: impl Into<String>) {
        let f = Fail { prop, clause: clause.into(), detail: detail.into(), step: self.step };
        if self.fails.len() < 16 {
            self.fails.push(f);
        }
    }

    pub fn collect_originated(&mut self) {
        for side in [Side::C, Side::S] {
            for ctl in self.ep[side.ix()].sink.take_originated() {
                self.stats.ctl_kinds.insert(ctl.name());
                self.events.push(Event::Originated { side, ctl });
            }
        }
    }

    /// Assemble one packet on `side`.  Returns the packet number if something was written.
    pub fn packetise(&mut self, side: Side, cap: usize, nctl: usize, delays: &[u32], loss: &[u32], ack: Option<u32>) -> Option<u64> {
        if self.dead.is_some() {
            return None;
        }
        let cap = cap.clamp(1, 65535);
        self.stats.caps.insert(cap);
        let e = &mut self.ep[side.ix()];
        let mut target = Target::new(cap);
        let mut ctl = vec![];
        // control frames first (as the production packet assembly does with the reliable-frame queue)
        {
            let mut g = e.sink.0.lock().unwrap();
            while ctl.len() < nctl {
                let Some(front) = g.q.front() else { break };
                let mut rf = front.reliable();
                use qbase::frame::EncodeSize;
                if rf.encoding_size() > target.remaining_mut() {
                    break;
                }
                let c = g.q.pop_front().unwrap();
                let r = rf.dump(&mut target);
                debug_assert!(r.is_ok());
                ctl.push(c);
            }
        }
        let r = vcore::panics::catch(|| {
            let _ = e.streams.try_load_data_into(&mut target, &e.snd, false);
        });
        if let Err(p) = r {
            let loc = vcore::panics::short_location(&p.location);
            self.fail("ANY", format!("panic:{loc}"), format!("try_load_data_into panicked: {} at {}", p.message, p.location));
            self.dead = Some((side, "panic".into(), p.message));
            return None;
        }
        let rec = std::mem::take(&mut target.rec_streams);
        let payload = target.into_bytes();
        self.collect_originated();
        if payload.is_empty() {
            self.stats.empty_packets += 1;
            let av = self.ep[side.ix()].credit_available();
            self.collect_originated();
            if let Some(av) = av {
                self.events.push(Event::CreditProbe { side, available: av });
            }
            return None;
        }
        // what is on the wire must be what was recorded (the journal stores the recorded frame)
        let decoded = match decode(&payload) {
            Ok(d) => d,
            Err(e) => {
                self.fail("C01", "wire-undecodable", format!("packet assembled by {side:?} (cap {cap}) does not decode: {e}"));
                return None;
            }
        };
        let wire_streams: Vec<(StreamFrame, usize)> = decoded
            .iter()
            .filter_map(|f| if let Frame::Stream(sf, d) = f { Some((*sf, d.len())) } else { None })
            .collect();
        let same = wire_streams.len() == rec.len()
            && wire_streams.iter().zip(rec.iter()).all(|(a, b)| {
                a.0.stream_id() == b.0.stream_id() && a.0.offset() == b.0.offset() && a.0.len() == b.0.len() && a.0.is_fin() == b.0.is_fin() && a.1 == b.1 && a.0.len() == a.1
            });
        if !same {
            self.fail("C01", "wire-mismatch", format!("recorded STREAM frames {rec:?} differ from the frames decoded from the packet bytes {wire_streams:?} (cap {cap})"));
        }
        let streams: Vec<StreamFrame> = rec.iter().map(|x| x.0).collect();
        for f in &streams {
            self.stats.stream_frames += 1;
            if f.is_fin() {
                self.stats.fin_frames += 1;
            }
            let k = (side.ix(), sid_raw(f.stream_id()));
            let end = f.offset() + f.len() as u64;
            let fin_before = self.app.fin_was_emitted(side, f.stream_id());
            let h = self.hwm.entry(k).or_insert(0);
            if (f.len() > 0 && end <= *h) || (f.len() == 0 && f.is_fin() && fin_before) {
                self.stats.retx_stream_frames += 1;
            }
            if end > *h {
                *h = end;
            }
            self.app.note_fin_emitted(side, *f);
        }
        self.stats.ctl_frames += ctl.len() as u64;
        self.stats.packets += 1;
        let e = &mut self.ep[side.ix()];
        let pn = e.next_pn;
        e.next_pn += 1;
        e.sent.insert(pn, SentPkt { streams: streams.clone(), ctl: ctl.clone(), state: PktState::Flight, delivered: false, copies_in_net: delays.len() as u32 });
        self.events.push(Event::Emitted { side, pn, cap, streams, ctl, retx_ctl: 0 });
        let av = self.ep[side.ix()].credit_available();
        self.collect_originated();
        if let Some(av) = av {
            self.events.push(Event::CreditProbe { side, available: av });
        }
        // fate
        if delays.is_empty() {
            self.stats.dropped += 1;
        }
        if delays.len() > 1 {
            self.stats.duplicated += 1;
        }
        for d in delays {
            if *d > 1 {
                self.stats.delayed += 1;
            }
            self.seq += 1;
            self.net.push(InNet { due: self.tick + (*d).max(1) as u64, seq: self.seq, from: side, pn, payload: payload.clone() });
        }
        for l in loss {
            self.seq += 1;
            self.verdicts.push(PendingVerdict { due: self.tick + (*l).max(1) as u64, seq: self.seq, side, pn, ack: false });
        }
        if let Some(a) = ack {
            self.seq += 1;
            self.verdicts.push(PendingVerdict { due: self.tick + a.max(1) as u64, seq: self.seq, side, pn, ack: true });
        }
        Some(pn)
    }

    fn deliver(&mut self, from: Side, pn: u64, payload: Bytes) {
        let to = from.peer();
        if let Some(p) = self.ep[from.ix()].sent.get_mut(&pn) {
            p.delivered = true;
            p.copies_in_net = p.copies_in_net.saturating_sub(1);
        }
        if let Some(last) = self.last_delivered_pn[from.ix()] {
            if pn < last {
                self.stats.reordered_deliveries += 1;
            }
        }
        self.last_delivered_pn[from.ix()] = Some(self.last_delivered_pn[from.ix()].map_or(pn, |l| l.max(pn)));
        if self.dead.is_some() {
            return;
        }
        let frames = match decode(&payload) {
            Ok(f) => f,
            Err(_) => return,
        };
        for f in frames {
            let d = match &f {
                Frame::Stream(sf, _) => DFrame::Stream(*sf),
                Frame::StreamCtl(c) => DFrame::Ctl(Ctl::Sc(*c)),
                Frame::MaxData(m) => DFrame::Ctl(Ctl::MaxData(*m)),
                Frame::DataBlocked(m) => DFrame::Ctl(Ctl::DataBlocked(*m)),
                Frame::Padding(_) => DFrame::Padding,
                _ => DFrame::Other,
            };
            if matches!(d, DFrame::Padding) {
                continue;
            }
            let e = &self.ep[to.ix()];
            let r = vcore::panics::catch(|| e.recv_frame(f));
            self.collect_originated();
            match r {
                Err(p) => {
                    let loc = vcore::panics::short_location(&p.location);
                    self.fail("ANY", format!("panic:{loc}"), format!("receiving {d:?} panicked: {} at {}", p.message, p.location));
                    self.dead = Some((to, "panic".into(), p.message));
                    return;
                }
                Ok(Ok(n)) => self.events.push(Event::Delivered { to, frame: d, result: Ok(n) }),
                Ok(Err(err)) => {
                    let kind = kind_name(err.kind());
                    let reason = format!("{err}");
                    self.events.push(Event::Delivered { to, frame: d.clone(), result: Err((kind.clone(), reason.clone())) });
                    self.dead = Some((to, kind, format!("{reason} (on {d:?})")));
                    return;
                }
            }
        }
    }

    fn note_range_ack(&mut self, side: Side, f: &StreamFrame) {
        let k = (side.ix(), sid_raw(f.stream_id()));
        let v = self.acked_ranges.entry(k).or_default();
        let (a, b) = (f.offset(), f.offset() + f.len() as u64);
        if f.len() > 0 && v.iter().any(|(x, y)| a < *y && *x < b) {
            self.stats.range_acked_twice += 1;
        }
        if v.len() < 256 {
            v.push((a, b));
        }
    }

    fn range_was_acked(&self, side: Side, f: &StreamFrame) -> bool {
        let k = (side.ix(), sid_raw(f.stream_id()));
        let (a, b) = (f.offset(), f.offset() + f.len() as u64);
        f.len() > 0 && self.acked_ranges.get(&k).is_some_and(|v| v.iter().any(|(x, y)| a < *y && *x < b))
    }

    /// Apply an ack (`true`) or loss verdict to packet `pn` of `side`, following the production
    /// journal's rules.  Returns whether anything was fed back.
    pub fn verdict(&mut self, side: Side, pn: u64, ack: bool) -> bool {
        if self.dead.is_some() {
            return false;
        }
        let Some(p) = self.ep[side.ix()].sent.get(&pn) else { return false };
        let (state, delivered) = (p.state, p.delivered);
        if state == PktState::Acked {
            return false; // journal: Acked packets yield no frames for ack or loss
        }
        if ack && !delivered {
            return false; // truthful acks only
        }
        let streams = p.streams.clone();
        let ctl = p.ctl.clone();
        if ack {
            if state == PktState::Lost {
                self.stats.ack_after_loss += 1;
            }
            self.stats.acks += 1;
            for f in &streams {
                self.note_range_ack(side, f);
            }
            let e = &self.ep[side.ix()];
            let r = vcore::panics::catch(|| {
                for f in &streams {
                    e.streams.on_data_acked(*f);
                }
                for c in &ctl {
                    if let Ctl::Sc(StreamCtlFrame::ResetStream(r)) = c {
                        e.streams.on_reset_acked(*r);
                    }
                }
            });
            if let Err(p) = r {
                let loc = vcore::panics::short_location(&p.location);
                self.fail("ANY", format!("panic:{loc}"), format!("ack feedback of packet {pn} panicked: {} at {}", p.message, p.location));
                self.dead = Some((side, "panic".into(), p.message));
                return false;
            }
            self.ep[side.ix()].sent.get_mut(&pn).unwrap().state = PktState::Acked;
            self.events.push(Event::Acked { side, pn });
        } else {
            if state == PktState::Lost {
                self.stats.repeated_loss += 1;
            }
            if delivered {
                self.stats.spurious_losses += 1;
            }
            self.stats.losses += 1;
            for f in &streams {
                if self.range_was_acked(side, f) {
                    self.stats.loss_after_range_acked += 1;
                }
            }
            let e = &self.ep[side.ix()];
            let r = vcore::panics::catch(|| {
                for f in &streams {
                    e.streams.may_loss_data(f);
                }
            });
            if let Err(p) = r {
                let loc = vcore::panics::short_location(&p.location);
                self.fail("ANY", format!("panic:{loc}"), format!("loss feedback of packet {pn} panicked: {} at {}", p.message, p.location));
                self.dead = Some((side, "panic".into(), p.message));
                return false;
            }
            if state == PktState::Flight {
                // the journal hands the frames out on every loss verdict, but the reliable queue of the
                // production code would then carry duplicates; re-queue once per packet.
                for c in ctl {
                    self.stats.retx_ctl_frames += 1;
                    self.ep[side.ix()].sink.requeue(c);
                }
            }
            self.ep[side.ix()].sent.get_mut(&pn).unwrap().state = PktState::Lost;
            self.events.push(Event::Lost { side, pn });
        }
        self.collect_originated();
        true
    }

    /// advance logical time by one tick: deliver due packets, then apply due verdicts
    pub fn tick_once(&mut self) {
        self.tick += 1;
        let now = self.tick;
        let mut due: Vec<InNet> = vec![];
        let mut rest = vec![];
        for p in self.net.drain(..) {
            if p.due <= now { due.push(p) } else { rest.push(p) }
        }
        self.net = rest;
        due.sort_by_key(|p| (p.due, p.seq));
        for p in due {
            self.deliver(p.from, p.pn, p.payload);
        }
        let mut duev = vec![];
        let mut restv = vec![];
        for v in self.verdicts.drain(..) {
            if v.due <= now { duev.push(v) } else { restv.push(v) }
        }
        self.verdicts = restv;
        duev.sort_by_key(|v| (v.due, v.seq));
        for v in duev {
            if v.ack {
                let p = self.ep[v.side.ix()].sent.get(&v.pn);
                if let Some(p) = p {
                    if !p.delivered && p.copies_in_net > 0 {
                        // ack cannot precede delivery: postpone until a copy has arrived
                        self.seq += 1;
                        self.verdicts.push(PendingVerdict { due: now + 1, seq: self.seq, side: v.side, pn: v.pn, ack: true });
                        continue;
                    }
                }
            }
            self.verdict(v.side, v.pn, v.ack);
        }
    }

    /// number of frames that are neither acked nor known lost-and-requeued: in the net, in Flight/Lost packets, queued
    pub fn outstanding_frames(&self) -> u64 {
        let mut n = 0u64;
        for e in &self.ep {
            for p in e.sent.values() {
                if p.state != PktState::Acked {
                    n += (p.streams.len() + p.ctl.len()) as u64;
                }
            }
            n += e.sink.queued() as u64;
        }
        n
    }

    /// the network turns clean: deliver everything still in the net (in due order)
    pub fn deliver_all(&mut self) -> u64 {
        let mut n = 0;
        let mut all: Vec<InNet> = self.net.drain(..).collect();
        all.sort_by_key(|p| (p.due, p.seq));
        for p in all {
            self.tick = self.tick.max(p.due);
            self.deliver(p.from, p.pn, p.payload);
            n += 1;
        }
        n
    }

    /// every unresolved packet gets its truthful verdict: delivered => ack, otherwise loss
    pub fn resolve_all(&mut self) -> u64 {
        self.verdicts.clear();
        let mut n = 0;
        for side in [Side::C, Side::S] {
            let pns: Vec<(u64, bool, PktState)> = self.ep[side.ix()].sent.iter().filter(|(_, p)| p.state != PktState::Acked).map(|(k, p)| (*k, p.delivered, p.state)).collect();
            for (pn, delivered, state) in pns {
                if delivered {
                    if self.verdict(side, pn, true) {
                        n += 1;
                    }
                } else if state == PktState::Flight && self.verdict(side, pn, false) {
                    n += 1;
                }
            }
            // forget resolved packets (the journal drops acked and expired ones)
            self.ep[side.ix()].sent.retain(|_, p| !(p.state == PktState::Acked || (p.state == PktState::Lost && !p.delivered && p.copies_in_net == 0)));
        }
        n
    }
}

include!("streams_h_app.rs");
