//! C04 — hostile but well-formed frames cost bounded work and get the RFC's error (L1 part).
//!
//! A *probe* is: a short legitimate pre-history (`Hist`), the bytes of one hostile packet payload
//! (frames, hex) plus its packet number, and the set of outcomes the RFC allows.  Every probe
//! runs in a **grandchild process** (`l1rec c04 --probe <json>`, re-exec of this binary) under
//! RLIMIT_AS = 2 GiB / RLIMIT_CPU = 20 s.  The grandchild builds a miniature connection out of
//! the real components (journals, congestion controller, cid tables, DataStreams, flow
//! controller, crypto streams), drives the history and the probe through a dispatcher that
//! mirrors qconnection/src/space/{initial,data}.rs + space.rs (same order of handler calls) and
//! reports outcome, process CPU time and counted allocation of the probe step alone.
//!
//! Oracles (parent side):
//!  * cost:  peak-live allocation <= 64 KiB + 1 KiB*(b+n), cpu <= 300 ms + 20 us*(b+n);
//!           death by rlimit / allocation failure is the violation itself;
//!  * error: observed outcome must be in the probe's allowed set (table frame-shape -> ErrorKind).
//!
//! Signatures: `C04.mem:<family>`, `C04.cpu:<family>` (family = handler+field), `C04.crash:<family>`,
//! `C04.error:<clause>:<observed>` (clause = trigger class, observed = accepted | dropped | panic |
//! the wrong ErrorKind), `C04.panic:<clause>` (panic where acceptance was expected).
//! CPU time is noisy on a shared host (stolen vCPU time is charged to the process), so a CPU overrun
//! only counts when three independent runs of the same deterministic probe all exceed the budget.
//! Values are first tried at 10^3/10^5/10^7 (slope recorded in `max_slope_*` counters); once a
//! magnitude is over budget larger values of that family/history are skipped instead of being killed.
//! `l1rec c04 --dump-table <file>` writes the systematic table (JSON lines: frames hex, pre-history,
//! allowed outcomes) for the L2 injection leg; `--replay <file>` re-runs one probe.
use std::{
    collections::{HashSet, VecDeque},
    io::{Read, Write},
    process::{Command, Stdio},
    sync::{Arc, Mutex, atomic::AtomicU16},
    time::Duration,
};

use bytes::Bytes;
use qbase::{
    Epoch,
    cid::{ArcCidCell, ArcLocalCids, ArcRemoteCids, ConnectionId, GenUniqueCid, RetireCid},
    error::{Error as QError, QuicError},
    flow::FlowController,
    frame::{
        AckFrame, CryptoFrame, Frame, FrameReader, NewConnectionIdFrame, ReliableFrame,
        StreamCtlFrame, StreamFrame,
        io::{ReceiveFrame, SendFrame},
    },
    net::tx::{ArcSendWaker, ArcSendWakers, Signals},
    packet::{
        PacketContent, PacketNumber,
        r#type::{
            Type,
            long::{Type as LongType, Ver1},
            short::OneRtt,
        },
    },
    param::{ClientParameters, ParameterId, handy},
    role::Role,
    sid::{Dir, StreamId, handy::ConsistentConcurrency},
};
use qcongestion::{Algorithm, ArcCC, Feedback, HandshakeStatus, PathStatus, Transport};
use qevent::quic::recovery::PacketLostTrigger;
use qrecovery::{
    crypto::CryptoStream,
    journal::{ArcRcvdJournal, ArcSentJournal, Journal},
    streams::DataStreams,
};
use serde_json::{Value, json};
use vcore::{Args, Report, Rng};

// ------------------------------------------------------------------------------------------
// constants of the miniature connection (victim = server, hostile peer = client)
// ------------------------------------------------------------------------------------------
const RLIMIT_AS: u64 = 2 << 30;
const RLIMIT_CPU_S: u64 = 20;
const WATCHDOG_S: u64 = 90;
/// our advertised limits
const MAX_STREAMS: u64 = 100;
/// per-stream window == connection window (the library's handy defaults): the connection-level
/// ledger can then be overrun by frames that each respect their stream's limit
const STREAM_WINDOW: u64 = 1 << 20;
const CONN_WINDOW: u64 = 1 << 20;
const LOCAL_CID_LIMIT: u64 = 4; // our active_connection_id_limit (bounds what the peer may issue)
const PEER_CID_LIMIT: u64 = 4; // the peer's active_connection_id_limit (bounds what we issue)
/// advertised limits the endpoint committed itself to hold state for; counted into n
const N_LIMITS: u64 = 2 * MAX_STREAMS + LOCAL_CID_LIMIT + PEER_CID_LIMIT;
const VMAX: u64 = (1 << 62) - 1;
const SID_MAX: u64 = (1 << 60) - 1;

fn alloc_budget(b: u64, n: u64) -> u64 {
    64 * 1024 + 1024 * (b + n)
}
fn cpu_budget_us(b: u64, n: u64) -> u64 {
    // normal handling costs well under 100 us; the base is 3000x that so that a heavily loaded host (CPU steal,
    // slow page faults: up to 180x inflation was observed) cannot turn noise into a verdict
    300_000 + 20 * (b + n)
}

// ------------------------------------------------------------------------------------------
// wire encoders (hand written: the probe table must not depend on the encoder under test)
// ------------------------------------------------------------------------------------------
mod wire {
    pub fn vi(v: u64, out: &mut Vec<u8>) {
        if v < 1 << 6 {
            out.push(v as u8);
        } else if v < 1 << 14 {
            out.extend_from_slice(&((v as u16) | 0x4000).to_be_bytes());
        } else if v < 1 << 30 {
            out.extend_from_slice(&((v as u32) | 0x8000_0000).to_be_bytes());
        } else {
            assert!(v < 1 << 62);
            out.extend_from_slice(&(v | 0xc000_0000_0000_0000).to_be_bytes());
        }
    }
    pub fn frame(ty: u64, fields: &[u64]) -> Vec<u8> {
        let mut o = vec![];
        vi(ty, &mut o);
        for f in fields {
            vi(*f, &mut o);
        }
        o
    }
    pub fn ack(largest: u64, delay: u64, first: u64, ranges: &[(u64, u64)]) -> Vec<u8> {
        let mut o = frame(0x02, &[largest, delay, ranges.len() as u64, first]);
        for (g, l) in ranges {
            vi(*g, &mut o);
            vi(*l, &mut o);
        }
        o
    }
    pub fn ack_ecn(largest: u64, delay: u64, first: u64, ecn: [u64; 3]) -> Vec<u8> {
        frame(0x03, &[largest, delay, 0, first, ecn[0], ecn[1], ecn[2]])
    }
    /// connection id of sequence `seq` as the honest/hostile peer issues it (stable per seq)
    pub fn cid_of(seq: u64) -> [u8; 8] {
        (seq ^ 0xc1d0_0000_0000_0000).to_be_bytes()
    }
    pub fn new_cid(seq: u64, rpt: u64) -> Vec<u8> {
        let mut o = frame(0x18, &[seq, rpt]);
        o.push(8);
        o.extend_from_slice(&cid_of(seq));
        let t = seq.wrapping_mul(0x9e37_79b9_7f4a_7c15);
        o.extend_from_slice(&t.to_be_bytes());
        o.extend_from_slice(&(!t).to_be_bytes());
        o
    }
    pub fn retire_cid(seq: u64) -> Vec<u8> {
        frame(0x19, &[seq])
    }
    /// stream id: role 0 = client, 1 = server; dir 0 = bidi, 1 = uni
    pub fn sid(role: u64, dir: u64, idx: u64) -> u64 {
        (idx << 2) | (dir << 1) | role
    }
    pub fn stream(sid: u64, off: u64, len: usize, fin: bool) -> Vec<u8> {
        let mut ty = 0x08 | 0x02;
        if off != 0 {
            ty |= 0x04;
        }
        if fin {
            ty |= 0x01;
        }
        let mut o = vec![ty];
        vi(sid, &mut o);
        if off != 0 {
            vi(off, &mut o);
        }
        vi(len as u64, &mut o);
        o.extend((0..len).map(|i| (off as usize + i) as u8));
        o
    }
    pub fn crypto(off: u64, len: usize) -> Vec<u8> {
        let mut o = frame(0x06, &[off, len as u64]);
        o.extend((0..len).map(|i| (off as usize + i) as u8));
        o
    }
    pub fn reset_stream(sid: u64, code: u64, fin: u64) -> Vec<u8> {
        frame(0x04, &[sid, code, fin])
    }
    pub fn stop_sending(sid: u64, code: u64) -> Vec<u8> {
        frame(0x05, &[sid, code])
    }
    pub fn max_data(v: u64) -> Vec<u8> {
        frame(0x10, &[v])
    }
    pub fn max_stream_data(sid: u64, v: u64) -> Vec<u8> {
        frame(0x11, &[sid, v])
    }
    pub fn max_streams(uni: bool, v: u64) -> Vec<u8> {
        frame(0x12 + uni as u64, &[v])
    }
    pub fn data_blocked(v: u64) -> Vec<u8> {
        frame(0x14, &[v])
    }
    pub fn stream_data_blocked(sid: u64, v: u64) -> Vec<u8> {
        frame(0x15, &[sid, v])
    }
    pub fn streams_blocked(uni: bool, v: u64) -> Vec<u8> {
        frame(0x16 + uni as u64, &[v])
    }
    pub const PING: u8 = 0x01;
}

// ------------------------------------------------------------------------------------------
// probe description (JSON round-trippable: it is the replay object)
// ------------------------------------------------------------------------------------------
#[derive(Clone, Copy, Debug, PartialEq, Eq)]
pub struct Hist {
    /// packets received from and sent to the peer in the probed space
    pub k: u64,
    /// connection ids issued by the peer beyond sequence 0 (<= LOCAL_CID_LIMIT-1)
    pub cids: u64,
    /// client-initiated bidirectional streams the peer opened (each holds 50 bytes; stream 1 also
    /// has a FIN at 100 with a gap, i.e. is in Size Known state)
    pub streams: u64,
}

impl Hist {
    fn n_state(&self) -> u64 {
        // sent + received packet records, peer cids (incl. seq 0), our cids, open streams
        2 * self.k + (self.cids + 1) + PEER_CID_LIMIT + self.streams
    }
    fn n(&self) -> u64 {
        self.n_state() + N_LIMITS
    }
    fn to_json(self) -> Value {
        json!({"k": self.k, "cids": self.cids, "streams": self.streams})
    }
    fn from_json(v: &Value) -> Hist {
        Hist { k: v["k"].as_u64().unwrap_or(0), cids: v["cids"].as_u64().unwrap_or(0), streams: v["streams"].as_u64().unwrap_or(0) }
    }
}

#[derive(Clone, Debug)]
pub struct Probe {
    /// handler + field, names the cost signatures `C04.mem:<family>` / `C04.cpu:<family>`
    pub family: String,
    /// trigger class, names the error signature `C04.error:<clause>`
    pub clause: String,
    /// "data" | "initial"
    pub epoch: String,
    /// "packet" (frames in a packet with number `pn`) | "set_limit" (peer transport parameter)
    pub kind: String,
    pub hist: Hist,
    pub pn: u64,
    pub frames: Vec<u8>,
    /// swept value (for evidence and ramp fitting)
    pub value: u64,
    /// allowed outcomes: "accepted", "dropped", "error:<ErrorKind>", or "any"
    pub allowed: Vec<String>,
}

impl Probe {
    fn to_json(&self) -> Value {
        json!({"kind": "c04", "probe_kind": self.kind, "family": self.family, "clause": self.clause, "epoch": self.epoch,
               "hist": self.hist.to_json(), "pn": self.pn, "frames": vcore::hex(&self.frames), "value": self.value,
               "allowed": self.allowed})
    }
    fn from_json(v: &Value) -> Probe {
        Probe {
            family: v["family"].as_str().unwrap_or("?").into(),
            clause: v["clause"].as_str().unwrap_or("?").into(),
            epoch: v["epoch"].as_str().unwrap_or("data").into(),
            kind: v["probe_kind"].as_str().unwrap_or("packet").into(),
            hist: Hist::from_json(&v["hist"]),
            pn: v["pn"].as_u64().unwrap_or(0),
            frames: vcore::unhex(v["frames"].as_str().unwrap_or("")),
            value: v["value"].as_u64().unwrap_or(0),
            allowed: v["allowed"].as_array().map(|a| a.iter().filter_map(|x| x.as_str().map(String::from)).collect()).unwrap_or_default(),
        }
    }
    /// wire size of the hostile input (packet number + frames; header/tag not counted: conservative)
    fn b(&self) -> u64 {
        if self.kind == "set_limit" { 10 } else { 4 + self.frames.len() as u64 }
    }
}

// ==========================================================================================
//                                   GRANDCHILD SIDE
// ==========================================================================================

/// frame sink of the connection, same shape as qrecovery::reliable::ArcReliableFrameDeque
/// (VecDeque::extend + wake) but readable by the monitor
#[derive(Clone, Default)]
struct Sink {
    frames: Arc<Mutex<VecDeque<ReliableFrame>>>,
    wakers: ArcSendWakers,
}

impl<T: Into<ReliableFrame>> SendFrame<T> for Sink {
    fn send_frame<I: IntoIterator<Item = T>>(&self, iter: I) {
        self.frames.lock().unwrap().extend(iter.into_iter().map(Into::into));
        self.wakers.wake_all_by(Signals::TRANSPORT);
    }
}

impl Sink {
    fn len(&self) -> usize {
        self.frames.lock().unwrap().len()
    }
    fn count_retire(&self) -> usize {
        self.frames.lock().unwrap().iter().filter(|f| matches!(f, ReliableFrame::RetireConnectionId(_))).count()
    }
}

/// stands in for qinterface's QuicRouterRegistry (O(1) map insert/remove per cid)
#[derive(Clone, Default)]
struct Issued {
    active: Arc<Mutex<HashSet<ConnectionId>>>,
    next: Arc<Mutex<u64>>,
    sink: Sink,
}

impl GenUniqueCid for Issued {
    fn gen_unique_cid(&self) -> ConnectionId {
        let mut n = self.next.lock().unwrap();
        *n += 1;
        let cid = ConnectionId::from_slice(&(*n | 0x8000_0000_0000_0000).to_be_bytes());
        self.active.lock().unwrap().insert(cid);
        cid
    }
}

impl RetireCid for Issued {
    fn retire_cid(&self, cid: ConnectionId) {
        self.active.lock().unwrap().remove(&cid);
    }
}

impl SendFrame<NewConnectionIdFrame> for Issued {
    fn send_frame<I: IntoIterator<Item = NewConnectionIdFrame>>(&self, iter: I) {
        self.sink.send_frame(iter);
    }
}

/// minimal packet buffer for `CryptoStreamOutgoing::try_load_data_into`: bounded, remembers the crypto frames
struct Pkt {
    buf: bytes::buf::Limit<Vec<u8>>,
    crypto: Vec<CryptoFrame>,
}

impl Pkt {
    fn new(cap: usize) -> Pkt {
        use bytes::BufMut;
        Pkt { buf: Vec::with_capacity(cap).limit(cap), crypto: vec![] }
    }
}

unsafe impl bytes::BufMut for Pkt {
    fn remaining_mut(&self) -> usize {
        self.buf.remaining_mut()
    }
    unsafe fn advance_mut(&mut self, cnt: usize) {
        unsafe { self.buf.advance_mut(cnt) }
    }
    fn chunk_mut(&mut self) -> &mut bytes::buf::UninitSlice {
        self.buf.chunk_mut()
    }
}

impl<D: qbase::util::ContinuousData> qbase::packet::io::RecordFrame<Frame<D>, D> for Pkt {
    fn record_frame(&mut self, frame: &Frame<D>) {
        if let Frame::Crypto(f, _) = frame {
            self.crypto.push(*f);
        }
    }
}

/// qconnection's GuaranteedFrame
#[derive(Clone, Debug)]
enum GF {
    Stream(StreamFrame),
    #[allow(dead_code)]
    Crypto(CryptoFrame),
    Reliable(ReliableFrame),
}

struct DataTracker {
    sent: ArcSentJournal<GF>,
    crypto: CryptoStream,
    streams: DataStreams<Sink>,
    sink: Sink,
}

impl Feedback for DataTracker {
    fn may_loss(&self, _t: PacketLostTrigger, pns: &mut dyn Iterator<Item = u64>) {
        let out = self.crypto.outgoing();
        let mut g = self.sent.rotate();
        for pn in pns {
            for f in g.may_loss_packet(pn) {
                match f {
                    GF::Crypto(f) => out.may_loss_data(&f),
                    GF::Stream(f) => self.streams.may_loss_data(&f),
                    GF::Reliable(f) => self.sink.send_frame([f]),
                }
            }
        }
    }
}

struct CryptoTracker {
    sent: ArcSentJournal<CryptoFrame>,
    crypto: CryptoStream,
}

impl Feedback for CryptoTracker {
    fn may_loss(&self, _t: PacketLostTrigger, pns: &mut dyn Iterator<Item = u64>) {
        let out = self.crypto.outgoing();
        let mut g = self.sent.rotate();
        for pn in pns {
            for f in g.may_loss_packet(pn) {
                out.may_loss_data(&f);
            }
        }
    }
}

struct Conn {
    sink: Sink,
    cc: ArcCC,
    init: Journal<CryptoFrame>,
    init_crypto: CryptoStream,
    data: Journal<GF>,
    data_crypto: CryptoStream,
    remote_cids: ArcRemoteCids<Sink>,
    local_cids: ArcLocalCids<Issued>,
    streams: DataStreams<Sink>,
    flow: FlowController<Sink>,
    _cell: ArcCidCell<Sink>,
    /// pipes that already failed stop handling (qconnection::space::pipe breaks its loop)
    broken: HashSet<&'static str>,
}

#[derive(Debug, Clone)]
enum Outcome {
    Accepted,
    Dropped(String),
    Error(String, String),
}

impl Outcome {
    fn token(&self) -> String {
        match self {
            Outcome::Accepted => "accepted".into(),
            Outcome::Dropped(_) => "dropped".into(),
            Outcome::Error(k, _) => format!("error:{k}"),
        }
    }
    fn detail(&self) -> String {
        match self {
            Outcome::Accepted => String::new(),
            Outcome::Dropped(r) => r.clone(),
            Outcome::Error(_, r) => r.clone(),
        }
    }
}

fn kind_of(e: &QError) -> (String, String) {
    (format!("{:?}", e.kind()), e.to_string())
}

impl Conn {
    fn new() -> Conn {
        let wakers = ArcSendWakers::default();
        let sink = Sink { frames: Default::default(), wakers: wakers.clone() };
        let mut local = handy::server_parameters();
        for (id, v) in [
            (ParameterId::InitialMaxStreamsBidi, MAX_STREAMS),
            (ParameterId::InitialMaxStreamsUni, MAX_STREAMS),
            (ParameterId::InitialMaxData, CONN_WINDOW),
            (ParameterId::InitialMaxStreamDataBidiLocal, STREAM_WINDOW),
            (ParameterId::InitialMaxStreamDataBidiRemote, STREAM_WINDOW),
            (ParameterId::InitialMaxStreamDataUni, STREAM_WINDOW),
            (ParameterId::ActiveConnectionIdLimit, LOCAL_CID_LIMIT),
        ] {
            local.set(id, v as u32).expect("local parameter");
        }
        let mut remote = handy::client_parameters();
        remote.set(ParameterId::ActiveConnectionIdLimit, PEER_CID_LIMIT as u32).expect("remote parameter");

        // qconnection::builder::init_stream_and_datagram, then tls_fin_handler::apply_parameters
        let streams = DataStreams::new(
            Role::Server,
            &local,
            &ClientParameters::default(),
            Box::new(ConsistentConcurrency::new(MAX_STREAMS, MAX_STREAMS)),
            sink.clone(),
            wakers.clone(),
            None,
        );
        let flow = FlowController::new(0, CONN_WINDOW, sink.clone(), wakers.clone());
        streams.revise_params(false, &remote);
        flow.sender.revise_max_data(false, remote.get(ParameterId::InitialMaxData).unwrap());

        let issued = Issued { sink: sink.clone(), ..Default::default() };
        let local_cids = ArcLocalCids::new(ConnectionId::from_slice(&[0x5e; 8]), issued);
        let remote_cids = ArcRemoteCids::new(LOCAL_CID_LIMIT, sink.clone());
        // one path: applies for a dcid; the first Initial's SCID becomes sequence 0
        let cell = remote_cids.apply_dcid();
        remote_cids.apply_initial_dcid(ConnectionId::from_slice(&wire::cid_of(0)), &cell);

        let init: Journal<CryptoFrame> = Journal::with_capacity(16, None);
        let hs: Journal<CryptoFrame> = Journal::with_capacity(16, None);
        let data: Journal<GF> = Journal::with_capacity(16, None);
        let init_crypto = CryptoStream::new(wakers.clone());
        let hs_crypto = CryptoStream::new(wakers.clone());
        let data_crypto = CryptoStream::new(wakers.clone());
        let trackers: [Arc<dyn Feedback>; 3] = [
            Arc::new(CryptoTracker { sent: init.of_sent_packets(), crypto: init_crypto.clone() }),
            Arc::new(CryptoTracker { sent: hs.of_sent_packets(), crypto: hs_crypto.clone() }),
            Arc::new(DataTracker { sent: data.of_sent_packets(), crypto: data_crypto.clone(), streams: streams.clone(), sink: sink.clone() }),
        ];
        let hstatus = Arc::new(HandshakeStatus::new(true));
        let status = PathStatus::new(hstatus, Arc::new(AtomicU16::new(1200)));
        status.release_anti_amplification_limit();
        let cc = ArcCC::new(Algorithm::NewReno, Duration::from_millis(25), trackers, status, ArcSendWaker::new());
        Conn { sink, cc, init, init_crypto, data, data_crypto, remote_cids, local_cids, streams, flow, _cell: cell, broken: HashSet::new() }
    }

    fn rcvd(&self, epoch: Epoch) -> ArcRcvdJournal {
        match epoch {
            Epoch::Initial => self.init.of_rcvd_packets(),
            _ => self.data.of_rcvd_packets(),
        }
    }

    /// space.rs Ack{Initial,Data}Space::recv_frame
    fn ack_space(&self, epoch: Epoch, ack: AckFrame) -> Result<(), QError> {
        match epoch {
            Epoch::Initial => {
                let sent = self.init.of_sent_packets();
                let out = self.init_crypto.outgoing();
                let mut g = sent.rotate();
                g.update_largest(&ack)?;
                let acked = ack.iter().flat_map(|r| r.rev()).collect::<Vec<_>>();
                for pn in acked {
                    for f in g.on_packet_acked(pn) {
                        out.on_data_acked(&f);
                    }
                }
                Ok(())
            }
            _ => {
                let sent = self.data.of_sent_packets();
                let out = self.data_crypto.outgoing();
                let mut g = sent.rotate();
                g.update_largest(&ack)?;
                let acked = ack.iter().flat_map(|r| r.rev()).collect::<Vec<_>>();
                for pn in acked {
                    for f in g.on_packet_acked(pn) {
                        match f {
                            GF::Stream(f) => self.streams.on_data_acked(f),
                            GF::Crypto(f) => out.on_data_acked(&f),
                            GF::Reliable(ReliableFrame::StreamCtl(StreamCtlFrame::ResetStream(r))) => self.streams.on_reset_acked(r),
                            _ => {}
                        }
                    }
                }
                Ok(())
            }
        }
    }

    /// frame_dispathcer of space/{initial,data}.rs: synchronous part, then the piped handler
    fn dispatch(&mut self, epoch: Epoch, frame: Frame) -> Result<(), QError> {
        macro_rules! pipe {
            ($name:expr, $call:expr) => {{
                if self.broken.contains($name) {
                    Ok(())
                } else {
                    let r: Result<(), QError> = $call;
                    if r.is_err() {
                        self.broken.insert($name);
                    }
                    r
                }
            }};
        }
        match frame {
            Frame::Ack(f) => {
                self.cc.on_ack_rcvd(epoch, &f);
                self.rcvd(epoch).on_rcvd_ack(&f);
                pipe!("ack", self.ack_space(epoch, f))
            }
            Frame::Crypto(f, data) => {
                let inc = if epoch == Epoch::Initial { self.init_crypto.incoming() } else { self.data_crypto.incoming() };
                pipe!("crypto", inc.recv_frame((f, data)))
            }
            Frame::Padding(_) | Frame::Ping(_) => Ok(()),
            _ if epoch == Epoch::Initial => Ok(()), // FrameReader already rejected these for Initial packets
            Frame::MaxData(f) => pipe!("max_data", self.flow.sender.recv_frame(f)),
            Frame::DataBlocked(f) => pipe!("data_blocked", self.flow.recver.recv_frame(f)),
            Frame::NewConnectionId(f) => pipe!("new_cid", self.remote_cids.recv_frame(f).map(|_| ())),
            Frame::RetireConnectionId(f) => pipe!("retire_cid", self.local_cids.recv_frame(f)),
            // space.rs FlowControlledDataStreams
            Frame::StreamCtl(f) => pipe!("stream_ctl", {
                let fty = qbase::frame::GetFrameType::frame_type(&f);
                match self.streams.recv_stream_control(f) {
                    Ok(n) => self.flow.on_new_rcvd(fty, n).map(|_| ()),
                    Err(e) => Err(QError::Quic(e)),
                }
            }),
            Frame::Stream(f, data) => pipe!("stream", {
                let fty = qbase::frame::GetFrameType::frame_type(&f);
                match self.streams.recv_data((f, data)) {
                    Ok(n) => self.flow.on_new_rcvd(fty, n).map(|_| ()),
                    Err(e) => Err(QError::Quic(e)),
                }
            }),
            _ => Ok(()),
        }
    }

    /// parse_normal_{packet,one_rtt_packet}: decode pn, read frames, dispatch, record the packet
    fn recv_packet(&mut self, epoch: Epoch, enc: PacketNumber, body: Bytes, want_pn: Option<u64>) -> Outcome {
        let rcvd = self.rcvd(epoch);
        let pn = match rcvd.decode_pn(enc) {
            Ok(pn) => pn,
            Err(e) => return Outcome::Dropped(e.to_string()),
        };
        if let Some(w) = want_pn
            && w != pn
        {
            return Outcome::Dropped(format!("HARNESS pn decoded to {pn}, wanted {w}"));
        }
        let ty = match epoch {
            Epoch::Initial => Type::Long(LongType::V1(Ver1::INITIAL)),
            _ => Type::Short(OneRtt(0.into())),
        };
        let mut content = PacketContent::default();
        let mut first_err: Option<(String, String)> = None;
        for item in FrameReader::new(body, ty) {
            match item {
                Err(e) => {
                    // read_plain_packet returns Err: Event::Failed, the packet is not recorded
                    let q = QuicError::from(e);
                    let e = first_err.unwrap_or((format!("{:?}", q.kind()), q.to_string()));
                    return Outcome::Error(e.0, e.1);
                }
                Ok((frame, fty)) => {
                    content += fty;
                    if let Err(e) = self.dispatch(epoch, frame)
                        && first_err.is_none()
                    {
                        first_err = Some(kind_of(&e));
                    }
                }
            }
        }
        rcvd.on_rcvd_pn(pn, content.is_ack_eliciting(), self.cc.get_pto(epoch));
        self.cc.on_pkt_rcvd(epoch, pn, content.is_ack_eliciting());
        match first_err {
            Some((k, r)) => Outcome::Error(k, r),
            None => Outcome::Accepted,
        }
    }

    /// send one packet in `epoch` (frames recorded in the sent journal, ACK generated if due)
    fn send_packet(&mut self, epoch: Epoch, i: u64) {
        let (retran, expire) = self.cc.retransmit_and_expire_time(epoch);
        let pn;
        match epoch {
            Epoch::Initial => {
                // real handshake bytes picked up from the crypto stream's send buffer
                let mut pkt = Pkt::new(40);
                let _ = self.init_crypto.outgoing().try_load_data_into(&mut pkt, false);
                let sent = self.init.of_sent_packets();
                let mut g = sent.new_packet();
                pn = g.pn().0;
                if pkt.crypto.is_empty() {
                    g.record_trivial();
                }
                for f in pkt.crypto {
                    g.record_frame(f);
                }
                g.build_with_time(retran, expire);
            }
            _ => {
                let sent = self.data.of_sent_packets();
                let mut g = sent.new_packet();
                pn = g.pn().0;
                if i % 7 == 3 {
                    g.record_frame(GF::Reliable(ReliableFrame::MaxData(qbase::frame::MaxDataFrame::new(qbase::varint::VarInt::from_u64(CONN_WINDOW).unwrap()))));
                } else {
                    // data of a server-initiated stream the application wrote earlier
                    g.record_frame(GF::Stream(StreamFrame::new(StreamId::new(Role::Server, Dir::Uni, 0), i * 100, 100)));
                }
                g.build_with_time(retran, expire);
            }
        }
        // An endpoint may put an ACK frame into any packet it sends; this one does so in every packet (packet `i`
        // of the peer has just been received), as a mostly-receiving endpoint does.  The peer acknowledges only
        // the first quarter of our packets, so the longer histories hold hundreds of unacknowledged ACK-carrying
        // packets when the probe arrives -- state that the ACK handlers must not turn into per-number work.
        let need = self.cc.need_ack(epoch).or_else(|| self.rcvd(epoch).need_ack()).or(Some((i, tokio::time::Instant::now())));
        let mut acked = None;
        if let Some((largest, t)) = need
            && self.rcvd(epoch).gen_ack_frame_util(pn, largest, t, 1100).is_ok()
        {
            acked = Some(largest);
        }
        self.cc.on_pkt_sent(epoch, pn, true, 1200, true, acked);
    }

    /// the legitimate pre-history; any refusal is a harness error
    fn history(&mut self, h: Hist, epoch: Epoch, with_set_limit: bool) -> Result<(), String> {
        if with_set_limit {
            self.local_cids.set_limit(PEER_CID_LIMIT).map_err(|e| format!("set_limit: {e}"))?;
        }
        if epoch == Epoch::Data && h.k < h.cids.max(h.streams) {
            return Err(format!("history needs k >= cids, streams ({h:?})"));
        }
        if epoch == Epoch::Initial {
            // the TLS stack wrote its flight into the crypto stream
            use tokio::io::AsyncWrite;
            let data = vec![0x16u8; 40 * h.k as usize + 40];
            let mut w = self.init_crypto.writer();
            let mut cx = std::task::Context::from_waker(futures::task::noop_waker_ref());
            match std::pin::Pin::new(&mut w).poll_write(&mut cx, &data) {
                std::task::Poll::Ready(Ok(n)) if n == data.len() => {}
                other => return Err(format!("crypto write: {other:?}")),
            }
        }
        for i in 0..h.k {
            let mut body = vec![];
            if i >= 1 && i <= h.k / 4 {
                body.extend(wire::ack(i - 1, 100, i - 1, &[]));
            }
            if epoch == Epoch::Data {
                if i < h.cids {
                    body.extend(wire::new_cid(i + 1, 0));
                }
                if i < h.streams {
                    let sid = wire::sid(0, 0, i);
                    body.extend(wire::stream(sid, 0, 50, false));
                    if i == 1 {
                        body.extend(wire::stream(sid, 80, 20, true));
                    }
                } else {
                    body.push(wire::PING);
                }
            } else {
                body.extend(wire::crypto(i * 10, 10));
            }
            let enc = PacketNumber::encode(i, i.saturating_sub(1));
            match self.recv_packet(epoch, enc, Bytes::from(body), Some(i)) {
                Outcome::Accepted => {}
                o => return Err(format!("legitimate packet {i} refused: {o:?}")),
            }
            self.send_packet(epoch, i);
        }
        Ok(())
    }
}

fn epoch_of(s: &str) -> Epoch {
    if s == "initial" { Epoch::Initial } else { Epoch::Data }
}

/// entry of the grandchild: `l1rec c04 --probe <json>`
fn child_main(spec: &str) -> ! {
    vcore::alloc::set_rlimits(RLIMIT_AS, RLIMIT_CPU_S);
    let v: Value = serde_json::from_str(spec).expect("probe json");
    let p = Probe::from_json(&v);
    let rt = tokio::runtime::Builder::new_current_thread().enable_time().start_paused(true).build().expect("runtime");
    let out = rt.block_on(async move {
        let epoch = epoch_of(&p.epoch);
        let mut conn = Conn::new();
        let hist_res = vcore::panics::catch(|| conn.history(p.hist, epoch, p.kind != "set_limit"));
        match hist_res {
            Ok(Ok(())) => {}
            Ok(Err(e)) => return json!({"harness": e}),
            Err(pr) => return json!({"harness": format!("history panicked: {} at {}", pr.message, pr.location)}),
        }
        let retired_before = conn.sink.count_retire();
        let sink_before = conn.sink.len();
        println!("C04START {}", json!({"n": p.hist.n(), "b": p.b()}));
        let _ = std::io::stdout().flush();
        let body = Bytes::from(p.frames.clone());
        vcore::alloc::reset_peak();
        let a0 = vcore::alloc::snapshot();
        let c0 = vcore::alloc::cpu_time_us();
        let res = vcore::panics::catch(|| match p.kind.as_str() {
            "set_limit" => match conn.local_cids.set_limit(p.value) {
                Ok(()) => Outcome::Accepted,
                Err(e) => {
                    let (k, r) = kind_of(&e);
                    Outcome::Error(k, r)
                }
            },
            _ => conn.recv_packet(epoch, PacketNumber::U32(p.pn as u32), body, Some(p.pn)),
        });
        let c1 = vcore::alloc::cpu_time_us();
        let a1 = vcore::alloc::snapshot();
        let (token, detail) = match &res {
            Ok(o) => (o.token(), o.detail()),
            Err(pr) => ("panic".to_string(), format!("{} at {}", pr.message, vcore::panics::short_location(&pr.location))),
        };
        json!({
            "outcome": token, "detail": detail,
            "cpu_us": c1.saturating_sub(c0),
            "peak": a1.peak.saturating_sub(a0.live),
            "total": a1.total - a0.total,
            "calls": a1.calls - a0.calls,
            "frames_emitted": conn.sink.len().saturating_sub(sink_before),
            "retired_before": retired_before,
        })
    });
    println!("C04RESULT {out}");
    let _ = std::io::stdout().flush();
    // skip destructors: tearing down 10^7-entry tables is not part of the measurement
    std::process::exit(0);
}

// ==========================================================================================
//                                      PARENT SIDE
// ==========================================================================================

#[derive(Debug, Clone, Default)]
struct ChildRun {
    started: bool,
    result: Option<Value>,
    /// terminating signal, if any
    signal: Option<i32>,
    exit_code: Option<i32>,
    watchdog: bool,
    child_cpu_us: u64,
    stderr_tail: String,
}

fn children_cpu_us() -> u64 {
    unsafe {
        let mut ru: libc::rusage = std::mem::zeroed();
        libc::getrusage(libc::RUSAGE_CHILDREN, &mut ru);
        (ru.ru_utime.tv_sec as u64 + ru.ru_stime.tv_sec as u64) * 1_000_000 + ru.ru_utime.tv_usec as u64 + ru.ru_stime.tv_usec as u64
    }
}

fn run_child(p: &Probe) -> ChildRun {
    use std::os::unix::process::ExitStatusExt;
    let exe = std::env::current_exe().expect("current_exe");
    let mut run = ChildRun::default();
    let cpu0 = children_cpu_us();
    let mut child = match Command::new(exe)
        .args(["c04", "--probe", &p.to_json().to_string()])
        .stdin(Stdio::null())
        .stdout(Stdio::piped())
        .stderr(Stdio::piped())
        .spawn()
    {
        Ok(c) => c,
        Err(e) => {
            run.stderr_tail = format!("spawn failed: {e}");
            return run;
        }
    };
    // outputs are tiny (two lines), so reading after exit cannot dead-lock on a full pipe
    // wall clock is used only to stop waiting; the verdict below never depends on it
    let t0 = std::time::Instant::now();
    let status = loop {
        match child.try_wait() {
            Ok(Some(st)) => break Some(st),
            Ok(None) => {
                if t0.elapsed().as_secs() > WATCHDOG_S {
                    let _ = child.kill();
                    run.watchdog = true;
                    break child.wait().ok();
                }
                let el = t0.elapsed().as_millis();
                std::thread::sleep(Duration::from_micros(if el < 20 { 200 } else if el < 500 { 2000 } else { 20_000 }));
            }
            Err(_) => break None,
        }
    };
    run.child_cpu_us = children_cpu_us().saturating_sub(cpu0);
    let mut so = String::new();
    let mut se = String::new();
    if let Some(mut o) = child.stdout.take() {
        let _ = o.read_to_string(&mut so);
    }
    if let Some(mut e) = child.stderr.take() {
        let _ = e.read_to_string(&mut se);
    }
    let tail: String = se.chars().rev().take(400).collect::<String>().chars().rev().collect();
    run.stderr_tail = tail;
    if let Some(st) = status {
        run.signal = st.signal();
        run.exit_code = st.code();
    }
    for line in so.lines() {
        if line.starts_with("C04START ") {
            run.started = true;
        } else if let Some(r) = line.strip_prefix("C04RESULT ") {
            run.result = serde_json::from_str(r).ok();
        }
    }
    run
}

#[derive(Debug, Clone, Default)]
struct Judged {
    /// (signature, what)
    violations: Vec<(String, String)>,
    inconclusive: Option<String>,
    cpu_us: u64,
    peak: u64,
    total: u64,
    frames_emitted: u64,
    outcome: String,
    over_budget: bool,
    killed: bool,
}

fn judge(p: &Probe, run: &ChildRun) -> Judged {
    let mut j = Judged::default();
    let (b, n) = (p.b(), p.hist.n());
    let ab = alloc_budget(b, n);
    let cb = cpu_budget_us(b, n);
    let ctx = format!("{} value {} after history k={} cids={} streams={} ({} epoch)", p.family, p.value, p.hist.k, p.hist.cids, p.hist.streams, p.epoch);
    let Some(res) = &run.result else {
        // no result line: the child died
        if !run.started {
            j.inconclusive = Some(format!("child died before the probe started ({ctx}): signal {:?} exit {:?} {}", run.signal, run.exit_code, run.stderr_tail));
            return j;
        }
        j.killed = true;
        j.over_budget = true;
        j.cpu_us = run.child_cpu_us;
        let alloc_fail = run.stderr_tail.contains("memory allocation of") || run.stderr_tail.contains("capacity overflow");
        if run.watchdog {
            if run.child_cpu_us > cb {
                j.violations.push((format!("C04.cpu:{}", p.family), format!("{ctx}: still running after {} s CPU (budget {} us) when the {WATCHDOG_S} s watchdog stopped it", run.child_cpu_us / 1_000_000, cb)));
            } else {
                j.inconclusive = Some(format!("watchdog stopped the child below its CPU budget ({ctx})"));
            }
        } else if run.signal == Some(libc::SIGXCPU) || (run.signal == Some(libc::SIGKILL) && run.child_cpu_us >= RLIMIT_CPU_S * 1_000_000) {
            j.violations.push((format!("C04.cpu:{}", p.family), format!("{ctx}: handler still running when RLIMIT_CPU = {RLIMIT_CPU_S} s killed the process (budget {cb} us)")));
        } else if run.signal == Some(libc::SIGABRT) && alloc_fail {
            j.violations.push((format!("C04.mem:{}", p.family), format!("{ctx}: allocation failure under RLIMIT_AS = 2 GiB (budget {ab} bytes): {}", run.stderr_tail.trim().lines().last().unwrap_or(""))));
        } else if run.signal == Some(libc::SIGSEGV) || run.signal == Some(libc::SIGABRT) || run.signal == Some(libc::SIGBUS) {
            j.violations.push((format!("C04.crash:{}", p.family), format!("{ctx}: process died with signal {:?} while handling the probe: {}", run.signal, run.stderr_tail.trim())));
        } else {
            j.inconclusive = Some(format!("child ended without result ({ctx}): signal {:?} exit {:?} {}", run.signal, run.exit_code, run.stderr_tail));
        }
        return j;
    };
    if let Some(h) = res.get("harness") {
        j.inconclusive = Some(format!("history not accepted ({ctx}): {h}"));
        return j;
    }
    j.cpu_us = res["cpu_us"].as_u64().unwrap_or(0);
    j.peak = res["peak"].as_u64().unwrap_or(0);
    j.total = res["total"].as_u64().unwrap_or(0);
    j.frames_emitted = res["frames_emitted"].as_u64().unwrap_or(0);
    j.outcome = res["outcome"].as_str().unwrap_or("?").to_string();
    let detail = res["detail"].as_str().unwrap_or("");
    if detail.starts_with("HARNESS") {
        j.inconclusive = Some(format!("{detail} ({ctx})"));
        return j;
    }
    // an allocation-size panic is an allocation failure
    let cap_overflow = j.outcome == "panic" && (detail.contains("capacity overflow") || detail.contains("memory allocation"));
    if j.peak > ab || cap_overflow {
        j.over_budget = true;
        j.violations.push((format!("C04.mem:{}", p.family), format!("{ctx}: {} bytes live at peak ({} allocated in total, {} frames queued) for a {b}-byte input on {n} state entries; budget {ab}{}", j.peak, j.total, j.frames_emitted, if cap_overflow { format!(" [{detail}]") } else { String::new() })));
    }
    if j.cpu_us > cb {
        j.over_budget = true;
        j.violations.push((format!("C04.cpu:{}", p.family), format!("{ctx}: {} us of process CPU time for a {b}-byte input on {n} state entries; budget {cb} us", j.cpu_us)));
    }
    if cap_overflow {
        return j;
    }
    let allowed_any = p.allowed.iter().any(|a| a == "any");
    if j.outcome == "panic" {
        let expects_error = p.allowed.iter().any(|a| a.starts_with("error:")) && !p.allowed.iter().any(|a| a == "accepted");
        let sig = if expects_error { format!("C04.error:{}:panic", p.clause) } else { format!("C04.panic:{}", p.clause) };
        j.violations.push((sig, format!("{ctx}: handler panicked ({detail}); allowed outcomes {:?}", p.allowed)));
    } else if !allowed_any && !p.allowed.contains(&j.outcome) {
        // signature = clause + what was observed instead (accepted / dropped / the wrong ErrorKind)
        let observed = j.outcome.strip_prefix("error:").unwrap_or(&j.outcome);
        j.violations.push((format!("C04.error:{}:{observed}", p.clause), format!("{ctx}: outcome `{}` ({detail}); the RFC allows only {:?}", j.outcome, p.allowed)));
    }
    j
}

// ------------------------------------------------------------------------------------------
// probe table
// ------------------------------------------------------------------------------------------
const VALS: [u64; 14] = [0, 1, 2, 63, 64, (1 << 14) - 1, 1 << 14, (1 << 14) + 1, (1 << 30) - 1, 1 << 30, (1 << 30) + 1, 1 << 31, 1 << 40, VMAX];
const RAMP: [u64; 3] = [1_000, 100_000, 10_000_000];

fn acc() -> Vec<String> {
    vec!["accepted".into()]
}
fn err(kinds: &[&str]) -> Vec<String> {
    kinds.iter().map(|k| format!("error:{k}")).collect()
}
fn acc_or(kinds: &[&str]) -> Vec<String> {
    let mut v = acc();
    v.extend(err(kinds));
    v
}
fn any() -> Vec<String> {
    vec!["any".into()]
}

/// relation-to-state values around `x`: below / at / just above / far above
fn rel(x: u64) -> Vec<u64> {
    let mut v = vec![x, x + 1, x + 2, 2 * x + 10, x + 1000];
    if x > 0 {
        v.push(x - 1);
    }
    if x > 1 {
        v.push(x / 2);
    }
    v
}

fn sweep(extra: &[u64], max: u64) -> Vec<u64> {
    let mut v: Vec<u64> = VALS.iter().copied().chain(extra.iter().copied()).filter(|x| *x <= max).collect();
    if !v.contains(&max) {
        v.push(max);
    }
    v.sort_unstable();
    v.dedup();
    v
}

/// One family: a function value -> probe (None when the value is not expressible) and the range
/// of values; `ramp` = distances tried first at 10^3/10^5/10^7 (mapped through `at`).
pub struct Family {
    pub name: &'static str,
    pub epochs: &'static [&'static str],
    /// values to sweep given the history (relations to state included)
    pub values: fn(Hist) -> Vec<u64>,
    /// ramp value for distance d (None = family has no meaningful magnitude)
    pub ramp: fn(Hist, u64) -> Option<u64>,
    pub make: fn(Hist, &str, u64) -> Option<Probe>,
    /// needs at least this history
    pub min_k: u64,
    pub min_streams: u64,
}

fn mk(family: &str, clause: &str, epoch: &str, h: Hist, frames: Vec<u8>, value: u64, allowed: Vec<String>) -> Option<Probe> {
    Some(Probe { family: family.into(), clause: clause.into(), epoch: epoch.into(), kind: "packet".into(), hist: h, pn: h.k, frames, value, allowed })
}

fn ramp_plain(_h: Hist, d: u64) -> Option<u64> {
    Some(d)
}
fn ramp_above_k(h: Hist, d: u64) -> Option<u64> {
    Some(h.k + d)
}
fn ramp_none(_h: Hist, _d: u64) -> Option<u64> {
    None
}
fn vals_plain(_h: Hist) -> Vec<u64> {
    sweep(&[], VMAX)
}
fn vals_rel_k(h: Hist) -> Vec<u64> {
    sweep(&rel(h.k), VMAX)
}
fn vals_sid(_h: Hist) -> Vec<u64> {
    sweep(&rel(MAX_STREAMS), SID_MAX)
}

/// stream-id carrying frames: (name, builder) for index sweeps
fn sid_frame(kind: &str, sid: u64) -> Vec<u8> {
    match kind {
        "stream" => wire::stream(sid, 0, 1, false),
        "reset_stream" => wire::reset_stream(sid, 7, 0),
        "stop_sending" => wire::stop_sending(sid, 7),
        "max_stream_data" => wire::max_stream_data(sid, 1 << 20),
        "stream_data_blocked" => wire::stream_data_blocked(sid, 0),
        _ => unreachable!(),
    }
}

macro_rules! sid_family {
    ($fname:ident, $kind:expr, $name:expr, $role:expr, $dir:expr, $expect:expr) => {
        fn $fname(h: Hist, e: &str, v: u64) -> Option<Probe> {
            if v > SID_MAX {
                return None;
            }
            let (clause, allowed): (String, Vec<String>) = $expect(h, v);
            mk($name, &clause, e, h, sid_frame($kind, wire::sid($role, $dir, v)), v, allowed)
        }
    };
}

/// client-initiated stream index against our advertised limit
fn expect_index(prefix: &'static str) -> impl Fn(Hist, u64) -> (String, Vec<String>) {
    move |h, v| {
        if v < h.streams {
            // an already open stream with data / a known final size: the frame's other fields decide
            (format!("{prefix}.index-open"), any())
        } else if v < MAX_STREAMS {
            (format!("{prefix}.index-below-limit"), acc())
        } else if v == MAX_STREAMS {
            // all stream-id carrying frames share RemoteStreamIds::try_accept_sid: one clause
            let _ = prefix;
            ("stream-id.index-eq-limit".to_string(), err(&["StreamLimit"]))
        } else {
            (format!("{prefix}.index-gt-limit"), err(&["StreamLimit"]))
        }
    }
}
/// frame type not allowed in that direction: STREAM_STATE_ERROR (beyond the limit STREAM_LIMIT_ERROR is as good)
fn expect_wrong_dir(prefix: &'static str, limited: bool) -> impl Fn(Hist, u64) -> (String, Vec<String>) {
    move |_h, v| {
        if limited && v >= MAX_STREAMS {
            (format!("{prefix}.wrong-direction"), err(&["StreamState", "StreamLimit"]))
        } else {
            (format!("{prefix}.wrong-direction"), err(&["StreamState"]))
        }
    }
}
fn expect_unopened(prefix: &'static str) -> impl Fn(Hist, u64) -> (String, Vec<String>) {
    move |_h, _v| (format!("{prefix}.local-unopened"), err(&["StreamState"]))
}

sid_family!(f_stream_idx_bi, "stream", "stream.index", 0, 0, expect_index("stream"));
sid_family!(f_stream_idx_uni, "stream", "stream.index-uni", 0, 1, expect_index("stream"));
sid_family!(f_reset_idx_bi, "reset_stream", "reset_stream.index", 0, 0, expect_index("reset_stream"));
sid_family!(f_reset_idx_uni, "reset_stream", "reset_stream.index-uni", 0, 1, expect_index("reset_stream"));
sid_family!(f_stop_idx_bi, "stop_sending", "stop_sending.index", 0, 0, expect_index("stop_sending"));
sid_family!(f_msd_idx_bi, "max_stream_data", "max_stream_data.index", 0, 0, expect_index("max_stream_data"));
sid_family!(f_sdb_idx_bi, "stream_data_blocked", "stream_data_blocked.index", 0, 0, expect_index("stream_data_blocked"));
sid_family!(f_sdb_idx_uni, "stream_data_blocked", "stream_data_blocked.index-uni", 0, 1, expect_index("stream_data_blocked"));
// wrong direction
sid_family!(f_stream_srv_uni, "stream", "stream.server-uni", 1, 1, expect_wrong_dir("stream", false));
sid_family!(f_reset_srv_uni, "reset_stream", "reset_stream.server-uni", 1, 1, expect_wrong_dir("reset_stream", false));
sid_family!(f_sdb_srv_uni, "stream_data_blocked", "stream_data_blocked.server-uni", 1, 1, expect_wrong_dir("stream_data_blocked", false));
sid_family!(f_stop_cli_uni, "stop_sending", "stop_sending.client-uni", 0, 1, expect_wrong_dir("stop_sending", true));
sid_family!(f_msd_cli_uni, "max_stream_data", "max_stream_data.client-uni", 0, 1, expect_wrong_dir("max_stream_data", true));
// locally initiated bidirectional stream that was never opened (RFC 9000 19.8, 19.10, 19.5)
sid_family!(f_stream_unopened, "stream", "stream.local-bidi", 1, 0, expect_unopened("stream"));
sid_family!(f_msd_unopened, "max_stream_data", "max_stream_data.local-bidi", 1, 0, expect_unopened("max_stream_data"));
sid_family!(f_stop_unopened, "stop_sending", "stop_sending.local-bidi", 1, 0, expect_unopened("stop_sending"));

fn f_ack_largest(h: Hist, e: &str, v: u64) -> Option<Probe> {
    let s = h.k; // next unsent packet number
    let (clause, allowed) = if v < s {
        ("ack.largest-sent", acc())
    } else if v == s {
        ("ack.largest-eq-next-unsent", err(&["ProtocolViolation"]))
    } else {
        ("ack.largest-gt-next-unsent", err(&["ProtocolViolation"]))
    };
    mk("ack.largest", clause, e, h, wire::ack(v, 0, 0, &[]), v, allowed)
}

fn f_ack_first_range(h: Hist, e: &str, v: u64) -> Option<Probe> {
    let s = h.k;
    let l = s.saturating_sub(1);
    let (clause, allowed) = if v > l {
        // negative packet number; with nothing sent the largest is itself unsent: either error
        ("ack.first-range-gt-largest", if s == 0 { err(&["FrameEncoding", "ProtocolViolation"]) } else { err(&["FrameEncoding"]) })
    } else if s == 0 {
        ("ack.largest-eq-next-unsent", err(&["ProtocolViolation"]))
    } else {
        ("ack.first-range-valid", acc())
    };
    mk("ack.first_range", clause, e, h, wire::ack(l, 0, v, &[]), v, allowed)
}

/// ACK 0..=v, v unsent: must be refused, and refused before walking the range
fn f_ack_range_iteration(h: Hist, e: &str, v: u64) -> Option<Probe> {
    if v < h.k {
        return None;
    }
    let clause = if v == h.k { "ack.largest-eq-next-unsent" } else { "ack.range-unsent" };
    mk("ack.range-iteration", clause, e, h, wire::ack(v, 0, v, &[]), v, err(&["ProtocolViolation"]))
}

fn f_ack_gap(h: Hist, e: &str, v: u64) -> Option<Probe> {
    let l = h.k - 1;
    // next range: largest = l - 0 - gap - 2
    let (clause, allowed) = if v + 2 > l { ("ack.gap-underflow", err(&["FrameEncoding"])) } else { ("ack.gap-valid", acc()) };
    mk("ack.gap", clause, e, h, wire::ack(l, 0, 0, &[(v, 0)]), v, allowed)
}

fn f_ack_range_len(h: Hist, e: &str, v: u64) -> Option<Probe> {
    let l = h.k - 1;
    let (clause, allowed) = if l < 2 || v > l - 2 { ("ack.range-len-underflow", err(&["FrameEncoding"])) } else { ("ack.range-len-valid", acc()) };
    mk("ack.range_len", clause, e, h, wire::ack(l, 0, 0, &[(0, v)]), v, allowed)
}

fn f_ack_delay(h: Hist, e: &str, v: u64) -> Option<Probe> {
    mk("ack.delay", "ack.delay", e, h, wire::ack(h.k - 1, v, 0, &[]), v, acc())
}

fn f_ack_ecn(h: Hist, e: &str, v: u64) -> Option<Probe> {
    mk("ack.ecn", "ack.ecn", e, h, wire::ack_ecn(h.k - 1, 0, 0, [v, v, v]), v, acc())
}

/// as many one-packet ranges as the history allows / fit into one packet
fn f_ack_many_ranges(h: Hist, e: &str, v: u64) -> Option<Probe> {
    let l = h.k - 1;
    let r = v.min(l / 2).min(400);
    if r == 0 {
        return None;
    }
    let ranges: Vec<(u64, u64)> = (0..r).map(|_| (0, 0)).collect();
    mk("ack.many-ranges", "ack.many-ranges", e, h, wire::ack(l, 0, 0, &ranges), r, acc())
}
fn vals_ranges(_h: Hist) -> Vec<u64> {
    vec![1, 10, 400]
}

fn f_pn_jump(h: Hist, e: &str, v: u64) -> Option<Probe> {
    if v >= 1 << 31 {
        return None;
    }
    let mut p = mk("pn.jump", "pn.jump", e, h, vec![wire::PING], v, acc())?;
    p.pn = h.k + v;
    Some(p)
}
fn vals_pn(_h: Hist) -> Vec<u64> {
    sweep(&[], (1 << 31) - 1)
}

fn f_pn_old(h: Hist, e: &str, v: u64) -> Option<Probe> {
    if v >= h.k {
        return None;
    }
    let mut p = mk("pn.old", "pn.duplicate", e, h, vec![wire::PING], v, vec!["dropped".into()])?;
    p.pn = v;
    Some(p)
}
fn vals_old(h: Hist) -> Vec<u64> {
    let mut v = vec![0, h.k / 2, h.k.saturating_sub(1)];
    v.dedup();
    v
}

/// sequence far ahead, everything before it retired: small active set, but a gap of v
fn f_ncid_seq_gap(h: Hist, e: &str, v: u64) -> Option<Probe> {
    let seq = h.cids + 1 + v;
    if seq > VMAX {
        return None;
    }
    mk("new_connection_id.seq-gap", "new_connection_id.seq-gap", e, h, wire::new_cid(seq, seq), v, acc_or(&["ConnectionIdLimit", "ProtocolViolation"]))
}
fn vals_gap(_h: Hist) -> Vec<u64> {
    sweep(&[], VMAX - 8)
}

/// retire_prior_to = 0: ids 0..=h.cids are active, does `seq` still fit under our limit?
fn f_ncid_seq(h: Hist, e: &str, v: u64) -> Option<Probe> {
    let next = h.cids + 1;
    let (clause, allowed) = if v < next {
        ("new_connection_id.retransmitted", acc())
    } else if h.cids + 2 > LOCAL_CID_LIMIT && v == LOCAL_CID_LIMIT {
        // sequence - retire_prior_to == limit: limit + 1 active ids
        ("new_connection_id.exceeds-active-limit-by-one", err(&["ConnectionIdLimit"]))
    } else if h.cids + 2 > LOCAL_CID_LIMIT {
        ("new_connection_id.exceeds-active-limit", err(&["ConnectionIdLimit"]))
    } else {
        ("new_connection_id.seq", acc_or(&["ConnectionIdLimit"]))
    };
    mk("new_connection_id.seq", clause, e, h, wire::new_cid(v, 0), v, allowed)
}
fn vals_ncid_seq(h: Hist) -> Vec<u64> {
    sweep(&rel(h.cids + 1), VMAX)
}

fn f_ncid_rpt(h: Hist, e: &str, v: u64) -> Option<Probe> {
    let seq = h.cids + 1;
    let (clause, allowed) = if v > seq {
        ("new_connection_id.rpt-gt-seq", err(&["FrameEncoding"]))
    } else {
        ("new_connection_id.rpt", acc_or(&["ConnectionIdLimit"]))
    };
    mk("new_connection_id.retire_prior_to", clause, e, h, wire::new_cid(seq, v), v, allowed)
}

fn f_retire_seq(h: Hist, e: &str, v: u64) -> Option<Probe> {
    // we issued 0..PEER_CID_LIMIT-1
    let (clause, allowed) = if v >= PEER_CID_LIMIT {
        ("retire_connection_id.unissued-seq", err(&["ProtocolViolation"]))
    } else {
        ("retire_connection_id.issued-seq", acc_or(&["ProtocolViolation"]))
    };
    mk("retire_connection_id.seq", clause, e, h, wire::retire_cid(v), v, allowed)
}
fn vals_retire(_h: Hist) -> Vec<u64> {
    sweep(&rel(PEER_CID_LIMIT), VMAX)
}

fn f_set_limit(h: Hist, e: &str, v: u64) -> Option<Probe> {
    let (clause, allowed) = if v < 2 { ("set_limit.lt-2", err(&["TransportParameter"])) } else { ("set_limit", acc()) };
    let mut p = mk("set_limit.active-connection-id-limit", clause, e, h, vec![], v, allowed)?;
    p.kind = "set_limit".into();
    Some(p)
}

fn f_stream_offset(h: Hist, e: &str, v: u64) -> Option<Probe> {
    let sid = wire::sid(0, 0, 0);
    let used = 50 * h.streams + if h.streams >= 2 { 50 } else { 0 };
    let have0 = if h.streams >= 1 { 50 } else { 0 };
    let (clause, allowed) = if v == VMAX {
        ("stream.offset-beyond-2^62", err(&["FrameEncoding", "FlowControl"]))
    } else if v + 1 > STREAM_WINDOW {
        ("stream.offset-beyond-stream-limit", err(&["FlowControl"]))
    } else if used + (v + 1).saturating_sub(have0) > CONN_WINDOW {
        ("stream.beyond-connection-limit", err(&["FlowControl"]))
    } else {
        ("stream.offset-within-limit", acc())
    };
    mk("stream.offset", clause, e, h, wire::stream(sid, v, 1, false), v, allowed)
}
fn vals_stream_off(_h: Hist) -> Vec<u64> {
    sweep(&[STREAM_WINDOW - 1, STREAM_WINDOW, STREAM_WINDOW + 1, STREAM_WINDOW - 2000, 2 * STREAM_WINDOW], VMAX)
}

/// v new streams, each filled to its own limit in one frame.  The receive controller extends max_data
/// by half the initial window whenever the received total comes within that distance of the limit
/// (qbase/src/flow.rs); the expectation follows that rule frame by frame.
fn f_conn_flow(h: Hist, e: &str, v: u64) -> Option<Probe> {
    if v > 64 {
        return None;
    }
    let mut body = vec![];
    let mut rcvd = 50 * h.streams + if h.streams >= 2 { 50 } else { 0 };
    let (mut max, step) = (CONN_WINDOW, CONN_WINDOW / 2);
    let mut over = false;
    for i in 0..v {
        body.extend(wire::stream(wire::sid(0, 0, 20 + i), STREAM_WINDOW - 1, 1, false));
        rcvd += STREAM_WINDOW;
        if rcvd > max {
            over = true;
            break;
        }
        if rcvd + step >= max {
            max += step;
        }
    }
    if body.is_empty() {
        body.push(wire::PING);
    }
    let (clause, allowed) = if over {
        ("stream.beyond-connection-limit", err(&["FlowControl"]))
    } else {
        ("stream.within-connection-limit", acc())
    };
    mk("stream.connection-flow", clause, e, h, body, v, allowed)
}
fn vals_conn_flow(_h: Hist) -> Vec<u64> {
    vec![0, 1, 2, 3, 5]
}

/// stream 1 is in Size Known state (final size 100, bytes 50..80 missing); stream 0 holds 0..50
fn f_final_size_stream(h: Hist, e: &str, v: u64) -> Option<Probe> {
    let (s0, s1) = (wire::sid(0, 0, 0), wire::sid(0, 0, 1));
    let (frames, clause, allowed) = match v {
        0 => (wire::stream(s1, 100, 1, false), "stream.beyond-final-size", err(&["FinalSize"])),
        1 => (wire::stream(s1, 60, 10, true), "stream.fin-changes-final-size", err(&["FinalSize"])),
        2 => (wire::stream(s1, 90, 20, true), "stream.fin-changes-final-size", err(&["FinalSize"])),
        3 => (wire::stream(s0, 10, 10, true), "stream.fin-below-received", err(&["FinalSize"])),
        4 => (wire::stream(s1, 60, 10, false), "stream.fills-gap", acc()),
        5 => (wire::stream(s1, 90, 10, true), "stream.same-final-size", acc()),
        _ => return None,
    };
    mk("stream.final-size", clause, e, h, frames, v, allowed)
}
fn vals_0_5(_h: Hist) -> Vec<u64> {
    (0..6).collect()
}

/// RESET_STREAM final size on stream 0 (Recv state, 50 bytes received)
fn f_reset_final_recv(h: Hist, e: &str, v: u64) -> Option<Probe> {
    let used = 50 * h.streams + if h.streams >= 2 { 50 } else { 0 };
    let (clause, allowed) = if v < 50 {
        ("reset_stream.final-size-below-received", err(&["FinalSize"]))
    } else if v > STREAM_WINDOW {
        // RFC 9000 4.1 + 4.5: the final size is flow-control credit consumed on the stream
        ("reset_stream.final-size-gt-stream-limit", err(&["FlowControl"]))
    } else if used - 50 + v > CONN_WINDOW {
        ("reset_stream.final-size-gt-connection-limit", err(&["FlowControl"]))
    } else {
        ("reset_stream.final-size-valid", acc())
    };
    mk("reset_stream.final_size", clause, e, h, wire::reset_stream(wire::sid(0, 0, 0), 7, v), v, allowed)
}
fn vals_reset_final(_h: Hist) -> Vec<u64> {
    sweep(&[49, 50, 51, 1 << 16, CONN_WINDOW - 2000, CONN_WINDOW - 1, STREAM_WINDOW, STREAM_WINDOW + 1], VMAX)
}

/// RESET_STREAM on stream 1 whose final size (100) is known
fn f_reset_final_known(h: Hist, e: &str, v: u64) -> Option<Probe> {
    let (clause, allowed) = if v == 100 {
        ("reset_stream.same-final-size", acc())
    } else if v > STREAM_WINDOW {
        ("reset_stream.final-size-changed", err(&["FinalSize", "FlowControl"]))
    } else {
        ("reset_stream.final-size-changed", err(&["FinalSize"]))
    };
    mk("reset_stream.final_size-known", clause, e, h, wire::reset_stream(wire::sid(0, 0, 1), 7, v), v, allowed)
}
fn vals_reset_known(_h: Hist) -> Vec<u64> {
    sweep(&[99, 100, 101], VMAX)
}

fn f_max_data(h: Hist, e: &str, v: u64) -> Option<Probe> {
    mk("max_data.value", "max_data.value", e, h, wire::max_data(v), v, acc())
}
fn f_max_stream_data(h: Hist, e: &str, v: u64) -> Option<Probe> {
    mk("max_stream_data.value", "max_stream_data.value", e, h, wire::max_stream_data(wire::sid(0, 0, 0), v), v, acc())
}
/// 2^60 itself is legal (RFC 9000 19.11) but qbase refuses it; refusing a value no honest peer sends is not held against it
fn max_streams_expect(v: u64) -> (&'static str, Vec<String>) {
    if v > 1 << 60 {
        ("max_streams.gt-2^60", err(&["FrameEncoding"]))
    } else if v == 1 << 60 {
        ("max_streams.eq-2^60", acc_or(&["FrameEncoding"]))
    } else {
        ("max_streams.value", acc())
    }
}
fn f_max_streams_bi(h: Hist, e: &str, v: u64) -> Option<Probe> {
    let (c, a) = max_streams_expect(v);
    mk("max_streams.value", c, e, h, wire::max_streams(false, v), v, a)
}
fn f_max_streams_uni(h: Hist, e: &str, v: u64) -> Option<Probe> {
    let (c, a) = max_streams_expect(v);
    mk("max_streams.value-uni", c, e, h, wire::max_streams(true, v), v, a)
}
fn f_streams_blocked(h: Hist, e: &str, v: u64) -> Option<Probe> {
    let (c, a) = if v > 1 << 60 { ("streams_blocked.gt-2^60", err(&["FrameEncoding", "StreamLimit"])) } else { ("streams_blocked.value", acc()) };
    mk("streams_blocked.value", c, e, h, wire::streams_blocked(v % 2 == 1, v), v, a)
}
fn vals_2_60(_h: Hist) -> Vec<u64> {
    sweep(&[(1 << 60) - 1, 1 << 60, (1 << 60) + 1], VMAX)
}
fn f_data_blocked(h: Hist, e: &str, v: u64) -> Option<Probe> {
    mk("data_blocked.value", "data_blocked.value", e, h, wire::data_blocked(v), v, acc())
}
fn f_stream_data_blocked(h: Hist, e: &str, v: u64) -> Option<Probe> {
    mk("stream_data_blocked.value", "stream_data_blocked.value", e, h, wire::stream_data_blocked(wire::sid(0, 0, 0), v), v, acc())
}
fn f_stop_code(h: Hist, e: &str, v: u64) -> Option<Probe> {
    mk("stop_sending.code", "stop_sending.code", e, h, wire::stop_sending(wire::sid(0, 0, 0), v), v, acc())
}
fn f_reset_code(h: Hist, e: &str, v: u64) -> Option<Probe> {
    mk("reset_stream.code", "reset_stream.code", e, h, wire::reset_stream(wire::sid(0, 0, 30), v, 0), v, acc())
}

fn f_crypto_offset(h: Hist, e: &str, v: u64) -> Option<Probe> {
    let (clause, allowed) = if v == VMAX {
        ("crypto.offset-beyond-2^62", err(&["FrameEncoding", "CryptoBufferExceeded"]))
    } else if v > 1 << 61 {
        // qbase's parser refuses offsets above 2^61 (checks offset+offset); closing on such a frame
        // is within an endpoint's rights (CRYPTO_BUFFER_EXCEEDED), only the code differs: not demanded
        ("crypto.offset-above-2^61", any())
    } else {
        ("crypto.offset", acc_or(&["CryptoBufferExceeded"]))
    };
    mk("crypto.offset", clause, e, h, wire::crypto(v, 1), v, allowed)
}

const DATA: &[&str] = &["data"];
const BOTH: &[&str] = &["data", "initial"];

pub fn families() -> Vec<Family> {
    macro_rules! fam {
        ($name:expr, $ep:expr, $vals:expr, $ramp:expr, $make:expr, $mink:expr, $mins:expr) => {
            Family { name: $name, epochs: $ep, values: $vals, ramp: $ramp, make: $make, min_k: $mink, min_streams: $mins }
        };
    }
    vec![
        fam!("ack.largest", BOTH, vals_rel_k, ramp_above_k, f_ack_largest, 0, 0),
        fam!("ack.first_range", BOTH, vals_rel_k, ramp_above_k, f_ack_first_range, 0, 0),
        fam!("ack.range-iteration", BOTH, vals_rel_k, ramp_above_k, f_ack_range_iteration, 0, 0),
        fam!("ack.gap", BOTH, vals_rel_k, ramp_plain, f_ack_gap, 1, 0),
        fam!("ack.range_len", BOTH, vals_rel_k, ramp_plain, f_ack_range_len, 1, 0),
        fam!("ack.delay", BOTH, vals_plain, ramp_plain, f_ack_delay, 1, 0),
        fam!("ack.ecn", BOTH, vals_plain, ramp_plain, f_ack_ecn, 1, 0),
        fam!("ack.many-ranges", DATA, vals_ranges, ramp_none, f_ack_many_ranges, 10, 0),
        fam!("pn.jump", BOTH, vals_pn, ramp_plain, f_pn_jump, 0, 0),
        fam!("pn.old", BOTH, vals_old, ramp_none, f_pn_old, 1, 0),
        fam!("new_connection_id.seq-gap", DATA, vals_gap, ramp_plain, f_ncid_seq_gap, 0, 0),
        fam!("new_connection_id.seq", DATA, vals_ncid_seq, ramp_plain, f_ncid_seq, 0, 0),
        fam!("new_connection_id.retire_prior_to", DATA, vals_ncid_seq, ramp_plain, f_ncid_rpt, 0, 0),
        fam!("retire_connection_id.seq", DATA, vals_retire, ramp_plain, f_retire_seq, 0, 0),
        fam!("set_limit.active-connection-id-limit", DATA, vals_plain, ramp_plain, f_set_limit, 0, 0),
        fam!("stream.index", DATA, vals_sid, ramp_plain, f_stream_idx_bi, 0, 0),
        fam!("stream.index-uni", DATA, vals_sid, ramp_plain, f_stream_idx_uni, 0, 0),
        fam!("reset_stream.index", DATA, vals_sid, ramp_plain, f_reset_idx_bi, 0, 0),
        fam!("reset_stream.index-uni", DATA, vals_sid, ramp_plain, f_reset_idx_uni, 0, 0),
        fam!("stop_sending.index", DATA, vals_sid, ramp_plain, f_stop_idx_bi, 0, 0),
        fam!("max_stream_data.index", DATA, vals_sid, ramp_plain, f_msd_idx_bi, 0, 0),
        fam!("stream_data_blocked.index", DATA, vals_sid, ramp_plain, f_sdb_idx_bi, 0, 0),
        fam!("stream_data_blocked.index-uni", DATA, vals_sid, ramp_plain, f_sdb_idx_uni, 0, 0),
        fam!("stream.server-uni", DATA, vals_sid, ramp_plain, f_stream_srv_uni, 0, 0),
        fam!("reset_stream.server-uni", DATA, vals_sid, ramp_plain, f_reset_srv_uni, 0, 0),
        fam!("stream_data_blocked.server-uni", DATA, vals_sid, ramp_plain, f_sdb_srv_uni, 0, 0),
        fam!("stop_sending.client-uni", DATA, vals_sid, ramp_plain, f_stop_cli_uni, 0, 0),
        fam!("max_stream_data.client-uni", DATA, vals_sid, ramp_plain, f_msd_cli_uni, 0, 0),
        fam!("stream.local-bidi", DATA, vals_sid, ramp_plain, f_stream_unopened, 0, 0),
        fam!("max_stream_data.local-bidi", DATA, vals_sid, ramp_plain, f_msd_unopened, 0, 0),
        fam!("stop_sending.local-bidi", DATA, vals_sid, ramp_plain, f_stop_unopened, 0, 0),
        fam!("stream.offset", DATA, vals_stream_off, ramp_plain, f_stream_offset, 0, 0),
        fam!("stream.connection-flow", DATA, vals_conn_flow, ramp_none, f_conn_flow, 0, 0),
        fam!("stream.final-size", DATA, vals_0_5, ramp_none, f_final_size_stream, 2, 2),
        fam!("reset_stream.final_size", DATA, vals_reset_final, ramp_plain, f_reset_final_recv, 1, 1),
        fam!("reset_stream.final_size-known", DATA, vals_reset_known, ramp_plain, f_reset_final_known, 2, 2),
        fam!("max_data.value", DATA, vals_plain, ramp_plain, f_max_data, 0, 0),
        fam!("max_stream_data.value", DATA, vals_plain, ramp_plain, f_max_stream_data, 1, 1),
        fam!("max_streams.value", DATA, vals_2_60, ramp_plain, f_max_streams_bi, 0, 0),
        fam!("max_streams.value-uni", DATA, vals_2_60, ramp_plain, f_max_streams_uni, 0, 0),
        fam!("streams_blocked.value", DATA, vals_2_60, ramp_plain, f_streams_blocked, 0, 0),
        fam!("data_blocked.value", DATA, vals_plain, ramp_plain, f_data_blocked, 0, 0),
        fam!("stream_data_blocked.value", DATA, vals_plain, ramp_plain, f_stream_data_blocked, 1, 1),
        fam!("stop_sending.code", DATA, vals_plain, ramp_plain, f_stop_code, 1, 1),
        fam!("reset_stream.code", DATA, vals_plain, ramp_plain, f_reset_code, 0, 0),
        fam!("crypto.offset", BOTH, vals_plain, ramp_plain, f_crypto_offset, 0, 0),
    ]
}

pub const HISTS: [Hist; 4] = [
    Hist { k: 0, cids: 0, streams: 0 },
    Hist { k: 1, cids: 1, streams: 1 },
    Hist { k: 10, cids: 2, streams: 3 },
    Hist { k: 1000, cids: 3, streams: 5 },
];

// ------------------------------------------------------------------------------------------
// running groups of probes
// ------------------------------------------------------------------------------------------
struct Ctx<'a> {
    rep: &'a mut Report,
    samples_left: usize,
    /// CPU signatures already confirmed by three runs in this process (no need to pay for it again)
    confirmed_cpu: HashSet<String>,
}

impl Ctx<'_> {
    /// run one probe in a grandchild, record evidence and violations; returns the judgement
    fn run(&mut self, p: &Probe, phase: &str) -> Judged {
        let run = run_child(p);
        let mut j = judge(p, &run);
        // Process CPU time is inflated when the host steals the vCPU or page faults are slow.  The
        // workload is deterministic, so the minimum over repetitions is the honest estimate: a CPU
        // overrun only counts when three independent runs all exceed the budget.
        let mut reruns = 0;
        let first_cpu = j.cpu_us;
        while reruns < 2
            && !j.killed
            && j.inconclusive.is_none()
            && j.violations.iter().any(|(s, _)| s.starts_with("C04.cpu:") && !self.confirmed_cpu.contains(s))
        {
            reruns += 1;
            self.rep.count("cpu_confirmation_reruns");
            let j2 = judge(p, &run_child(p));
            if j2.inconclusive.is_none() && !j2.killed && j2.cpu_us < j.cpu_us {
                j = j2;
            }
        }
        if reruns == 2 {
            for (s, _) in &j.violations {
                if s.starts_with("C04.cpu:") {
                    self.confirmed_cpu.insert(s.clone());
                }
            }
        }
        if reruns > 0 && !j.violations.iter().any(|(s, _)| s.starts_with("C04.cpu:")) {
            self.rep.count("cpu_overruns_not_confirmed");
            self.rep.notes.push(format!("cpu overrun not confirmed: {} value {} k={}: first run {} us, minimum {} us", p.family, p.value, p.hist.k, first_cpu, j.cpu_us));
        }
        self.rep.evaluations += 1;
        self.rep.count("probes");
        self.rep.count(&format!("probes.{phase}"));
        self.rep.count(&format!("family.{}", p.family));
        if let Some(why) = &j.inconclusive {
            self.rep.count("probes_inconclusive");
            self.rep.inconclusive(why.clone());
            return j;
        }
        if j.killed {
            self.rep.count("children_killed_by_limit");
        }
        self.rep.count(&format!("outcome.{}", if j.killed { "killed" } else { j.outcome.split(':').next().unwrap_or("?") }));
        if let Some(k) = j.outcome.strip_prefix("error:") {
            self.rep.count(&format!("error_kind.{k}"));
        }
        self.rep.max("max_cpu_us_within_budget", if j.over_budget { 0 } else { j.cpu_us });
        self.rep.max("max_peak_bytes_within_budget", if j.over_budget { 0 } else { j.peak });
        self.rep.max("max_cpu_us_observed", j.cpu_us);
        self.rep.max("max_peak_bytes_observed", j.peak);
        self.rep.max("max_frames_emitted_by_one_probe", j.frames_emitted);
        self.rep.set("clauses", vcore::fnv_str(&p.clause));
        self.rep.set("outcomes", vcore::fnv_str(&format!("{}|{}", p.clause, j.outcome)));
        // distinct non-trivial: hostile (a refusal is demanded) or far-from-state value
        let hostile = !p.allowed.iter().any(|a| a == "accepted" || a == "any") || p.value > 4 * (p.hist.n() + 64);
        if hostile {
            self.rep.distinct(vcore::fnv_str(&format!("{}|{}|{:?}|{}|{}", p.family, p.epoch, p.hist, p.value, vcore::hex(&p.frames[..p.frames.len().min(24)]))));
        }
        if self.samples_left > 0 && hostile && p.hist.k > 0 {
            self.samples_left -= 1;
            self.rep.sample(json!({"family": p.family, "clause": p.clause, "hist": p.hist.to_json(), "value": p.value, "frames": vcore::hex(&p.frames[..p.frames.len().min(32)]),
                                   "allowed": p.allowed, "outcome": j.outcome, "cpu_us": j.cpu_us, "peak_bytes": j.peak}));
        }
        for (sig, what) in &j.violations {
            self.rep.violation(sig.clone(), what.clone(), p.to_json());
        }
        j
    }

    /// ramp (10^3, 10^5, 10^7) then sweep; a ramp step over budget stops larger magnitudes
    fn group(&mut self, f: &Family, h: Hist, epoch: &str, extra_values: &[u64]) {
        if h.k < f.min_k || h.streams < f.min_streams {
            return;
        }
        self.rep.count("groups");
        let mut stop_at: Option<u64> = None; // magnitude at which the cost already exceeded the budget
        let mut pts: Vec<(u64, u64, u64)> = vec![];
        for d in RAMP {
            let Some(v) = (f.ramp)(h, d) else { break };
            let Some(p) = (f.make)(h, epoch, v) else { continue };
            let j = self.run(&p, "ramp");
            if j.inconclusive.is_some() {
                continue;
            }
            pts.push((d, j.cpu_us, j.peak));
            if j.over_budget {
                stop_at = Some(v);
                break;
            }
        }
        if pts.len() >= 2 {
            let (d0, c0, m0) = pts[0];
            let (d1, c1, m1) = pts[pts.len() - 1];
            let dd = (d1 - d0).max(1);
            // slope of the growth curve: picoseconds and milli-bytes per unit of the field value
            self.rep.max(&format!("max_slope_cpu_ps_per_unit.{}", f.name), c1.saturating_sub(c0) * 1_000_000 / dd);
            self.rep.max(&format!("max_slope_mem_millibytes_per_unit.{}", f.name), m1.saturating_sub(m0).saturating_mul(1000) / dd);
            self.rep.count("ramps_fitted");
        }
        if stop_at.is_some() {
            self.rep.count("ramps_over_budget");
        }
        let mut vals = (f.values)(h);
        vals.extend_from_slice(extra_values);
        vals.sort_unstable();
        vals.dedup();
        for v in vals {
            let Some(p) = (f.make)(h, epoch, v) else { continue };
            if let Some(s) = stop_at
                && driving_magnitude(&p) >= s
            {
                // the growth curve already proved the cost unbounded; a larger value would only be killed
                self.rep.count("sweep_values_skipped_after_ramp_violation");
                continue;
            }
            let j = self.run(&p, "sweep");
            if j.over_budget && !j.killed && stop_at.is_none() {
                stop_at = Some(driving_magnitude(&p));
            } else if j.killed {
                stop_at = Some(stop_at.map_or(driving_magnitude(&p), |s| s.min(driving_magnitude(&p))));
            }
        }
    }
}

fn driving_magnitude(p: &Probe) -> u64 {
    if p.family == "pn.jump" { p.hist.k + p.value } else { p.value }
}

fn run_replay(rep: &mut Report, path: &str) {
    let v: Value = serde_json::from_str(&std::fs::read_to_string(path).expect("replay file")).expect("replay json");
    let v = if v.get("replay").is_some() { v["replay"].clone() } else { v };
    let p = Probe::from_json(&v);
    let mut ctx = Ctx { rep, samples_left: 1, confirmed_cpu: HashSet::new() };
    ctx.run(&p, "replay");
}

pub fn run(args: &Args, rep: &mut Report) {
    if let Some(spec) = args.get("probe") {
        child_main(spec);
    }
    rep.rule = "probe = (handler+field family, epoch, pre-history k/cids/streams, field value) run in its own rlimited process; \
                distinct = distinct (family, epoch, history, value, frame bytes); non-trivial = the RFC demands a refusal for it, \
                or the value lies more than 4x beyond everything the history established"
        .into();
    rep.sample_cap(8);
    if let Some(path) = args.get("replay") {
        run_replay(rep, path);
        return;
    }
    if let Some(path) = args.get("dump-table") {
        // the systematic probe table as JSON lines (frame bytes + pre-history + allowed outcomes),
        // for re-use by the L2 frame-injection leg
        let mut out = String::new();
        for f in families() {
            for e in f.epochs {
                for h in HISTS {
                    if h.k < f.min_k || h.streams < f.min_streams {
                        continue;
                    }
                    let mut vals = (f.values)(h);
                    vals.extend(RAMP.iter().filter_map(|d| (f.ramp)(h, *d)));
                    vals.sort_unstable();
                    vals.dedup();
                    for v in vals {
                        if let Some(p) = (f.make)(h, e, v) {
                            out.push_str(&p.to_json().to_string());
                            out.push('\n');
                            rep.evaluations += 1;
                        }
                    }
                }
            }
        }
        std::fs::write(path, out).expect("write table");
        return;
    }
    let thorough = args.get("tier") == Some("thorough");
    let shard = args.u64("shard", 0);
    let shards = args.u64("shards", 1).max(1);
    let fams = families();
    let mut ctx = Ctx { rep, samples_left: 4, confirmed_cpu: HashSet::new() };
    // systematic table: family x epoch x history
    // thorough: every history; quick: one rotating non-empty history per (family, epoch), plus the
    // empty history where "nothing sent / nothing issued yet" is a relation of its own
    let mut idx = 0u64;
    let mut g = 0usize;
    for f in &fams {
        for e in f.epochs {
            g += 1;
            let hists: Vec<Hist> = if thorough {
                HISTS.to_vec()
            } else {
                let mut v = vec![];
                let pick = HISTS[1 + g % 3];
                v.push(if pick.k < f.min_k || pick.streams < f.min_streams { HISTS[3] } else { pick });
                if matches!(f.name, "ack.largest" | "ack.first_range" | "ack.range-iteration" | "pn.jump" | "new_connection_id.seq-gap" | "stream.index") {
                    v.push(HISTS[0]);
                }
                if f.name == "new_connection_id.seq" && v[0] != HISTS[3] {
                    v.push(HISTS[3]); // all of our active_connection_id_limit used up
                }
                v
            };
            for h in hists {
                idx += 1;
                if idx % shards != shard {
                    continue;
                }
                ctx.group(f, h, e, &[]);
            }
        }
    }
    // random part: random histories and log-uniform field values
    let n = args.budget(if thorough { 60 } else { 4 });
    let mut rng = Rng::new(args.seed() ^ 0xc04).fork(shard);
    for _ in 0..n {
        let f = &fams[rng.below(fams.len() as u64) as usize];
        let e = f.epochs[rng.below(f.epochs.len() as u64) as usize];
        let k = match rng.below(4) {
            0 => rng.range(2, 20),
            1 => rng.range(20, 300),
            _ => rng.range(300, 3000),
        };
        let h = Hist { k, cids: rng.below(LOCAL_CID_LIMIT).min(k), streams: rng.range(2, 12).min(k) };
        let mut extra = vec![];
        for _ in 0..6 {
            let bits = rng.range(1, 62);
            let v = (1u64 << bits).wrapping_add(rng.below(1 << bits.min(20))).wrapping_sub(rng.below(3));
            extra.push(v.min(VMAX));
        }
        ctx.rep.count("random_groups");
        ctx.group(f, h, e, &extra);
    }
}
