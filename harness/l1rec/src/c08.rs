//! C08 — RecvBuf reassembles any fragment sequence into the original bytes.
//!
//! Reference model: the content as a byte array plus a `have` bitmap, a read position and
//! the highest covered offset.  After *every* operation the observable state of the real
//! `qrecovery::recv::RecvBuf` must equal the model's.
use bytes::{BufMut, Bytes, BytesMut};
use qrecovery::recv::RecvBuf;
use serde_json::{Value, json};
use vcore::{Args, Report, Rng};

#[derive(Clone, Debug)]
pub enum Op {
    Recv { off: u64, len: usize },
    Read { cap: usize },
    Next,
}

impl Op {
    fn to_json(&self) -> Value {
        match self {
            Op::Recv { off, len } => json!(["recv", off, len]),
            Op::Read { cap } => json!(["read", cap]),
            Op::Next => json!(["next"]),
        }
    }
    fn from_json(v: &Value) -> Op {
        match v[0].as_str().unwrap() {
            "recv" => Op::Recv { off: v[1].as_u64().unwrap(), len: v[2].as_u64().unwrap() as usize },
            "read" => Op::Read { cap: v[1].as_u64().unwrap() as usize },
            _ => Op::Next,
        }
    }
}

struct Model {
    have: Vec<bool>,
    nread: usize,
    largest: u64,
    sum_ret: u64,
}

impl Model {
    fn contiguous(&self) -> usize {
        let mut e = self.nread;
        while e < self.have.len() && self.have[e] {
            e += 1;
        }
        e - self.nread
    }
}

#[inline]
fn content(seed: u64, i: u64) -> u8 {
    vcore::prf_byte(seed, 0x08, i)
}

struct Outcome {
    /// first divergence: (step, clause, detail)
    fail: Option<(usize, &'static str, String)>,
    overlap_branches: u32,
    shape: u64,
    bytes_read: u64,
}

/// Run one history on a fresh RecvBuf against the model.
fn run_history(cseed: u64, total: usize, ops: &[Op]) -> Outcome {
    let mut buf = RecvBuf::default();
    let mut m = Model { have: vec![false; total], nread: 0, largest: 0, sum_ret: 0 };
    let mut out = Outcome { fail: None, overlap_branches: 0, shape: 0xcbf29ce484222325, bytes_read: 0 };
    macro_rules! fail {
        ($step:expr, $clause:expr, $($arg:tt)*) => {{
            out.fail = Some(($step, $clause, format!($($arg)*)));
            return out;
        }};
    }
    for (step, op) in ops.iter().enumerate() {
        match *op {
            Op::Recv { off, len } => {
                let data: Vec<u8> = (0..len as u64).map(|k| content(cseed, off + k)).collect();
                let r = vcore::panics::catch(|| buf.recv(off, Bytes::from(data)));
                let ret = match r {
                    Ok(v) => v,
                    Err(p) => fail!(step, "panic", "recv panicked: {} at {}", p.message, p.location),
                };
                // model
                let mut newly = 0;
                let mut overlapped = false;
                for i in off as usize..off as usize + len {
                    if i < m.nread || m.have[i] {
                        overlapped = true;
                    } else {
                        m.have[i] = true;
                        newly += 1;
                    }
                }
                if overlapped && newly > 0 {
                    out.overlap_branches += 1;
                }
                let prev = m.largest;
                // "highest offset seen" is over non-empty fragments that are not wholly read already
                if len > 0 && off + len as u64 > m.nread as u64 {
                    m.largest = m.largest.max(off + len as u64);
                }
                let expect = m.largest - prev;
                m.sum_ret += ret;
                if ret != expect {
                    fail!(step, "recv-return", "recv({off},{len}) returned {ret}, newly covered highest-offset growth is {expect}");
                }
            }
            Op::Read { cap } => {
                let want = m.contiguous().min(cap);
                let mut dst = BytesMut::with_capacity(cap.min(1 << 16)).limit(cap);
                let r = vcore::panics::catch(|| buf.try_read(&mut dst));
                let n = match r {
                    Ok(v) => v,
                    Err(p) => fail!(step, "panic", "try_read panicked: {} at {}", p.message, p.location),
                };
                let got = dst.into_inner();
                if n != want || got.len() != want {
                    fail!(step, "read-length", "try_read(cap {cap}) returned {n} ({} bytes), contiguous prefix available is {want}", got.len());
                }
                for (k, b) in got.iter().enumerate() {
                    let i = (m.nread + k) as u64;
                    if *b != content(cseed, i) {
                        fail!(step, "read-bytes", "byte at offset {i} is {:#x}, original is {:#x}", b, content(cseed, i));
                    }
                }
                m.nread += want;
                out.bytes_read += want as u64;
            }
            Op::Next => {
                let avail = m.contiguous();
                let r = vcore::panics::catch(|| buf.try_next());
                let got = match r {
                    Ok(v) => v,
                    Err(p) => fail!(step, "panic", "try_next panicked: {} at {}", p.message, p.location),
                };
                match got {
                    None => {
                        if avail > 0 {
                            fail!(step, "next-none", "try_next returned None although {avail} contiguous bytes are available");
                        }
                    }
                    Some(d) => {
                        if d.is_empty() || d.len() > avail {
                            fail!(step, "next-length", "try_next returned {} bytes, contiguous prefix available is {avail}", d.len());
                        }
                        for (k, b) in d.iter().enumerate() {
                            let i = (m.nread + k) as u64;
                            if *b != content(cseed, i) {
                                fail!(step, "read-bytes", "byte at offset {i} is {:#x}, original is {:#x}", b, content(cseed, i));
                            }
                        }
                        m.nread += d.len();
                        out.bytes_read += d.len() as u64;
                    }
                }
            }
        }
        // observable state after every op
        if buf.nread() != m.nread as u64 {
            fail!(step, "nread", "nread() = {}, model {}", buf.nread(), m.nread);
        }
        if buf.largest_offset() != m.largest {
            fail!(step, "largest", "largest_offset() = {}, model {}", buf.largest_offset(), m.largest);
        }
        let avail = m.contiguous() as u64;
        if buf.available() != avail {
            fail!(step, "available", "available() = {}, model {}", buf.available(), avail);
        }
        if buf.is_readable() != (avail > 0) {
            fail!(step, "readable", "is_readable() = {}, model {}", buf.is_readable(), avail > 0);
        }
        if m.sum_ret != m.largest {
            fail!(step, "sum", "sum of recv() returns {} != highest offset seen {}", m.sum_ret, m.largest);
        }
        // abstract shape: run-length pattern of the have-map relative to nread (bounded)
        if step < 24 {
            let mut runs = 0u64;
            let mut prev = true;
            for i in m.nread..m.have.len().min(m.nread + 4096) {
                if m.have[i] != prev {
                    runs += 1;
                    prev = m.have[i];
                }
            }
            out.shape = (out.shape ^ (runs << 8 | (m.nread > 0) as u64)).wrapping_mul(0x100000001b3);
        }
    }
    out
}

fn report_fail(rep: &mut Report, mode: &str, cseed: u64, total: usize, ops: &[Op], f: (usize, &'static str, String)) {
    let upto = &ops[..=f.0];
    rep.violation(
        format!("C08.{}", f.1),
        format!("step {} of {} history: {}", f.0, mode, f.2),
        json!({"kind": "c08", "cseed": cseed, "total": total, "ops": upto.iter().map(|o| o.to_json()).collect::<Vec<_>>()}),
    );
}

fn hist_hash(ops: &[Op]) -> u64 {
    let mut h: u64 = 0xcbf29ce484222325;
    for o in ops {
        let (a, b, c) = match *o {
            Op::Recv { off, len } => (1u64, off, len as u64),
            Op::Read { cap } => (2, cap as u64, 0),
            Op::Next => (3, 0, 0),
        };
        for x in [a, b, c] {
            h = (h ^ x).wrapping_mul(0x100000001b3);
        }
    }
    h
}

/// Exhaustive: content length `l`, all sequences of exactly 1..=k fragments (offset, len incl.
/// empty, offset+len <= l), each followed by one reader action from `reads`.
fn exhaustive(rep: &mut Report, l: usize, k: usize, reads: &[Option<Op>], shard: u64, shards: u64) {
    let mut frags = vec![];
    for off in 0..=l {
        for len in 0..=(l - off) {
            frags.push((off as u64, len));
        }
    }
    let nf = frags.len();
    let nr = reads.len();
    let mut total_hist = 0u64;
    let mut nontrivial = 0u64;
    for depth in 1..=k {
        // index vector over (fragment, read) pairs
        let base = nf * nr;
        let count = (base as u64).pow(depth as u32);
        let mut idx = shard;
        while idx < count {
            let mut x = idx;
            let mut ops = Vec::with_capacity(depth * 2);
            for _ in 0..depth {
                let d = (x % base as u64) as usize;
                x /= base as u64;
                let (off, len) = frags[d / nr];
                ops.push(Op::Recv { off, len });
                if let Some(r) = &reads[d % nr] {
                    ops.push(r.clone());
                }
            }
            let o = run_history(7, l, &ops);
            total_hist += 1;
            if o.overlap_branches > 0 {
                nontrivial += 1;
            }
            rep.set("shapes", o.shape);
            if let Some(f) = o.fail {
                report_fail(rep, "exhaustive", 7, l, &ops, f);
            }
            if total_hist % 50_000 == 1 {
                rep.sample(json!({"mode":"exhaustive","len":l,"ops":ops.iter().map(|o|o.to_json()).collect::<Vec<_>>()}));
            }
            idx += shards;
        }
    }
    rep.evaluations += total_hist;
    rep.add("exhaustive_histories", total_hist);
    // in the exhaustive enumeration every index is a different history by construction
    rep.add("exhaustive_histories_with_partial_overlap", nontrivial);
    rep.add("exhaustive_stream_len", l as u64);
    rep.add("exhaustive_max_fragments", k as u64);
}

fn gen_random(rng: &mut Rng) -> (usize, Vec<Op>) {
    let total = match rng.below(4) {
        0 => rng.range(1, 64) as usize,
        1 => rng.range(64, 2048) as usize,
        2 => rng.range(2048, 16384) as usize,
        _ => rng.range(16384, 65536) as usize,
    };
    let nfrag = rng.range(1, 200) as usize;
    let mut ops = vec![];
    // fragment sizes around a typical unit so that overlap/duplication/containment is heavy
    let unit = rng.range(1, (total as u64 / 4).max(2)) as usize;
    for _ in 0..nfrag {
        let style = rng.below(10);
        let (off, len) = match style {
            0 => (rng.below(total as u64 + 1), 0usize),                       // empty piece
            1 | 2 => {
                // aligned chunk (sequential-ish sender)
                let k = rng.below((total / unit + 1) as u64) as usize * unit;
                (k.min(total) as u64, unit.min(total - k.min(total)))
            }
            3 => (0, rng.range(0, total as u64) as usize),                     // prefix
            4 => {
                let off = rng.below(total as u64 + 1);
                (off, (total as u64 - off) as usize)                           // suffix
            }
            _ => {
                let off = rng.below(total as u64 + 1);
                let max = (total as u64 - off).min(unit as u64 * 3);
                (off, rng.range(0, max) as usize)
            }
        };
        ops.push(Op::Recv { off, len });
        // occasionally duplicate immediately
        if rng.chance(1, 12) {
            ops.push(Op::Recv { off, len });
        }
        match rng.below(8) {
            0 => ops.push(Op::Read { cap: 1 }),
            1 => ops.push(Op::Read { cap: 7 }),
            2 => ops.push(Op::Read { cap: 4096 }),
            3 => ops.push(Op::Read { cap: 1 << 20 }),
            4 => ops.push(Op::Next),
            _ => {}
        }
    }
    // finally deliver everything in random chunk order and drain
    if rng.bool() {
        let mut chunks: Vec<usize> = (0..total.div_ceil(unit)).collect();
        rng.shuffle(&mut chunks);
        for c in chunks {
            let off = c * unit;
            ops.push(Op::Recv { off: off as u64, len: unit.min(total - off) });
            if rng.chance(1, 6) {
                ops.push(if rng.bool() { Op::Next } else { Op::Read { cap: rng.range(1, 5000) as usize } });
            }
        }
        ops.push(Op::Read { cap: 1 << 20 });
    }
    (total, ops)
}

pub fn run(args: &Args, rep: &mut Report) {
    rep.rule = "history = sequence of recv(offset,len)/try_read(cap)/try_next on one RecvBuf; distinct = \
                distinct op sequences (hash of ops); non-trivial = at least one fragment that partly \
                overlaps already-held or already-read data and still contributes new bytes"
        .into();
    if let Some(path) = args.get("replay") {
        let v: Value = serde_json::from_str(&std::fs::read_to_string(path).unwrap()).unwrap();
        let v = if v.get("replay").is_some() { v["replay"].clone() } else { v };
        let ops: Vec<Op> = v["ops"].as_array().unwrap().iter().map(Op::from_json).collect();
        let o = run_history(v["cseed"].as_u64().unwrap(), v["total"].as_u64().unwrap() as usize, &ops);
        rep.evaluations += 1;
        if let Some(f) = o.fail {
            report_fail(rep, "replay", v["cseed"].as_u64().unwrap(), v["total"].as_u64().unwrap() as usize, &ops, f);
        }
        return;
    }
    let thorough = args.get("tier") == Some("thorough");
    let shard = args.u64("shard", 0);
    let shards = args.u64("shards", 1);
    // exhaustive part
    let reads_q = [None, Some(Op::Read { cap: 1 }), Some(Op::Read { cap: 2 }), Some(Op::Read { cap: 1 << 20 }), Some(Op::Next)];
    if args.flag("interp") {
        // interpreter leg (Miri): a small exhaustive slice so that every branch of recv() is executed
        exhaustive(rep, 4, 2, &reads_q[..], shard, shards);
    } else if thorough {
        exhaustive(rep, 6, 4, &reads_q[..], shard, shards);
    } else {
        exhaustive(rep, 5, 3, &reads_q[..], shard, shards);
    }
    rep.exhaustive = Some(true);
    // random part
    let n = args.budget(if thorough { 40_000 } else { 2_500 });
    let mut rng = Rng::new(args.seed() ^ 0xc08).fork(shard);
    let mut steps = 0u64;
    for i in 0..n {
        let cseed = rng.next_u64();
        let (total, ops) = gen_random(&mut rng);
        let o = run_history(cseed, total, &ops);
        steps += ops.len() as u64;
        rep.evaluations += 1;
        rep.add("random_bytes_read", o.bytes_read);
        rep.set("shapes", o.shape);
        if o.overlap_branches > 0 {
            rep.distinct(hist_hash(&ops));
        }
        if i < 2 {
            rep.sample(json!({"mode":"random","total":total,"n_ops":ops.len(),"first_ops":ops.iter().take(12).map(|o|o.to_json()).collect::<Vec<_>>()}));
        }
        if let Some(f) = o.fail {
            report_fail(rep, "random", cseed, total, &ops, f);
        }
    }
    rep.add("random_histories", n);
    rep.add("random_step_checks", steps);
}
