//! C11 — flow-control limits are never exceeded and violations are detected.
//!
//! Leg 1 (sender side, two real endpoints, streams_h.rs): the six initial flow-control parameters
//! of both sides are drawn independently from {0,1,100,1000,65536,2^20}; a limit ledger written
//! from RFC 9000 §18.2 / §4.1 follows every MAX_DATA / MAX_STREAM_DATA *at delivery* and checks
//! every emitted STREAM frame against the receiver's limit in force for that stream kind, the
//! connection-level sum of new bytes against MAX_DATA, the send controller's remaining credit
//! (observed through `credit()`) against `limit − new bytes` after every packet (retransmissions
//! free, unused credit returned), and that originated MAX_* values never decrease.
//! Leg 2 (receiver side, one endpoint): hostile STREAM / RESET_STREAM frames just above and far
//! above the advertised stream or connection limit must be answered with FLOW_CONTROL_ERROR.
use qbase::{role::Role, sid::Dir};
use serde_json::{Value, json};
use vcore::{Args, Report, Rng};

use crate::{c01::{features_hash, report_case}, streams_h::*};

fn run_e2e(rep: &mut Report, cfg: &Cfg, ops: &[Op], fin: bool) -> Option<CaseOut> {
    let r = vcore::panics::catch(|| run_case(cfg, ops, fin, false));
    rep.evaluations += 1;
    match r {
        Ok(out) => {
            report_case(rep, "C11", "c11-e2e", cfg, ops, fin, &out);
            Some(out)
        }
        Err(p) => {
            let loc = vcore::panics::short_location(&p.location);
            rep.violation(format!("C11.panic:{loc}"), format!("panic outside the guarded calls: {} at {}", p.message, p.location), case_replay("c11-e2e", cfg, ops, ops.len(), fin));
            None
        }
    }
}

// ------------------------------------------------------------------------------------------------
// receiver side

const BIG: u64 = 1 << 40;
/// connection limit that no scenario can reach (and far enough from 2^62 that the receive controller never tries to advertise more)
const HUGE: u64 = (1 << 62) - 1;

#[derive(Clone, Copy, Debug, PartialEq)]
enum Kind {
    PeerUni,
    PeerBidi,
    OwnBidi,
}

#[derive(Clone, Copy, Debug, PartialEq)]
enum Hostile {
    Stream,
    StreamFin,
    Reset,
}

impl Hostile {
    fn name(self) -> &'static str {
        match self {
            Hostile::Stream => "stream-no-fin",
            Hostile::StreamFin => "stream-fin",
            Hostile::Reset => "reset",
        }
    }
}

struct Scen {
    cfg: Cfg,
    victim: Side,
    steps: Vec<HStep>,
    level: &'static str,
    hostile: Hostile,
    what: String,
}

fn base_cfg(victim: Side, vl: Limits) -> Cfg {
    let other = Limits { max_data: BIG, bidi_local: BIG, bidi_remote: BIG, uni: BIG, streams_bidi: 10, streams_uni: 10 };
    let lim = if victim == Side::C { [vl, other] } else { [other, vl] };
    Cfg { lim, demand: [false, false], cseed: 0 }
}

/// advertised per-stream limit after the prefix: initial value or the largest MAX_STREAM_DATA originated for sid
fn advertised_stream(run: &HRun, sid: u64, init: u64) -> u64 {
    let mut a = init;
    for c in &run.originated {
        if let Ctl::Sc(qbase::frame::StreamCtlFrame::MaxStreamData(m)) = c {
            if sid_raw(m.stream_id()) == sid {
                a = a.max(m.max_stream_data());
            }
        }
    }
    a
}

fn advertised_conn(run: &HRun, init: u64) -> u64 {
    let mut a = init;
    for c in &run.originated {
        if let Ctl::MaxData(m) = c {
            a = a.max(m.max_data());
        }
    }
    a
}

fn hostile_step(h: Hostile, sid: u64, end: u64, from: u64) -> HStep {
    // a frame whose data ends at `end`; it starts at `from` if that keeps it small, else it is a 1-byte tail
    let (off, len) = if end - from <= 70_000 { (from, (end - from) as usize) } else { (end - 1, 1) };
    match h {
        Hostile::Stream => HStep::Stream { sid, off, len, fin: false },
        Hostile::StreamFin => HStep::Stream { sid, off, len, fin: true },
        Hostile::Reset => HStep::Reset { sid, code: 7, final_size: end },
    }
}

/// stream-level scenario number `idx` of the enumeration (None when out of range / not constructible)
fn stream_scen(idx: u64) -> Option<Scen> {
    let limits = [0u64, 1, 100, 1000, 65536];
    let excess = [1u64, 2, 1000, 1 << 32, 1 << 60];
    let mut x = idx;
    let mut take = |n: u64| {
        let r = x % n;
        x /= n;
        r
    };
    let victim = Side::from_u(take(2));
    let kind = [Kind::PeerUni, Kind::PeerBidi, Kind::OwnBidi][take(3) as usize];
    let l = limits[take(5) as usize];
    let ex = excess[take(5) as usize];
    let h = [Hostile::Stream, Hostile::StreamFin, Hostile::Reset][take(3) as usize];
    // 0: hostile frame first thing; 1: legit data up to the limit first; 2: legit data, application reads (MAX_STREAM_DATA moves), then hostile
    let shape = take(3);
    let index = [0u64, 2][take(2) as usize];
    if x != 0 {
        return None;
    }
    let wrong = l * 2 + 7777; // the other two parameters get a different, larger value
    let vl = match kind {
        Kind::PeerUni => Limits { max_data: HUGE, bidi_local: wrong, bidi_remote: wrong, uni: l, streams_bidi: 10, streams_uni: 10 },
        Kind::PeerBidi => Limits { max_data: HUGE, bidi_local: wrong, bidi_remote: l, uni: wrong, streams_bidi: 10, streams_uni: 10 },
        Kind::OwnBidi => Limits { max_data: HUGE, bidi_local: l, bidi_remote: wrong, uni: wrong, streams_bidi: 10, streams_uni: 10 },
    };
    let cfg = base_cfg(victim, vl);
    let peer_role = victim.peer().role();
    let mut steps = vec![];
    let sid = match kind {
        Kind::PeerUni => mk_sid(peer_role, Dir::Uni, index),
        Kind::PeerBidi => mk_sid(peer_role, Dir::Bi, index),
        Kind::OwnBidi => {
            for _ in 0..=index {
                steps.push(HStep::Open(Dir::Bi));
            }
            mk_sid(victim.role(), Dir::Bi, index)
        }
    };
    let mut from = 0;
    if shape >= 1 {
        if l == 0 {
            return None;
        }
        steps.push(HStep::Stream { sid, off: 0, len: l as usize, fin: false });
        from = l;
    }
    let mut adv = l;
    if shape == 2 {
        steps.push(HStep::AcceptAll);
        steps.push(HStep::ReadAll);
        let run = run_hostile(&cfg, victim, &steps);
        adv = advertised_stream(&run, sid, l);
        if adv == l {
            return None; // the read did not move the limit: same as shape 1
        }
    }
    let end = adv.checked_add(ex)?;
    if end >= (1 << 62) {
        return None;
    }
    steps.push(hostile_step(h, sid, end, from));
    Some(Scen {
        cfg,
        victim,
        steps,
        level: "stream-limit",
        hostile: h,
        what: format!("{kind:?} stream index {index} of victim {victim:?}: advertised stream limit {adv} (initial {l}), hostile {} ends at {end}", h.name()),
    })
}

fn conn_scen(idx: u64) -> Option<Scen> {
    let limits = [0u64, 1, 100, 1000, 65536];
    let excess = [1u64, 1000, 1 << 32];
    let mut x = idx;
    let mut take = |n: u64| {
        let r = x % n;
        x /= n;
        r
    };
    let victim = Side::from_u(take(2));
    let m = limits[take(5) as usize];
    let ex = excess[take(3) as usize];
    let h = [Hostile::Stream, Hostile::StreamFin, Hostile::Reset][take(3) as usize];
    let nstreams = 1 + take(3);
    let fill = take(2) == 1; // legit data up to the connection limit first
    if x != 0 {
        return None;
    }
    let vl = Limits { max_data: m, bidi_local: BIG, bidi_remote: BIG, uni: BIG, streams_bidi: 10, streams_uni: 10 };
    let cfg = base_cfg(victim, vl);
    let peer_role = victim.peer().role();
    let sids: Vec<u64> = (0..nstreams).map(|i| mk_sid(peer_role, if i % 2 == 0 { Dir::Uni } else { Dir::Bi }, i / 2)).collect();
    let mut steps = vec![];
    let mut per = vec![0u64; nstreams as usize];
    if fill {
        if m == 0 {
            return None;
        }
        let part = m / nstreams;
        for (i, s) in sids.iter().enumerate() {
            let len = if i as u64 == nstreams - 1 { m - part * (nstreams - 1) } else { part };
            if len > 0 {
                steps.push(HStep::Stream { sid: *s, off: 0, len: len as usize, fin: false });
            }
            per[i] = len;
        }
    }
    let run = run_hostile(&cfg, victim, &steps);
    let adv = advertised_conn(&run, m);
    let total: u64 = per.iter().sum();
    // the hostile frame goes to the last stream and raises the connection total to adv + ex
    let j = nstreams as usize - 1;
    let end = per[j] + (adv - total) + ex;
    steps.push(hostile_step(h, sids[j], end, per[j]));
    Some(Scen {
        cfg,
        victim,
        steps,
        level: "conn-limit",
        hostile: h,
        what: format!("victim {victim:?}: advertised MAX_DATA {adv} (initial {m}), {total} bytes received on {nstreams} streams, hostile {} raises the total to {}", h.name(), adv + ex),
    })
}

fn judge(rep: &mut Report, sc: &Scen) {
    let run = run_hostile(&sc.cfg, sc.victim, &sc.steps);
    eval_hostile(rep, &sc.cfg, sc.victim, &sc.steps, sc.level, sc.hostile.name(), &sc.what, &run);
}

fn eval_hostile(rep: &mut Report, cfg: &Cfg, victim: Side, steps: &[HStep], level: &str, hname: &str, what: &str, run: &HRun) {
    rep.evaluations += 1;
    let last = steps.len() - 1;
    let replay = || hostile_replay("c11-hostile", cfg, victim, steps, json!({"level": level, "hostile": hname, "what": what}));
    for (i, r) in run.results.iter().enumerate() {
        match r {
            HRes::Panic(loc, msg) => {
                rep.violation(format!("C11.panic:{loc}"), format!("{what}: step {i} panicked: {msg}"), replay());
                return;
            }
            HRes::Err(kind, reason) if i < last => {
                // the prefix is within every advertised limit by construction
                rep.violation(format!("C11.recv.legal-data-refused:{kind}"), format!("{what}: legal prefix step {i} {:?} was refused with {kind}: {reason}", steps[i]), replay());
                return;
            }
            _ => {}
        }
    }
    match &run.results[last] {
        HRes::Err(kind, _) if kind == "FlowControl" => {
            rep.count(&format!("hostile_{level}_{hname}_refused_with_flow_control"));
            rep.distinct(vcore::fnv_str(&format!("{:?}{:?}{:?}", cfg.lim, victim, steps)));
        }
        HRes::Err(kind, reason) => rep.violation(format!("C11.recv.{level}:{hname}-wrong-error:{kind}"), format!("{what}: answered with {kind} ({reason}) instead of FLOW_CONTROL_ERROR"), replay()),
        HRes::Ok(n) => rep.violation(format!("C11.recv.{level}:{hname}-accepted"), format!("{what}: frame was accepted ({n} fresh bytes), FLOW_CONTROL_ERROR required"), replay()),
        other => rep.inconclusive(format!("c11 hostile scenario ended with {other:?}")),
    }
}

/// RFC 9000 §4.5: a stream's final size is the flow-control credit it consumed.  After an accepted
/// RESET_STREAM the bytes reported to the connection-level controller for the stream must add up to the
/// final size, and a probe that raises the RFC total above the advertised MAX_DATA must be refused.
fn accounting_scenarios(rep: &mut Report) {
    let sig = "C11.recv.conn-accounting:reset-final-size-uncounted";
    for victim in [Side::C, Side::S] {
        for dir in [Dir::Uni, Dir::Bi] {
            for have in [0u64, 100] {
                for gap in [1u64, 500, 65_000] {
                    // 0: FIN frame without data at the final size, 1: FIN frame carrying the last byte, 2: no FIN at all
                    for fin_shape in 0..3 {
                        for conn in [1u64 << 30, 1000] {
                            let fin = have + gap;
                            if conn == 1000 && fin > 900 {
                                continue;
                            }
                            let vl = Limits { max_data: conn, bidi_local: BIG, bidi_remote: BIG, uni: BIG, streams_bidi: 10, streams_uni: 10 };
                            let cfg = base_cfg(victim, vl);
                            let peer = victim.peer().role();
                            let sid = mk_sid(peer, dir, 0);
                            let mut steps = vec![];
                            if have > 0 {
                                steps.push(HStep::Stream { sid, off: 0, len: have as usize, fin: false });
                            }
                            match fin_shape {
                                0 => steps.push(HStep::Stream { sid, off: fin, len: 0, fin: true }),
                                1 => steps.push(HStep::Stream { sid, off: fin - 1, len: 1, fin: true }),
                                _ => {}
                            }
                            steps.push(HStep::Reset { sid, code: 5, final_size: fin });
                            let reset_ix = steps.len() - 1;
                            // probe on another stream: raises the RFC total to advertised + 1
                            let pre = run_hostile(&cfg, victim, &steps);
                            let adv = advertised_conn(&pre, conn);
                            let probe = adv >= fin && adv + 1 - fin <= 70_000;
                            if probe {
                                steps.push(HStep::Stream { sid: mk_sid(peer, dir, 1), off: 0, len: (adv + 1 - fin) as usize, fin: false });
                            }
                            rep.evaluations += 1;
                            let run = run_hostile(&cfg, victim, &steps);
                            let what = format!("victim {victim:?}, peer {dir:?} stream: {have} bytes received, {} then RESET_STREAM final size {fin}", ["empty FIN frame at the final size,", "FIN frame with the last byte,", "no FIN,"][fin_shape]);
                            let replay = hostile_replay("c11-accounting", &cfg, victim, &steps, json!({"reset_ix": reset_ix, "final": fin, "probe": probe, "what": what}));
                            eval_accounting(rep, sig, &steps, reset_ix, fin, probe, &what, &run, replay);
                        }
                    }
                }
            }
        }
    }
}

#[allow(clippy::too_many_arguments)]
fn eval_accounting(rep: &mut Report, sig: &str, steps: &[HStep], reset_ix: usize, fin: u64, probe: bool, what: &str, run: &HRun, replay: Value) {
    let mut counted = 0u64;
    for (i, r) in run.results.iter().enumerate().take(reset_ix + 1) {
        match r {
            HRes::Ok(n) => counted += *n as u64,
            HRes::Panic(loc, msg) => {
                rep.violation(format!("C11.panic:{loc}"), format!("{what}: step {i} panicked: {msg}"), replay);
                return;
            }
            other => {
                rep.inconclusive(format!("c11 accounting scenario: legal step {i} {:?} gave {other:?} ({what})", steps[i]));
                return;
            }
        }
    }
    if counted != fin {
        rep.violation(sig, format!("{what}: only {counted} of {fin} bytes were reported to the connection-level flow controller"), replay);
        return;
    }
    if probe {
        match run.results.last().unwrap() {
            HRes::Err(k, _) if k == "FlowControl" => rep.count("accounting_probe_refused_with_flow_control"),
            other => {
                rep.violation(sig, format!("{what}: a probe that raises the connection total above the advertised MAX_DATA gave {other:?}"), replay);
                return;
            }
        }
    }
    rep.count("accounting_scenarios_conform");
    rep.distinct(vcore::fnv_str(&format!("{:?}", steps)));
}

pub fn run(args: &Args, rep: &mut Report) {
    rep.rule = "sender leg: case = (16 transport-parameter values, strategies, op list); distinct = distinct op lists in which at least one STREAM frame ended exactly at a \
                stream or connection limit or a credit probe saw the controller blocked; receiver leg: distinct = distinct (parameters, victim, frame list) scenarios refused with FLOW_CONTROL_ERROR"
        .into();
    let rt = tokio::runtime::Builder::new_current_thread().enable_time().start_paused(true).build().unwrap();
    let _g = rt.enter();
    if let Some(path) = args.get("replay") {
        let v: Value = serde_json::from_str(&std::fs::read_to_string(path).unwrap()).unwrap();
        let v = if v.get("replay").is_some() { v["replay"].clone() } else { v };
        if v["kind"] == "c11-accounting" {
            let (cfg, victim, steps, ex) = hostile_from_replay(&v);
            let run = run_hostile(&cfg, victim, &steps);
            rep.evaluations += 1;
            eval_accounting(rep, "C11.recv.conn-accounting:reset-final-size-uncounted", &steps, ex["reset_ix"].as_u64().unwrap() as usize, ex["final"].as_u64().unwrap(), ex["probe"].as_bool().unwrap_or(false), ex["what"].as_str().unwrap_or(""), &run, v.clone());
        } else if v["kind"] == "c11-hostile" {
            let (cfg, victim, steps, ex) = hostile_from_replay(&v);
            let run = run_hostile(&cfg, victim, &steps);
            eval_hostile(rep, &cfg, victim, &steps, ex["level"].as_str().unwrap_or("stream-limit"), ex["hostile"].as_str().unwrap_or("stream-no-fin"), ex["what"].as_str().unwrap_or(""), &run);
        } else {
            let (cfg, ops, fin) = case_from_replay(&v);
            run_e2e(rep, &cfg, &ops, fin);
        }
        return;
    }
    let thorough = args.get("tier") == Some("thorough");
    let shard = args.u64("shard", 0);
    let shards = args.u64("shards", 1);
    // receiver leg: full enumeration, strided over the shards
    let mut idx = shard;
    let (mut n_stream, mut n_conn) = (0u64, 0u64);
    while idx < 2 * 3 * 5 * 5 * 3 * 3 * 2 {
        if let Some(sc) = stream_scen(idx) {
            judge(rep, &sc);
            n_stream += 1;
        }
        idx += shards;
    }
    let mut idx = shard;
    while idx < 2 * 5 * 3 * 3 * 3 * 2 {
        if let Some(sc) = conn_scen(idx) {
            judge(rep, &sc);
            n_conn += 1;
        }
        idx += shards;
    }
    if shard == 0 {
        accounting_scenarios(rep);
    }
    rep.add("hostile_stream_level_scenarios", n_stream);
    rep.add("hostile_conn_level_scenarios", n_conn);
    rep.exhaustive = Some(false);
    // sender leg
    let n = args.budget(if thorough { 20_000 } else { 300 });
    let mut rng = Rng::new(args.seed() ^ 0xc11).fork(shard);
    for i in 0..n {
        let cfg = gen_cfg(&mut rng, Profile::C11);
        let ops = gen_ops(&mut rng, Profile::C11, &cfg);
        let Some(out) = run_e2e(rep, &cfg, &ops, true) else { continue };
        add_stats(rep, &out.stats, &out.ledger);
        rep.set("fault_feature_mixes", features_hash(&out.stats));
        rep.set("param_shapes", vcore::fnv_str(&format!("{:?}", cfg.lim)));
        rep.count("e2e_cases");
        let l = &out.ledger;
        if l.frames_at_stream_limit > 0 || l.frames_at_conn_limit > 0 || l.credit_probes_blocked > 0 {
            rep.distinct(ops_hash(&ops) ^ cfg.cseed);
        }
        if i < 2 {
            rep.sample(json!({"cfg": cfg.to_json(), "n_ops": ops.len(), "stream_frames_checked": l.stream_frames_checked, "credit_probes": l.credit_probes}));
        }
    }
    let _ = Role::Client;
}
