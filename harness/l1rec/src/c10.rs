//! C10 — acknowledgement bookkeeping is truthful in both directions.
//!
//! Receive leg: real `ArcRcvdJournal` against the set R of accepted numbers.  Every generated ACK
//! frame is enumerated (`AckFrame::iter`) and compared with R; duplicates must be refused by
//! `decode_pn`.  "Tracked" follows the rule the property allows the journal to use for forgetting:
//! a number may be forgotten only when everything below it is forgettable too and it was either
//! never received or was *contained in an ACK frame* carried by one of our packets that the peer
//! acknowledged, and it is non-eliciting or older than 3 PTO.
//!
//! Send leg: real `ArcSentJournal<u64>` against a map pn -> recorded frames + status, driven only
//! through the call shapes of qconnection (new_packet → pn → record_* → build_*; rotate →
//! update_largest → on_packet_acked per acknowledged number; rotate → may_loss_packet per number).
//! Time is tokio's paused clock.
use std::collections::{BTreeMap, BTreeSet};

use qbase::{
    frame::{AckFrame, EncodeSize},
    packet::PacketNumber,
    varint::VarInt,
};
use qrecovery::journal::{ArcRcvdJournal, ArcSentJournal};
use serde_json::{Value, json};
use tokio::time::{Duration, Instant};
use vcore::{Args, Report, Rng};

fn vlen(x: u64) -> usize {
    VarInt::from_u64(x).unwrap().encoding_size()
}

/// ACK frame acknowledging exactly `set` (non-empty).
fn ack_of(set: &BTreeSet<u64>, delay: u64) -> AckFrame {
    let rs = ranges_of(set);
    let (hi0, lo0) = rs[0];
    let mut prev_lo = lo0;
    let mut ranges = vec![];
    for (hi, lo) in &rs[1..] {
        ranges.push((VarInt::from_u64(prev_lo - hi - 2).unwrap(), VarInt::from_u64(hi - lo).unwrap()));
        prev_lo = *lo;
    }
    AckFrame::new(VarInt::from_u64(hi0).unwrap(), VarInt::from_u64(delay).unwrap(), VarInt::from_u64(hi0 - lo0).unwrap(), ranges, None)
}

fn enumerate(f: &AckFrame) -> Result<BTreeSet<u64>, String> {
    // re-derive with checked arithmetic first so a malformed frame is a finding, not a harness panic
    let mut right = f.largest();
    let mut left = right.checked_sub(f.first_range()).ok_or("first_range > largest")?;
    let mut out = BTreeSet::new();
    out.extend(left..=right);
    for (gap, len) in f.ranges() {
        right = left.checked_sub(gap.into_u64() + 2).ok_or("gap runs below zero")?;
        left = right.checked_sub(len.into_u64()).ok_or("range runs below zero")?;
        out.extend(left..=right);
    }
    // and it must agree with the library's own iterator
    let mut via_iter = BTreeSet::new();
    for r in f.iter() {
        via_iter.extend(r);
    }
    if via_iter != out {
        return Err("AckFrame::iter disagrees with the field arithmetic".into());
    }
    Ok(out)
}

// ------------------------------------------------------------------------------------------------
// receive leg
// ------------------------------------------------------------------------------------------------

#[derive(Clone, Debug)]
enum ROp {
    /// a packet arrives: decode its number; when accepted and `authentic`, optionally process the ACK
    /// frame it carries (`ack_of_ours`: our packet numbers it acknowledges) and register it
    Arrive { target: u64, base: u64, authentic: bool, eliciting: bool, pto_ms: u64, ack_of_ours: Vec<u64> },
    /// we build a packet `pn` carrying an ACK frame
    Gen { pn_skip: u64, largest: u64, elapsed_us: u64, cap: CapSpec },
    Advance { ms: u64 },
}

#[derive(Clone, Copy, Debug)]
enum CapSpec {
    Abs(usize),
    /// minimal frame size + delta
    Min(i64),
    /// size of the complete frame + delta
    Full(i64),
}

impl ROp {
    fn to_json(&self) -> Value {
        match self {
            ROp::Arrive { target, base, authentic, eliciting, pto_ms, ack_of_ours } => json!(["arrive", target, base, authentic, eliciting, pto_ms, ack_of_ours]),
            ROp::Gen { pn_skip, largest, elapsed_us, cap } => json!(["gen", pn_skip, largest, elapsed_us, match cap {
                CapSpec::Abs(c) => json!(["abs", c]),
                CapSpec::Min(d) => json!(["min", d]),
                CapSpec::Full(d) => json!(["full", d]),
            }]),
            ROp::Advance { ms } => json!(["advance", ms]),
        }
    }
    fn from_json(v: &Value) -> ROp {
        match v[0].as_str().unwrap() {
            "arrive" => ROp::Arrive {
                target: v[1].as_u64().unwrap(),
                base: v[2].as_u64().unwrap(),
                authentic: v[3].as_bool().unwrap(),
                eliciting: v[4].as_bool().unwrap(),
                pto_ms: v[5].as_u64().unwrap(),
                ack_of_ours: v[6].as_array().unwrap().iter().map(|x| x.as_u64().unwrap()).collect(),
            },
            "gen" => ROp::Gen {
                pn_skip: v[1].as_u64().unwrap(),
                largest: v[2].as_u64().unwrap(),
                elapsed_us: v[3].as_u64().unwrap(),
                cap: match v[4][0].as_str().unwrap() {
                    "abs" => CapSpec::Abs(v[4][1].as_u64().unwrap() as usize),
                    "min" => CapSpec::Min(v[4][1].as_i64().unwrap()),
                    _ => CapSpec::Full(v[4][1].as_i64().unwrap()),
                },
            },
            _ => ROp::Advance { ms: v[1].as_u64().unwrap() },
        }
    }
}

struct RInfo {
    eliciting: bool,
    expire: Instant,
    /// our packets whose ACK frame contained this number
    reported_in: BTreeSet<u64>,
    /// our packets whose ACK frame left this number out for lack of room although the journal had already
    /// walked over it (the first range below the frame's lowest one)
    omitted_in: BTreeSet<u64>,
    confirmed: bool,
    /// diagnostic mirror: confirmed by a packet whose frame contained *or merely walked over* this number
    confirmed_lax: bool,
    /// false when the number was registered while already below the journal's queue start (silently not recorded)
    in_queue: bool,
}

#[derive(Default)]
struct RStats {
    arrivals: u64,
    accepted: u64,
    dup_rejected: u64,
    old_rejected: u64,
    fresh_refused: u64,
    forged: u64,
    frames: u64,
    frames_complete: u64,
    frames_truncated: u64,
    frames_refused: u64,
    acks_of_acks: u64,
    numbers_forgotten: u64,
    late_below_frontier: u64,
    max_ranges: u64,
    shapes: BTreeSet<u64>,
}

struct RModel {
    r: BTreeMap<u64, RInfo>,
    /// numbers below this may have been forgotten
    frontier: u64,
    /// diagnostic mirror of where the journal's own queue starts (it also forgets numbers that a truncated
    /// frame walked over but did not report); used only to classify a divergence and to re-synchronise after it
    lax: u64,
    ack_pkts: BTreeSet<u64>,
    peer_acked: BTreeSet<u64>,
    our_next_pn: u64,
}

impl RModel {
    fn expected_next(&self) -> u64 {
        self.r.keys().next_back().map(|x| x + 1).unwrap_or(0)
    }
    fn tracked_upto(&self, largest: u64) -> BTreeSet<u64> {
        if self.frontier > largest {
            return BTreeSet::new();
        }
        self.r.range(self.frontier..=largest).map(|(k, _)| *k).collect()
    }
    fn rotate_lax(&mut self, now: Instant) {
        let end = self.expected_next();
        while self.lax < end {
            match self.r.get(&self.lax) {
                Some(i) if i.in_queue && !(i.confirmed_lax && (!i.eliciting || i.expire < now)) => break,
                _ => self.lax += 1,
            }
        }
    }
    fn rotate(&mut self, now: Instant, st: &mut RStats) {
        let end = self.expected_next();
        while self.frontier < end {
            match self.r.get(&self.frontier) {
                None => self.frontier += 1,
                Some(i) if i.confirmed && (!i.eliciting || i.expire < now) => {
                    self.frontier += 1;
                    st.numbers_forgotten += 1;
                }
                _ => break,
            }
        }
    }
}

/// ranges (hi, lo) of a set, largest first
fn ranges_of(set: &BTreeSet<u64>) -> Vec<(u64, u64)> {
    let mut out: Vec<(u64, u64)> = vec![];
    for x in set.iter().rev() {
        match out.last_mut() {
            Some((_, lo)) if *lo == x + 1 => *lo = *x,
            _ => out.push((*x, *x)),
        }
    }
    out
}

fn full_size(largest: u64, delay: u64, rs: &[(u64, u64)]) -> usize {
    // rs[0] is the range holding `largest` (or empty when largest itself is untracked)
    let (first, rest): (u64, &[(u64, u64)]) = match rs.first() {
        Some((hi, lo)) if *hi == largest => (hi - lo, &rs[1..]),
        _ => (0, rs),
    };
    let mut sz = 1 + vlen(largest) + vlen(delay) + vlen(rest.len() as u64) + vlen(first);
    let mut prev_lo = match rs.first() {
        Some((hi, lo)) if *hi == largest => *lo,
        _ => largest,
    };
    for (hi, lo) in rest {
        sz += vlen(prev_lo - hi - 2) + vlen(hi - lo);
        prev_lo = *lo;
    }
    sz
}

type Fail = (usize, String, String);

async fn run_rcvd(src: RSource<'_>) -> (Vec<Fail>, Vec<ROp>, RStats) {
    let max_ack_delay = Duration::from_millis(25);
    let j = ArcRcvdJournal::with_capacity(16, Some(max_ack_delay));
    let mut m = RModel { r: BTreeMap::new(), frontier: 0, lax: 0, ack_pkts: BTreeSet::new(), peer_acked: BTreeSet::new(), our_next_pn: 0 };
    let mut st = RStats::default();
    let mut ops: Vec<ROp> = vec![];
    let mut known: Vec<Fail> = vec![];
    let mut src = src;
    let mut step = 0usize;
    loop {
        let op = match &mut src {
            RSource::Replay(v) => {
                if step >= v.len() {
                    break;
                }
                v[step].clone()
            }
            RSource::Gen { g, nops } => {
                if step >= *nops {
                    break;
                }
                g.next(&m)
            }
        };
        ops.push(op.clone());
        let res: Result<(), (String, String)> = async {
            let pmap = |what: &str, p: vcore::panics::PanicRecord| (format!("panic:{}", vcore::panics::short_location(&p.location)), format!("{what} panicked: {}", p.message));
            match op {
                ROp::Advance { ms } => tokio::time::advance(Duration::from_millis(ms)).await,
                ROp::Arrive { target, base, authentic, eliciting, pto_ms, ack_of_ours } => {
                    st.arrivals += 1;
                    let enc = PacketNumber::encode(target, base);
                    let expected = m.expected_next();
                    let d = enc.decode(expected);
                    let got = vcore::panics::catch(|| j.decode_pn(enc)).map_err(|p| pmap("decode_pn", p))?;
                    match got {
                        Ok(x) => {
                            if m.r.contains_key(&x) {
                                return Err(("accept-twice".into(), format!("decode_pn accepted number {x} which was already registered as received (wire value decodes to {d})")));
                            }
                            if !authentic {
                                st.forged += 1;
                                return Ok(());
                            }
                            // frames of the packet are dispatched before the number is registered
                            if !ack_of_ours.is_empty() {
                                let set: BTreeSet<u64> = ack_of_ours.iter().copied().collect();
                                let f = ack_of(&set, 0);
                                vcore::panics::catch(|| j.on_rcvd_ack(&f)).map_err(|p| pmap("on_rcvd_ack", p))?;
                                st.acks_of_acks += 1;
                                let hit: BTreeSet<u64> = set.iter().filter(|p| m.ack_pkts.contains(p)).copied().collect();
                                for p in &hit {
                                    m.ack_pkts.remove(p);
                                }
                                m.peer_acked.extend(set.iter().copied());
                                for i in m.r.values_mut() {
                                    if i.reported_in.iter().any(|p| hit.contains(p)) {
                                        i.confirmed = true;
                                    }
                                    if i.reported_in.iter().chain(i.omitted_in.iter()).any(|p| hit.contains(p)) {
                                        i.confirmed_lax = true;
                                    }
                                }
                                m.rotate(Instant::now(), &mut st);
                                m.rotate_lax(Instant::now());
                            }
                            let pto = Duration::from_millis(pto_ms);
                            vcore::panics::catch(|| j.on_rcvd_pn(x, eliciting, pto)).map_err(|p| pmap("on_rcvd_pn", p))?;
                            st.accepted += 1;
                            if x < m.frontier {
                                st.late_below_frontier += 1;
                            }
                            let in_queue = x >= m.lax;
                            m.r.insert(x, RInfo { eliciting, expire: Instant::now() + pto * 3, reported_in: BTreeSet::new(), omitted_in: BTreeSet::new(), confirmed: false, confirmed_lax: false, in_queue });
                        }
                        Err(_e) => {
                            if m.r.contains_key(&d) {
                                st.dup_rejected += 1;
                            } else {
                                st.old_rejected += 1;
                                if d >= m.frontier {
                                    st.fresh_refused += 1;
                                }
                            }
                        }
                    }
                }
                ROp::Gen { pn_skip, largest, elapsed_us, cap } => {
                    let pn = m.our_next_pn + pn_skip;
                    m.our_next_pn = pn + 1;
                    let now = Instant::now();
                    let Some(rcvd_time) = now.checked_sub(Duration::from_micros(elapsed_us)) else { return Ok(()) };
                    let tracked = m.tracked_upto(largest);
                    let rs = ranges_of(&tracked);
                    let first = match rs.first() {
                        Some((hi, lo)) if *hi == largest => hi - lo,
                        _ => 0,
                    };
                    let min_sz = 1 + vlen(largest) + vlen(elapsed_us) + 1 + vlen(first);
                    let full_sz = full_size(largest, elapsed_us, &rs);
                    let capacity = match cap {
                        CapSpec::Abs(c) => c,
                        CapSpec::Min(d) => (min_sz as i64 + d).max(0) as usize,
                        CapSpec::Full(d) => (full_sz as i64 + d).max(0) as usize,
                    };
                    st.frames += 1;
                    let got = vcore::panics::catch(|| j.gen_ack_frame_util(pn, largest, rcvd_time, capacity)).map_err(|p| pmap("gen_ack_frame_util", p))?;
                    let ctx = format!("gen_ack_frame_util(pn {pn}, largest {largest}, capacity {capacity}); complete frame needs {full_sz}, minimal {min_sz}");
                    match got {
                        Err(sig) => {
                            st.frames_refused += 1;
                            if capacity >= min_sz {
                                return Err(("ack-refused".into(), format!("{ctx}: refused with {sig:?} although the minimal frame fits")));
                            }
                        }
                        Ok(f) => {
                            let a = enumerate(&f).map_err(|e| ("ack-malformed".to_string(), format!("{ctx}: {e}: {f:?}")))?;
                            if f.encoding_size() > capacity {
                                return Err(("ack-overflow".into(), format!("{ctx}: frame encodes to {} bytes", f.encoding_size())));
                            }
                            if f.largest() != largest || a.iter().next_back() != Some(&largest) {
                                return Err(("ack-largest".into(), format!("{ctx}: frame reports largest {}", f.largest())));
                            }
                            if let Some(x) = a.iter().find(|x| !m.r.contains_key(x)) {
                                return Err(("ack-phantom".into(), format!("{ctx}: frame acknowledges {x} which was never registered as received; frame {f:?}")));
                            }
                            // largest-first prefix of the tracked numbers: no hole above the lowest acknowledged one
                            let lowest = *a.iter().next().unwrap();
                            if let Some(x) = tracked.iter().find(|x| **x > lowest && !a.contains(x)) {
                                return Err(("ack-hole".into(), format!("{ctx}: frame skips received number {x} but acknowledges lower ones down to {lowest}")));
                            }
                            let missing: Vec<u64> = tracked.iter().filter(|x| **x < lowest).copied().collect();
                            if missing.is_empty() {
                                st.frames_complete += 1;
                            } else {
                                st.frames_truncated += 1;
                                // next range the frame left out
                                let nhi = *missing.last().unwrap();
                                let mut nlo = nhi;
                                while nlo > 0 && tracked.contains(&(nlo - 1)) {
                                    nlo -= 1;
                                }
                                let next_cost = vlen(lowest.saturating_sub(nhi + 2)) + vlen(nhi - nlo);
                                if capacity >= f.encoding_size() + next_cost + 16 {
                                    let what = format!("{ctx}: frame ({} bytes) leaves out received numbers {nlo}..={nhi} (never reported in any ACK frame) although {} more bytes were available; frame {f:?}", f.encoding_size(), capacity - f.encoding_size());
                                    if nhi < m.lax {
                                        // explained by the diagnostic mirror: the journal forgot numbers that a capacity-truncated
                                        // frame had walked over without reporting them.  Report, adopt the journal's view, go on.
                                        known.push((step, "ack-incomplete:forgotten-after-truncated-ack".to_string(), what));
                                        m.frontier = m.frontier.max(m.lax);
                                    } else {
                                        return Err(("ack-incomplete:room-left".to_string(), what));
                                    }
                                }
                            }
                            st.max_ranges = st.max_ranges.max(f.ranges().len() as u64);
                            st.shapes.insert(vcore::fnv(format!("{}:{}:{}", f.ranges().len().min(40), missing.is_empty(), vlen(largest)).as_bytes()));
                            m.ack_pkts.insert(pn);
                            // mirror: the first run of queued numbers below the frame's lowest one was walked over
                            let mut walked: Vec<u64> = vec![];
                            for (k, i) in m.r.range(..lowest).rev() {
                                if *k < m.lax {
                                    break;
                                }
                                if !i.in_queue {
                                    if walked.is_empty() { continue } else { break }
                                }
                                match walked.last() {
                                    Some(l) if *l != k + 1 => break,
                                    _ => walked.push(*k),
                                }
                            }
                            for (k, i) in m.r.range_mut(..=largest) {
                                if a.contains(k) {
                                    i.reported_in.insert(pn);
                                } else if walked.contains(k) {
                                    i.omitted_in.insert(pn);
                                }
                            }
                        }
                    }
                }
            }
            Ok(())
        }
        .await;
        if let Err((c, d)) = res {
            known.push((step, c, d));
            break;
        }
        step += 1;
    }
    (known, ops, st)
}

enum RSource<'a> {
    Gen { g: RGen, nops: usize },
    Replay(&'a [ROp]),
}

struct RGen {
    rng: Rng,
    style: u64,
    window: u64,
}

impl RGen {
    fn next(&mut self, m: &RModel) -> ROp {
        let rng = &mut self.rng;
        let next = m.expected_next();
        let k = rng.below(100);
        let (w_arr, w_gen) = match self.style {
            0 => (70, 22),
            1 => (55, 35),
            _ => (80, 14),
        };
        if k < w_arr || m.r.is_empty() {
            // which number arrives
            let target = match rng.below(20) {
                0..=8 => next + if self.style == 2 { rng.below(3) } else { 0 },
                9..=12 => next + rng.range(1, self.window.min(12)),
                13 => next + rng.range(1, self.window),
                14 | 15 if !m.r.is_empty() => {
                    // a duplicate
                    let n = m.r.len();
                    *m.r.keys().nth(rng.usize(n)).unwrap()
                }
                16 | 17 => {
                    // something in a gap / late
                    let lo = m.frontier.saturating_sub(3);
                    rng.range(lo, next.max(lo))
                }
                _ => rng.range(0, next),
            };
            let base = match rng.below(4) {
                0 => 0,
                1 => target.saturating_sub(rng.range(1, 200)),
                _ => m.frontier.min(target).saturating_sub(1),
            };
            let ack_of_ours = if !m.ack_pkts.is_empty() && rng.chance(1, 4) || (m.our_next_pn > 0 && rng.chance(1, 25)) {
                let mut v: Vec<u64> = vec![];
                for p in m.ack_pkts.iter() {
                    if rng.chance(2, 3) {
                        v.push(*p);
                    }
                }
                // plus packets of ours that carried no ACK
                for _ in 0..rng.below(3) {
                    v.push(rng.below(m.our_next_pn.max(1)));
                }
                v.sort();
                v.dedup();
                v
            } else {
                vec![]
            };
            return ROp::Arrive {
                target,
                base,
                authentic: !rng.chance(1, 16),
                eliciting: rng.chance(2, 3),
                pto_ms: *rng.pick(&[1u64, 30, 100, 300]),
                ack_of_ours,
            };
        }
        if k < w_arr + w_gen {
            let n = m.r.len();
            let largest = match rng.below(8) {
                0 => *m.r.keys().nth(rng.usize(n)).unwrap(),
                _ => *m.r.keys().next_back().unwrap(),
            };
            let cap = match rng.below(12) {
                0 => CapSpec::Min(-1),
                1 => CapSpec::Min(0),
                2 => CapSpec::Min(rng.range(1, 6) as i64),
                3 => CapSpec::Full(-1),
                4 => CapSpec::Full(0),
                5 => CapSpec::Full(rng.range(1, 15) as i64),
                6 => CapSpec::Full(16),
                7 => CapSpec::Abs(rng.range(0, 40) as usize),
                8 => CapSpec::Full(-(rng.range(2, 30) as i64)),
                _ => CapSpec::Abs(*rng.pick(&[1200usize, 1500, 200, 64])),
            };
            return ROp::Gen { pn_skip: if rng.chance(1, 5) { rng.range(1, 4) } else { 0 }, largest, elapsed_us: *rng.pick(&[0u64, 10, 63, 64, 900, 16_383, 16_384, 25_000]), cap };
        }
        ROp::Advance { ms: *rng.pick(&[1u64, 10, 90, 400, 1000]) }
    }
}

// ------------------------------------------------------------------------------------------------
// send leg
// ------------------------------------------------------------------------------------------------

#[derive(Clone, Debug)]
enum SOp {
    /// nframes recorded frames, `trivial`: a non-retransmittable frame is recorded too; `via_trivial`: build_trivial()
    Send { nframes: usize, trivial: bool, via_trivial: bool, retran_ms: u64, expire_ms: u64 },
    Ack { pns: Vec<u64> },
    Loss { pns: Vec<u64> },
    FastRetx,
    Advance { ms: u64 },
}

impl SOp {
    fn to_json(&self) -> Value {
        match self {
            SOp::Send { nframes, trivial, via_trivial, retran_ms, expire_ms } => json!(["send", nframes, trivial, via_trivial, retran_ms, expire_ms]),
            SOp::Ack { pns } => json!(["ack", pns]),
            SOp::Loss { pns } => json!(["loss", pns]),
            SOp::FastRetx => json!(["fastretx"]),
            SOp::Advance { ms } => json!(["advance", ms]),
        }
    }
    fn from_json(v: &Value) -> SOp {
        let list = |x: &Value| x.as_array().unwrap().iter().map(|y| y.as_u64().unwrap()).collect::<Vec<_>>();
        match v[0].as_str().unwrap() {
            "send" => SOp::Send {
                nframes: v[1].as_u64().unwrap() as usize,
                trivial: v[2].as_bool().unwrap(),
                via_trivial: v[3].as_bool().unwrap(),
                retran_ms: v[4].as_u64().unwrap(),
                expire_ms: v[5].as_u64().unwrap(),
            },
            "ack" => SOp::Ack { pns: list(&v[1]) },
            "loss" => SOp::Loss { pns: list(&v[1]) },
            "fastretx" => SOp::FastRetx,
            _ => SOp::Advance { ms: v[1].as_u64().unwrap() },
        }
    }
}

#[derive(Clone, Copy, PartialEq, Debug)]
enum SStatus {
    Flight,
    Lost,
    Acked,
    /// declared lost, expired and observed to be forgotten
    Gone,
}

struct SPkt {
    frames: Vec<u64>,
    status: SStatus,
    retran_at: Instant,
    expire_at: Instant,
}

#[derive(Default)]
struct SStats {
    packets: u64,
    packets_with_frames: u64,
    trivial_packets: u64,
    abandoned_guards: u64,
    frames_recorded: u64,
    ack_calls: u64,
    frames_delivered: u64,
    repeated_acks: u64,
    ack_after_loss: u64,
    ack_unknown: u64,
    loss_calls: u64,
    frames_reported_lost: u64,
    repeated_loss: u64,
    loss_after_ack: u64,
    forgotten_after_expiry: u64,
    fast_retx_calls: u64,
    fast_retx_frames: u64,
    max_frames_per_packet: u64,
}

fn multiset_eq(a: &[u64], b: &[u64]) -> bool {
    let mut x = a.to_vec();
    let mut y = b.to_vec();
    x.sort();
    y.sort();
    x == y
}

async fn run_sent(src: SSource<'_>) -> (Option<Fail>, Vec<SOp>, SStats) {
    let j: ArcSentJournal<u64> = ArcSentJournal::with_capacity(4);
    let mut pkts: BTreeMap<u64, SPkt> = BTreeMap::new();
    let mut next_pn = 0u64;
    let mut next_frame = 1u64;
    let mut largest_acked = 0u64;
    let mut st = SStats::default();
    let mut ops = vec![];
    let mut fail = None;
    let mut src = src;
    let mut step = 0usize;
    loop {
        let op = match &mut src {
            SSource::Replay(v) => {
                if step >= v.len() {
                    break;
                }
                v[step].clone()
            }
            SSource::Gen { g, nops } => {
                if step >= *nops {
                    break;
                }
                g.next(next_pn, &pkts)
            }
        };
        ops.push(op.clone());
        let res: Result<(), (String, String)> = async {
            let pmap = |what: &str, p: vcore::panics::PanicRecord| (format!("panic:{}", vcore::panics::short_location(&p.location)), format!("{what} panicked: {}", p.message));
            match op {
                SOp::Advance { ms } => tokio::time::advance(Duration::from_millis(ms)).await,
                SOp::Send { nframes, trivial, via_trivial, retran_ms, expire_ms } => {
                    let frames: Vec<u64> = (0..nframes as u64).map(|k| next_frame + k).collect();
                    next_frame += nframes as u64;
                    let now = Instant::now();
                    let got_pn = vcore::panics::catch(|| {
                        let mut g = j.new_packet();
                        let (pn, _enc) = g.pn();
                        // interleave as a packet assembler would: retransmittable and trivial frames in any order
                        let mut t_done = !trivial;
                        for (k, f) in frames.iter().enumerate() {
                            if !t_done && k == frames.len() / 2 {
                                g.record_trivial();
                                t_done = true;
                            }
                            g.record_frame(*f);
                        }
                        if !t_done {
                            g.record_trivial();
                        }
                        if nframes == 0 && !trivial {
                            drop(g); // nothing was written: the assembler gives the packet up
                        } else if nframes == 0 && via_trivial {
                            g.build_trivial();
                        } else {
                            g.build_with_time(Duration::from_millis(retran_ms), Duration::from_millis(expire_ms));
                        }
                        pn
                    })
                    .map_err(|p| pmap("new_packet/record/build", p))?;
                    if got_pn != next_pn {
                        return Err(("pn-sequence".into(), format!("new_packet().pn() = {got_pn}, model expects {next_pn}")));
                    }
                    if nframes > 0 {
                        st.packets += 1;
                        st.packets_with_frames += 1;
                        st.frames_recorded += nframes as u64;
                        st.max_frames_per_packet = st.max_frames_per_packet.max(nframes as u64);
                        pkts.insert(next_pn, SPkt { frames, status: SStatus::Flight, retran_at: now + Duration::from_millis(retran_ms), expire_at: now + Duration::from_millis(expire_ms) });
                        next_pn += 1;
                    } else if trivial {
                        st.packets += 1;
                        st.trivial_packets += 1;
                        next_pn += 1;
                    } else {
                        st.abandoned_guards += 1;
                    }
                }
                SOp::Ack { pns } => {
                    if pns.is_empty() {
                        return Ok(());
                    }
                    let set: BTreeSet<u64> = pns.iter().copied().collect();
                    let f = ack_of(&set, 0);
                    let order: Vec<u64> = f.iter().flat_map(|r| r.rev()).collect();
                    let got = vcore::panics::catch(|| {
                        let mut g = j.rotate();
                        if g.update_largest(&f).is_err() {
                            return None;
                        }
                        let mut out = vec![];
                        for pn in &order {
                            out.push((*pn, g.on_packet_acked(*pn).collect::<Vec<u64>>()));
                        }
                        Some(out)
                    })
                    .map_err(|p| pmap("rotate/update_largest/on_packet_acked", p))?;
                    let Some(got) = got else {
                        return Err(("ack-rejected".into(), format!("update_largest rejected an ACK whose largest {} was sent (next unsent is {next_pn})", f.largest())));
                    };
                    largest_acked = largest_acked.max(f.largest());
                    let now = Instant::now();
                    for (pn, frames) in got {
                        st.ack_calls += 1;
                        match pkts.get_mut(&pn) {
                            None => {
                                st.ack_unknown += 1;
                                if !frames.is_empty() {
                                    return Err(("ack-yield:unrecorded-packet".into(), format!("on_packet_acked({pn}) yielded {frames:?} but packet {pn} carried no recorded frame")));
                                }
                            }
                            Some(p) => match p.status {
                                SStatus::Acked | SStatus::Gone => {
                                    st.repeated_acks += 1;
                                    if !frames.is_empty() {
                                        return Err((
                                            if p.status == SStatus::Acked { "ack-yield:twice".to_string() } else { "ack-yield:after-forgotten".to_string() },
                                            format!("on_packet_acked({pn}) yielded {frames:?} again; the packet was already {:?}", p.status),
                                        ));
                                    }
                                }
                                SStatus::Flight | SStatus::Lost => {
                                    let forgettable = p.status == SStatus::Lost && p.expire_at <= now;
                                    if frames.is_empty() && forgettable {
                                        st.forgotten_after_expiry += 1;
                                        p.status = SStatus::Gone;
                                    } else if multiset_eq(&frames, &p.frames) {
                                        st.frames_delivered += frames.len() as u64;
                                        st.ack_after_loss += (p.status == SStatus::Lost) as u64;
                                        p.status = SStatus::Acked;
                                    } else {
                                        return Err((
                                            if frames.is_empty() { "ack-yield:nothing".to_string() } else { "ack-yield:wrong-frames".to_string() },
                                            format!("on_packet_acked({pn}) yielded {frames:?}, packet {pn} ({:?}) carried {:?}", p.status, p.frames),
                                        ));
                                    }
                                }
                            },
                        }
                    }
                }
                SOp::Loss { pns } => {
                    let got = vcore::panics::catch(|| {
                        let mut g = j.rotate();
                        let mut out = vec![];
                        for pn in &pns {
                            out.push((*pn, g.may_loss_packet(*pn).collect::<Vec<u64>>()));
                        }
                        out
                    })
                    .map_err(|p| pmap("rotate/may_loss_packet", p))?;
                    let now = Instant::now();
                    for (pn, frames) in got {
                        st.loss_calls += 1;
                        match pkts.get_mut(&pn) {
                            None => {
                                if !frames.is_empty() {
                                    return Err(("loss-yield:unrecorded-packet".into(), format!("may_loss_packet({pn}) yielded {frames:?} but packet {pn} carried no recorded frame")));
                                }
                            }
                            Some(p) => match p.status {
                                SStatus::Acked | SStatus::Gone => {
                                    st.loss_after_ack += 1;
                                    if !frames.is_empty() {
                                        return Err(("loss-yield:after-ack".into(), format!("may_loss_packet({pn}) yielded {frames:?} although the packet was already {:?}", p.status)));
                                    }
                                }
                                SStatus::Flight | SStatus::Lost => {
                                    let forgettable = p.status == SStatus::Lost && p.expire_at <= now;
                                    if frames.is_empty() && forgettable {
                                        st.forgotten_after_expiry += 1;
                                        p.status = SStatus::Gone;
                                    } else if multiset_eq(&frames, &p.frames) {
                                        st.frames_reported_lost += frames.len() as u64;
                                        st.repeated_loss += (p.status == SStatus::Lost) as u64;
                                        p.status = SStatus::Lost;
                                    } else {
                                        return Err((
                                            if frames.is_empty() { "loss-yield:nothing".to_string() } else { "loss-yield:wrong-frames".to_string() },
                                            format!("may_loss_packet({pn}) yielded {frames:?}, unacknowledged packet {pn} ({:?}) carried {:?}", p.status, p.frames),
                                        ));
                                    }
                                }
                            },
                        }
                    }
                }
                SOp::FastRetx => {
                    st.fast_retx_calls += 1;
                    let now = Instant::now();
                    let got = vcore::panics::catch(|| {
                        let mut g = j.rotate();
                        g.fast_retransmit().collect::<Vec<u64>>()
                    })
                    .map_err(|p| pmap("fast_retransmit", p))?;
                    let mut exp = vec![];
                    for (pn, p) in pkts.iter_mut() {
                        if *pn < largest_acked && p.status == SStatus::Flight && p.retran_at < now {
                            exp.extend(p.frames.iter().copied());
                            p.status = SStatus::Lost;
                        }
                    }
                    st.fast_retx_frames += got.len() as u64;
                    if !multiset_eq(&got, &exp) {
                        return Err(("fast-retransmit".into(), format!("fast_retransmit yielded {got:?}; unacknowledged in-flight packets below the largest acknowledged ({largest_acked}) past their retransmit time carry {exp:?}")));
                    }
                }
            }
            Ok(())
        }
        .await;
        if let Err((c, d)) = res {
            fail = Some((step, c, d));
            break;
        }
        step += 1;
    }
    (fail, ops, st)
}

enum SSource<'a> {
    Gen { g: SGen, nops: usize },
    Replay(&'a [SOp]),
}

struct SGen {
    rng: Rng,
    style: u64,
}

impl SGen {
    fn some_pns(&mut self, next_pn: u64, pkts: &BTreeMap<u64, SPkt>, prefer_open: bool) -> Vec<u64> {
        let rng = &mut self.rng;
        let mut v = vec![];
        if next_pn == 0 {
            return v;
        }
        let open: Vec<u64> = pkts.iter().filter(|(_, p)| matches!(p.status, SStatus::Flight | SStatus::Lost)).map(|(k, _)| *k).collect();
        let n = rng.range(1, 5);
        for _ in 0..n {
            let base = if prefer_open && !open.is_empty() && rng.chance(3, 4) { *rng.pick(&open) } else { rng.below(next_pn) };
            let run = if rng.chance(1, 3) { rng.range(1, 4) } else { 1 };
            for k in 0..run {
                if base + k < next_pn {
                    v.push(base + k);
                }
            }
        }
        v.sort();
        v.dedup();
        v
    }
    fn next(&mut self, next_pn: u64, pkts: &BTreeMap<u64, SPkt>) -> SOp {
        let k = self.rng.below(100);
        let (w_send, w_ack, w_loss, w_fr) = match self.style {
            0 => (40, 25, 20, 3),
            1 => (30, 20, 35, 3),
            2 => (30, 40, 15, 3),
            _ => (40, 25, 22, 0),
        };
        if k < w_send || next_pn == 0 {
            let nframes = match self.rng.below(10) {
                0 | 1 => 0,
                2..=5 => 1,
                6 | 7 => self.rng.range(2, 4) as usize,
                8 => self.rng.range(5, 12) as usize,
                _ => self.rng.range(13, 40) as usize,
            };
            let trivial = self.rng.chance(1, 2);
            return SOp::Send {
                nframes,
                trivial,
                via_trivial: self.rng.bool(),
                retran_ms: *self.rng.pick(&[0u64, 5, 40, 125]),
                expire_ms: *self.rng.pick(&[1u64, 30, 100, 999]),
            };
        }
        if k < w_send + w_ack {
            return SOp::Ack { pns: self.some_pns(next_pn, pkts, true) };
        }
        if k < w_send + w_ack + w_loss {
            let mut pns = self.some_pns(next_pn, pkts, true);
            if self.rng.chance(1, 6) {
                // the same number reported twice in one batch
                if let Some(x) = pns.first().copied() {
                    pns.push(x);
                }
            }
            return SOp::Loss { pns };
        }
        if k < w_send + w_ack + w_loss + w_fr {
            return SOp::FastRetx;
        }
        SOp::Advance { ms: *self.rng.pick(&[1u64, 6, 31, 101, 1000]) }
    }
}

// ------------------------------------------------------------------------------------------------

fn add_rstats(rep: &mut Report, st: &RStats) {
    rep.add("rcvd_arrivals", st.arrivals);
    rep.add("rcvd_accepted", st.accepted);
    rep.add("rcvd_duplicates_rejected", st.dup_rejected);
    rep.add("rcvd_old_rejected", st.old_rejected);
    rep.add("rcvd_never_received_but_refused", st.fresh_refused);
    rep.add("rcvd_forged_not_registered", st.forged);
    rep.add("ack_frames_requested", st.frames);
    rep.add("ack_frames_complete", st.frames_complete);
    rep.add("ack_frames_truncated", st.frames_truncated);
    rep.add("ack_frames_refused", st.frames_refused);
    rep.add("acks_of_our_acks", st.acks_of_acks);
    rep.add("numbers_forgettable", st.numbers_forgotten);
    rep.add("late_arrivals_below_frontier", st.late_below_frontier);
    rep.max("max_ack_ranges", st.max_ranges);
    for h in &st.shapes {
        rep.set("ack_frame_shapes", *h);
    }
}

fn add_sstats(rep: &mut Report, st: &SStats) {
    rep.add("sent_packets", st.packets);
    rep.add("sent_packets_with_frames", st.packets_with_frames);
    rep.add("sent_trivial_packets", st.trivial_packets);
    rep.add("sent_abandoned_guards", st.abandoned_guards);
    rep.add("sent_frames_recorded", st.frames_recorded);
    rep.add("sent_ack_calls", st.ack_calls);
    rep.add("sent_frames_delivered", st.frames_delivered);
    rep.add("sent_repeated_acks", st.repeated_acks);
    rep.add("sent_ack_after_loss", st.ack_after_loss);
    rep.add("sent_ack_of_frameless_number", st.ack_unknown);
    rep.add("sent_loss_calls", st.loss_calls);
    rep.add("sent_frames_reported_lost", st.frames_reported_lost);
    rep.add("sent_repeated_loss", st.repeated_loss);
    rep.add("sent_loss_after_ack", st.loss_after_ack);
    rep.add("sent_forgotten_after_expiry", st.forgotten_after_expiry);
    rep.add("sent_fast_retransmit_calls", st.fast_retx_calls);
    rep.add("sent_fast_retransmit_frames", st.fast_retx_frames);
    rep.max("max_frames_per_packet", st.max_frames_per_packet);
}

fn fnv_json(leg: &str, ops: &[Value]) -> u64 {
    let mut h = vcore::fnv_str(leg);
    for o in ops {
        for b in o.to_string().bytes() {
            h = (h ^ b as u64).wrapping_mul(0x100000001b3);
        }
    }
    h
}

pub fn run(args: &Args, rep: &mut Report) {
    rep.rule = "history = op sequence on one journal (receive leg: arrivals / ACK generation / acks of our ACK packets / time; \
                send leg: packets with recorded frames / ack / loss / fast-retransmit / time); distinct = distinct (leg, op sequence) \
                hashes; non-trivial = receive leg: at least one capacity-truncated ACK frame and one duplicate refused; send leg: at \
                least one packet acknowledged after being declared lost or acknowledged twice"
        .into();
    let rt = tokio::runtime::Builder::new_current_thread().enable_time().start_paused(true).build().unwrap();
    if let Some(path) = args.get("replay") {
        let v: Value = serde_json::from_str(&std::fs::read_to_string(path).unwrap()).unwrap();
        let v = if v.get("replay").is_some() { v["replay"].clone() } else { v };
        rep.evaluations += 1;
        match v["leg"].as_str().unwrap_or("") {
            "rcvd" => {
                let ops: Vec<ROp> = v["ops"].as_array().unwrap().iter().map(ROp::from_json).collect();
                let (fails, ops, _) = rt.block_on(run_rcvd(RSource::Replay(&ops)));
                for (step, c, d) in fails {
                    rep.violation(format!("C10.{c}"), format!("rcvd leg, step {step}: {d}"), json!({"kind":"c10","leg":"rcvd","ops":ops[..=step].iter().map(|o|o.to_json()).collect::<Vec<_>>()}));
                }
            }
            "sent" => {
                let ops: Vec<SOp> = v["ops"].as_array().unwrap().iter().map(SOp::from_json).collect();
                let (fail, ops, _) = rt.block_on(run_sent(SSource::Replay(&ops)));
                if let Some((step, c, d)) = fail {
                    rep.violation(format!("C10.{c}"), format!("sent leg, step {step}: {d}"), json!({"kind":"c10","leg":"sent","ops":ops.iter().map(|o|o.to_json()).collect::<Vec<_>>()}));
                }
            }
            other => rep.inconclusive(format!("unknown leg {other:?}")),
        }
        return;
    }
    let thorough = args.get("tier") == Some("thorough");
    let shard = args.u64("shard", 0);
    let n = args.budget(if thorough { 40_000 } else { 2_000 });
    let mut rng = Rng::new(args.seed() ^ 0xc10).fork(shard);
    for i in 0..n {
        if i % 2 == 0 {
            let window = *rng.pick(&[4u64, 30, 300, 5000]);
            let g = RGen { rng: rng.fork(i), style: rng.below(3), window };
            let nops = match rng.below(4) {
                0 => rng.range(10, 60),
                1 | 2 => rng.range(60, 250),
                _ => rng.range(250, 900),
            } as usize;
            let (fails, ops, st) = rt.block_on(run_rcvd(RSource::Gen { g, nops }));
            rep.evaluations += 1;
            add_rstats(rep, &st);
            let js: Vec<Value> = ops.iter().map(|o| o.to_json()).collect();
            if st.frames_truncated > 0 && st.dup_rejected > 0 {
                rep.distinct(fnv_json("rcvd", &js));
            }
            if i < 2 {
                rep.sample(json!({"leg":"rcvd","n_ops":js.len(),"first_ops":js.iter().take(10).collect::<Vec<_>>()}));
            }
            for (step, c, d) in fails {
                rep.violation(format!("C10.{c}"), format!("rcvd leg, step {step}: {d}"), json!({"kind":"c10","leg":"rcvd","ops":js[..=step]}));
            }
        } else {
            let g = SGen { rng: rng.fork(i), style: rng.below(4) };
            let nops = match rng.below(4) {
                0 => rng.range(5, 40),
                1 | 2 => rng.range(40, 150),
                _ => rng.range(150, 500),
            } as usize;
            let (fail, ops, st) = rt.block_on(run_sent(SSource::Gen { g, nops }));
            rep.evaluations += 1;
            add_sstats(rep, &st);
            let js: Vec<Value> = ops.iter().map(|o| o.to_json()).collect();
            if st.ack_after_loss > 0 || st.repeated_acks > 0 {
                rep.distinct(fnv_json("sent", &js));
            }
            if i < 3 {
                rep.sample(json!({"leg":"sent","n_ops":js.len(),"first_ops":js.iter().take(10).collect::<Vec<_>>()}));
            }
            if let Some((step, c, d)) = fail {
                rep.violation(format!("C10.{c}"), format!("sent leg, step {step}: {d}"), json!({"kind":"c10","leg":"sent","ops":js}));
            }
        }
    }
    rep.add("histories", n);
}
