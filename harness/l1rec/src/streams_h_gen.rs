// (included by streams_h_app.rs) — limit ledger (C11/C12 oracle over the event log), op generator, case runner

/// RFC 9000 §18.2: which of the *receiver's* three initial_max_stream_data parameters limits what
/// `sender` may send on stream `sid`.
///  * initial_max_stream_data_bidi_local  — bidirectional streams opened by the endpoint that SENT the parameter
///  * initial_max_stream_data_bidi_remote — bidirectional streams opened by the endpoint that RECEIVED the parameter
///  * initial_max_stream_data_uni         — unidirectional streams opened by the endpoint that RECEIVED the parameter
/// Returns (value, name) or None if `sender` cannot send on that stream at all.
pub fn initial_stream_limit(cfg: &Cfg, sender: Side, sid: StreamId) -> Option<(u64, &'static str)> {
    let receiver = sender.peer();
    let p = &cfg.lim[receiver.ix()]; // the parameters the receiver sent
    let opener = Side::of(sid.role());
    match sid.dir() {
        Dir::Uni => {
            if opener == sender { Some((p.uni, "uni")) } else { None }
        }
        Dir::Bi => {
            if opener == receiver { Some((p.bidi_local, "bidi-local")) } else { Some((p.bidi_remote, "bidi-remote")) }
        }
    }
}

#[derive(Default, Debug, Clone)]
pub struct LedgerStats {
    pub stream_frames_checked: u64,
    pub frames_at_stream_limit: u64,
    pub frames_at_conn_limit: u64,
    pub credit_probes: u64,
    pub reset_final_sizes_checked: u64,
    pub reset_final_sizes_beyond_sent: u64,
    pub credit_probes_blocked: u64,
    pub max_data_delivered: u64,
    pub max_stream_data_delivered: u64,
    pub max_streams_delivered: u64,
    pub adv_checked: u64,
    pub opens_checked: u64,
    pub retx_bytes_free: u64,
    pub fresh_bytes: u64,
    pub resets_accounted: u64,
    pub limit_kinds: std::collections::BTreeSet<&'static str>,
}

pub struct Ledger {
    cfg: Cfg,
    stream_limit: BTreeMap<(usize, u64), u64>,
    conn_limit: [u64; 2],
    hwm: BTreeMap<(usize, u64), u64>,
    sent_new: [u64; 2],
    adv_max_data: [u64; 2],
    adv_msd: BTreeMap<(usize, u64), u64>,
    adv_max_streams: [[u64; 2]; 2],
    granted: [[u64; 2]; 2],
    next_open: [[u64; 2]; 2],
    rcvd_hwm: BTreeMap<(usize, u64), u64>,
    rcvd_total: [u64; 2],
    /// per receiving side and direction: 1 + highest index of a peer-initiated stream an accepted frame referred to
    pub referenced: [[u64; 2]; 2],
    /// per (receiving side, stream): bytes the stream layer reported as new to the connection-level controller
    counted: BTreeMap<(usize, u64), u64>,
    pub findings: Vec<Fail>,
    pub stats: LedgerStats,
    step: usize,
}

impl Ledger {
    pub fn new(cfg: &Cfg) -> Ledger {
        let l = &cfg.lim;
        Ledger {
            cfg: cfg.clone(),
            stream_limit: BTreeMap::new(),
            // limit in force at sender i = what the peer advertised
            conn_limit: [l[1].max_data, l[0].max_data],
            hwm: BTreeMap::new(),
            sent_new: [0, 0],
            adv_max_data: [l[0].max_data, l[1].max_data],
            adv_msd: BTreeMap::new(),
            adv_max_streams: [[l[0].streams_bidi, l[0].streams_uni], [l[1].streams_bidi, l[1].streams_uni]],
            // what opener i may open = what the peer advertised
            granted: [[l[1].streams_bidi, l[1].streams_uni], [l[0].streams_bidi, l[0].streams_uni]],
            next_open: [[0; 2]; 2],
            rcvd_hwm: BTreeMap::new(),
            rcvd_total: [0, 0],
            referenced: [[0; 2]; 2],
            counted: BTreeMap::new(),
            findings: vec![],
            stats: LedgerStats::default(),
            step: 0,
        }
    }

    fn find(&mut self, prop: &'static str, clause: impl Into<String>, detail: impl Into<String>) {
        if self.findings.len() < 16 {
            self.findings.push(Fail { prop, clause: clause.into(), detail: detail.into(), step: self.step });
        }
    }

    pub fn feed(&mut self, step: usize, events: &[Event]) {
        self.step = step;
        let trace = std::env::var_os("VERIF_TRACE").is_some();
        for e in events {
            if trace {
                eprintln!("[{step}] {e:?}   | conn_limit {:?} sent_new {:?}", self.conn_limit, self.sent_new);
            }
            self.one(e);
        }
    }

    fn one(&mut self, e: &Event) {
        match e {
            Event::Emitted { side, streams, pn, cap, .. } => {
                for f in streams {
                    self.stats.stream_frames_checked += 1;
                    let sid = f.stream_id();
                    let raw = sid_raw(sid);
                    let end = f.offset() + f.len() as u64;
                    let Some((init, name)) = initial_stream_limit(&self.cfg, *side, sid) else {
                        self.find("C12", "direction.sent-on-receive-only-stream", format!("{side:?} emitted STREAM on {sid} which it may only receive on"));
                        continue;
                    };
                    self.stats.limit_kinds.insert(name);
                    let lim = *self.stream_limit.entry((side.ix(), raw)).or_insert(init);
                    if end > lim {
                        self.find(
                            "C11",
                            format!("send.stream-limit-exceeded:{name}"),
                            format!("{side:?} emitted STREAM {sid} offset {} len {} (end {end}) in packet {pn} (cap {cap}); the peer's limit in force for this stream is {lim} (initial_max_stream_data_{name} = {init})", f.offset(), f.len()),
                        );
                    }
                    if end == lim && f.len() > 0 {
                        self.stats.frames_at_stream_limit += 1;
                    }
                    let h = self.hwm.entry((side.ix(), raw)).or_insert(0);
                    let fresh = end.saturating_sub(*h);
                    self.stats.fresh_bytes += fresh;
                    self.stats.retx_bytes_free += f.len() as u64 - fresh.min(f.len() as u64);
                    if end > *h {
                        *h = end;
                    }
                    self.sent_new[side.ix()] += fresh;
                    let cl = self.conn_limit[side.ix()];
                    if self.sent_new[side.ix()] > cl {
                        self.find(
                            "C11",
                            "send.conn-limit-exceeded",
                            format!("{side:?} emitted STREAM {sid} offset {} len {}: new bytes sent on all streams {} exceed the peer's MAX_DATA in force {cl}", f.offset(), f.len(), self.sent_new[side.ix()]),
                        );
                    }
                    if self.sent_new[side.ix()] == cl && fresh > 0 {
                        self.stats.frames_at_conn_limit += 1;
                    }
                    // stream-count: a STREAM frame on an own stream beyond the granted count
                    if Side::of(sid.role()) == *side && sid.id() >= self.granted[side.ix()][dir_u(sid.dir()) as usize] {
                        self.find("C12", "open.beyond-limit:frame", format!("{side:?} emitted STREAM on {sid}; peer granted only {} streams of that kind", self.granted[side.ix()][dir_u(sid.dir()) as usize]));
                    }
                }
            }
            Event::CreditProbe { side, available } => {
                self.stats.credit_probes += 1;
                let expect = self.conn_limit[side.ix()].saturating_sub(self.sent_new[side.ix()]);
                if expect == 0 {
                    self.stats.credit_probes_blocked += 1;
                }
                if *available < expect {
                    self.find(
                        "C11",
                        "credit.leak",
                        format!("{side:?}: connection send credit available {available}, but limit in force {} minus new bytes actually sent {} is {expect} (retransmission charged or unused credit not returned)", self.conn_limit[side.ix()], self.sent_new[side.ix()]),
                    );
                } else if *available > expect {
                    self.find(
                        "C11",
                        "credit.excess",
                        format!("{side:?}: connection send credit available {available}, but limit in force {} minus new bytes actually sent {} is {expect} (new bytes not charged)", self.conn_limit[side.ix()], self.sent_new[side.ix()]),
                    );
                }
            }
            Event::Delivered { to, frame, result } => {
                let ok = result.is_ok();
                // sender side: the final size a RESET_STREAM declares is flow-controlled like data (RFC 9000 §4.5):
                // it must not exceed the stream limit the peer has in force, and what it claims beyond the bytes
                // already sent is new data on the connection-level account
                if let DFrame::Ctl(Ctl::Sc(StreamCtlFrame::ResetStream(r))) = frame {
                    let sender = to.peer();
                    let sid = r.stream_id();
                    let raw = sid_raw(sid);
                    if let Some((init, name)) = initial_stream_limit(&self.cfg, sender, sid) {
                        self.stats.reset_final_sizes_checked += 1;
                        let lim = *self.stream_limit.entry((sender.ix(), raw)).or_insert(init);
                        if r.final_size() > lim {
                            self.find(
                                "C11",
                                format!("send.stream-limit-exceeded:reset-final-size:{name}"),
                                format!("{sender:?} sent RESET_STREAM for {sid} with final size {}; the peer's limit in force for this stream is {lim} (initial_max_stream_data_{name} = {init})", r.final_size()),
                            );
                        }
                        let h = self.hwm.entry((sender.ix(), raw)).or_insert(0);
                        if r.final_size() > *h {
                            self.stats.reset_final_sizes_beyond_sent += 1;
                            self.sent_new[sender.ix()] += r.final_size() - *h;
                            *h = r.final_size();
                        }
                    }
                }
                let refd = match frame {
                    DFrame::Stream(f) => Some(f.stream_id()),
                    DFrame::Ctl(Ctl::Sc(StreamCtlFrame::ResetStream(f))) => Some(f.stream_id()),
                    DFrame::Ctl(Ctl::Sc(StreamCtlFrame::StopSending(f))) => Some(f.stream_id()),
                    DFrame::Ctl(Ctl::Sc(StreamCtlFrame::MaxStreamData(f))) => Some(f.stream_id()),
                    DFrame::Ctl(Ctl::Sc(StreamCtlFrame::StreamDataBlocked(f))) => Some(f.stream_id()),
                    _ => None,
                };
                // connection-level accounting at the receiver (RFC 9000 §4.5: the final size is the amount of
                // flow-control credit a stream consumed): once a RESET_STREAM is accepted, the bytes reported
                // to the connection-level controller for that stream must add up to its final size
                if let Ok(n) = result {
                    match frame {
                        DFrame::Stream(f) => *self.counted.entry((to.ix(), sid_raw(f.stream_id()))).or_insert(0) += *n as u64,
                        DFrame::Ctl(Ctl::Sc(StreamCtlFrame::ResetStream(r))) => {
                            let c = self.counted.entry((to.ix(), sid_raw(r.stream_id()))).or_insert(0);
                            *c += *n as u64;
                            let c = *c;
                            self.stats.resets_accounted += 1;
                            if c != r.final_size() {
                                self.find(
                                    "C11",
                                    "recv.conn-accounting:reset-final-size-uncounted",
                                    format!("{to:?} accepted RESET_STREAM of {} with final size {}, but reported only {c} bytes of that stream to its connection-level flow controller (the sender charged {} against MAX_DATA)", r.stream_id(), r.final_size(), r.final_size()),
                                );
                            }
                        }
                        _ => {}
                    }
                }
                if let Some(sid) = refd {
                    if ok && Side::of(sid.role()) == to.peer() {
                        let r = &mut self.referenced[to.ix()][dir_u(sid.dir()) as usize];
                        *r = (*r).max(sid.id() + 1);
                    }
                }
                match frame {
                    DFrame::Ctl(Ctl::MaxData(m)) if ok => {
                        self.stats.max_data_delivered += 1;
                        let c = &mut self.conn_limit[to.ix()];
                        *c = (*c).max(m.max_data());
                    }
                    DFrame::Ctl(Ctl::Sc(StreamCtlFrame::MaxStreamData(m))) if ok => {
                        self.stats.max_stream_data_delivered += 1;
                        if let Some((init, _)) = initial_stream_limit(&self.cfg, *to, m.stream_id()) {
                            let c = self.stream_limit.entry((to.ix(), sid_raw(m.stream_id()))).or_insert(init);
                            *c = (*c).max(m.max_stream_data());
                        }
                    }
                    DFrame::Ctl(Ctl::Sc(StreamCtlFrame::MaxStreams(m))) if ok => {
                        self.stats.max_streams_delivered += 1;
                        let (d, v) = match m {
                            qbase::frame::MaxStreamsFrame::Bi(v) => (0, v.into_u64()),
                            qbase::frame::MaxStreamsFrame::Uni(v) => (1, v.into_u64()),
                        };
                        let c = &mut self.granted[to.ix()][d];
                        *c = (*c).max(v);
                    }
                    DFrame::Stream(f) => {
                        // receiver side: data beyond what the receiver ever advertised must be refused
                        let sender = to.peer();
                        let sid = f.stream_id();
                        let raw = sid_raw(sid);
                        let end = f.offset() + f.len() as u64;
                        if let Some((init, name)) = initial_stream_limit(&self.cfg, sender, sid) {
                            let adv = self.adv_msd.get(&(to.ix(), raw)).copied().unwrap_or(init).max(init);
                            let h = self.rcvd_hwm.entry((to.ix(), raw)).or_insert(0);
                            let fresh = end.saturating_sub(*h);
                            if end > *h {
                                *h = end;
                            }
                            self.rcvd_total[to.ix()] += fresh;
                            if ok && end > adv {
                                self.find("C11", format!("recv.stream-limit:{}-accepted", if f.is_fin() { "stream-fin" } else { "stream-no-fin" }), format!("({name}) {to:?} accepted STREAM {sid} offset {} len {} fin {} (end {end}) although it advertised at most {adv} for this stream", f.offset(), f.len(), f.is_fin()));
                            }
                            if ok && self.rcvd_total[to.ix()] > self.adv_max_data[to.ix()] {
                                self.find("C11", format!("recv.conn-limit:{}-accepted", if f.is_fin() { "stream-fin" } else { "stream-no-fin" }), format!("{to:?} accepted STREAM {sid} offset {} len {}: total received {} exceeds its advertised MAX_DATA {}", f.offset(), f.len(), self.rcvd_total[to.ix()], self.adv_max_data[to.ix()]));
                            }
                        }
                    }
                    _ => {}
                }
            }
            Event::Originated { side, ctl } => match ctl {
                Ctl::MaxData(m) => {
                    self.stats.adv_checked += 1;
                    let prev = self.adv_max_data[side.ix()];
                    if m.max_data() < prev {
                        self.find("C11", "advertise.max-data-decreased", format!("{side:?} originated MAX_DATA {} after having advertised {prev}", m.max_data()));
                    }
                    self.adv_max_data[side.ix()] = prev.max(m.max_data());
                }
                Ctl::Sc(StreamCtlFrame::MaxStreamData(m)) => {
                    self.stats.adv_checked += 1;
                    let sid = m.stream_id();
                    match initial_stream_limit(&self.cfg, side.peer(), sid) {
                        None => self.find("C12", "direction.max-stream-data-on-send-only-stream", format!("{side:?} originated MAX_STREAM_DATA for {sid} on which it never receives")),
                        Some((init, _)) => {
                            let prev = self.adv_msd.get(&(side.ix(), sid_raw(sid))).copied().unwrap_or(init);
                            if m.max_stream_data() < prev {
                                self.find("C11", "advertise.max-stream-data-decreased", format!("{side:?} originated MAX_STREAM_DATA {} for {sid} after having advertised {prev}", m.max_stream_data()));
                            }
                            self.adv_msd.insert((side.ix(), sid_raw(sid)), prev.max(m.max_stream_data()));
                        }
                    }
                }
                Ctl::Sc(StreamCtlFrame::MaxStreams(m)) => {
                    self.stats.adv_checked += 1;
                    let (d, v) = match m {
                        qbase::frame::MaxStreamsFrame::Bi(v) => (0, v.into_u64()),
                        qbase::frame::MaxStreamsFrame::Uni(v) => (1, v.into_u64()),
                    };
                    let prev = self.adv_max_streams[side.ix()][d];
                    if v < prev {
                        let strat = if self.cfg.demand[side.ix()] { "demand-concurrency" } else { "consistent-concurrency" };
                        self.find("C12", format!("advertise.max-streams-decreased:{strat}"), format!("{side:?} originated MAX_STREAMS({}) = {v} after having advertised {prev}", if d == 0 { "bidi" } else { "uni" }));
                    }
                    self.adv_max_streams[side.ix()][d] = prev.max(v);
                }
                _ => {}
            },
            Event::Opened { side, sid } => {
                self.stats.opens_checked += 1;
                let sid = StreamId::from(VarInt::from_u64(*sid).unwrap());
                let d = dir_u(sid.dir()) as usize;
                let want = self.next_open[side.ix()][d];
                if sid.id() != want {
                    self.find("C12", "open.out-of-order", format!("{side:?} opened {sid}, expected index {want}"));
                }
                self.next_open[side.ix()][d] = sid.id() + 1;
                let g = self.granted[side.ix()][d];
                if sid.id() >= g {
                    self.find("C12", "open.beyond-limit", format!("{side:?} opened {sid} although the peer's limit in force allows only {g} streams of that kind"));
                }
            }
            _ => {}
        }
    }
}

// ------------------------------------------------------------------------------------------------
// generator

#[derive(Clone, Copy, PartialEq, Debug)]
pub enum Profile {
    C01,
    C11,
    C12,
}

pub fn gen_cfg(rng: &mut Rng, prof: Profile) -> Cfg {
    let mut lim = vec![];
    for _ in 0..2 {
        let l = match prof {
            Profile::C01 => {
                let w = *rng.pick(&[100u64, 1000, 4096, 65536, 1 << 20]);
                let streams = [1u64, 2, 4, 8, 100];
                Limits {
                    max_data: *rng.pick(&[1000u64, 4096, 65536, 1 << 20, 1 << 24]),
                    bidi_local: *rng.pick(&[100u64, 1000, 4096, 65536, 1 << 20]),
                    // equal uni / bidi-remote: the unequal case belongs to C11
                    bidi_remote: w,
                    uni: w,
                    streams_bidi: *rng.pick(&streams),
                    streams_uni: *rng.pick(&streams),
                }
            }
            Profile::C11 => {
                let v = [0u64, 1, 100, 1000, 65536, 1 << 20];
                let br = *rng.pick(&v);
                Limits {
                    max_data: *rng.pick(&v),
                    bidi_local: *rng.pick(&v),
                    bidi_remote: br,
                    // one case in three keeps uni == bidi_remote so that the history is not cut short by the
                    // known uni-window defect (C11.send.stream-limit-exceeded:uni)
                    uni: if rng.chance(1, 3) { br } else { *rng.pick(&v) },
                    streams_bidi: *rng.pick(&[1u64, 2, 4, 100]),
                    streams_uni: *rng.pick(&[1u64, 2, 4, 100]),
                }
            }
            Profile::C12 => {
                let v = [0u64, 1, 2, 10, 100];
                let w = *rng.pick(&[1000u64, 1 << 20]);
                Limits {
                    max_data: 1 << 24,
                    bidi_local: *rng.pick(&[1000u64, 1 << 20]),
                    // equal uni / bidi-remote: the unequal case belongs to C11
                    bidi_remote: w,
                    uni: w,
                    streams_bidi: *rng.pick(&v),
                    streams_uni: *rng.pick(&v),
                }
            }
        };
        lim.push(l);
    }
    Cfg { lim: [lim[0].clone(), lim[1].clone()], demand: [rng.bool(), rng.bool()], cseed: rng.next_u64() }
}

fn gen_pkt(rng: &mut Rng, side: Side, lossy: bool) -> Op {
    let cap = match rng.below(10) {
        0 | 1 => rng.range(26, 40) as usize,
        2 => 64,
        3 | 4 => 300,
        5 | 6 | 7 => 1200,
        8 => 1452,
        _ => 65535,
    };
    let nctl = *rng.pick(&[0usize, 1, 2, 255, 255, 255]);
    if !lossy {
        return Op::Pkt { side, cap, nctl, delays: vec![1], loss: vec![], ack: Some(1 + rng.below(3) as u32) };
    }
    let (delays, loss, ack): (Vec<u32>, Vec<u32>, Option<u32>) = match rng.below(100) {
        0..=11 => {
            // dropped
            let l = match rng.below(10) {
                0 => vec![],
                1 | 2 => {
                    let a = rng.range(1, 10) as u32;
                    vec![a, a + rng.range(1, 8) as u32]
                }
                _ => vec![rng.range(1, 20) as u32],
            };
            (vec![], l, None)
        }
        12..=26 => {
            // delayed
            let d = rng.range(2, 12) as u32;
            match rng.below(4) {
                0 => (vec![d], vec![rng.range(1, d as u64) as u32], Some(d + rng.range(0, 6) as u32)), // declared lost while in flight, acked later
                1 => (vec![d], vec![], None),
                _ => (vec![d], vec![], Some(d + rng.range(0, 6) as u32)),
            }
        }
        27..=34 => {
            // duplicated
            let n = rng.range(2, 3);
            let ds: Vec<u32> = (0..n).map(|_| rng.range(1, 10) as u32).collect();
            let first = *ds.iter().min().unwrap();
            (ds, if rng.chance(1, 4) { vec![rng.range(1, 12) as u32] } else { vec![] }, Some(first + rng.range(0, 5) as u32))
        }
        _ => {
            // delivered on the next tick
            match rng.below(20) {
                0 | 1 => (vec![1], vec![rng.range(1, 6) as u32], Some(rng.range(2, 12) as u32)), // spurious loss, ack after loss
                2 => (vec![1], vec![rng.range(1, 6) as u32], None),                                  // spurious loss, ack only when the net turns clean
                3 => (vec![1], vec![2, 4], Some(rng.range(5, 9) as u32)),                            // repeated loss then ack
                4 | 5 => (vec![1], vec![], None),                                                    // ack delayed to the clean phase
                _ => (vec![1], vec![], Some(1 + rng.range(0, 5) as u32)),
            }
        }
    };
    Op::Pkt { side, cap, nctl, delays, loss, ack }
}

pub fn gen_ops(rng: &mut Rng, prof: Profile, cfg: &Cfg) -> Vec<Op> {
    let side = |rng: &mut Rng| if rng.bool() { Side::C } else { Side::S };
    let dir = |rng: &mut Rng| if rng.chance(3, 5) { Dir::Bi } else { Dir::Uni };
    let small_conn = cfg.lim.iter().any(|l| l.max_data < 65536);
    let n = match prof {
        Profile::C12 => rng.range(20, 120),
        _ => rng.range(20, 180),
    } as usize;
    let lossy = !rng.chance(1, 10);
    let mut ops = vec![];
    for _ in 0..rng.range(1, 4) {
        ops.push(Op::Open { side: side(rng), dir: dir(rng) });
    }
    let sizes_big: [usize; 9] = [0, 1, 2, 63, 64, 4095, 4096, 4097, 65536];
    let sizes_small: [usize; 7] = [0, 1, 2, 63, 64, 1000, 1999];
    let open_w = if prof == Profile::C12 { 22 } else { 7 };
    for _ in 0..n {
        let r = rng.below(100 + open_w);
        let op = match r {
            0..=17 => {
                let len = if rng.chance(1, 4) {
                    rng.range(0, if small_conn { 2000 } else { 20000 }) as usize
                } else if small_conn || prof != Profile::C01 && rng.chance(2, 3) {
                    *rng.pick(&sizes_small)
                } else {
                    *rng.pick(&sizes_big)
                };
                Op::Write { side: side(rng), slot: rng.usize(8), len, mode: rng.below(3) as u8 }
            }
            18..=21 => Op::Shutdown { side: side(rng), slot: rng.usize(8) },
            22..=24 => Op::Flush { side: side(rng), slot: rng.usize(8) },
            25 => {
                if rng.chance(1, 2) {
                    Op::Cancel { side: side(rng), slot: rng.usize(8), code: 100 + rng.below(1000) }
                } else {
                    Op::Stop { side: side(rng), slot: rng.usize(8), code: 2000 + rng.below(1000) }
                }
            }
            26..=41 => Op::Read { side: side(rng), slot: rng.usize(8), cap: *rng.pick(&[1usize, 7, 100, 4096, 65536]), mode: rng.below(3) as u8 },
            42..=47 => Op::Accept { side: side(rng) },
            48..=81 => {
                let sd = side(rng);
                gen_pkt(rng, sd, lossy)
            }
            82..=99 => Op::Tick { n: rng.range(1, 4) as u32 },
            _ => Op::Open { side: side(rng), dir: dir(rng) },
        };
        ops.push(op);
    }
    ops
}

// ------------------------------------------------------------------------------------------------
// case runner

pub struct CaseOut {
    /// every oracle failure of the case, all properties
    pub fails: Vec<Fail>,
    pub stats: Stats,
    pub ledger: LedgerStats,
    pub steps_run: usize,
    pub final_rounds: u64,
    pub k_bound: u64,
    pub completed: bool,
    pub stuck: bool,
    pub flows: usize,
    pub dead: Option<(Side, String, String)>,
    pub inconclusive: Option<String>,
    pub state_hash: u64,
}

/// Run one case: explicit ops, then (if `final_phase`) the clean-network pump with bounded liveness.
/// `demand_liveness`: a fixpoint / bound overrun with unfinished streams is a C01 failure.
pub fn run_case(cfg: &Cfg, ops: &[Op], final_phase: bool, demand_liveness: bool) -> CaseOut {
    let mut sim = Sim::new(cfg.clone());
    let mut led = Ledger::new(cfg);
    let mut out = CaseOut {
        fails: vec![],
        stats: Stats::default(),
        ledger: LedgerStats::default(),
        steps_run: 0,
        final_rounds: 0,
        k_bound: 0,
        completed: false,
        stuck: false,
        flows: 0,
        dead: None,
        inconclusive: None,
        state_hash: 0,
    };
    let mut stop = false;
    for (i, op) in ops.iter().enumerate() {
        sim.step = i;
        sim.apply(op);
        let ev = std::mem::take(&mut sim.events);
        led.feed(i, &ev);
        out.steps_run = i + 1;
        if !sim.fails.is_empty() || !led.findings.is_empty() || sim.dead.is_some() {
            stop = true;
            break;
        }
    }
    if !stop && final_phase {
        sim.step = ops.len();
        sim.begin_final();
        let ev = std::mem::take(&mut sim.events);
        led.feed(ops.len(), &ev);
        let flows = sim.app.flows.len() as u64;
        let outstanding = sim.outstanding_frames();
        let mut allowance = 0u64;
        for s in [Side::C, Side::S] {
            let unread: u64 = sim.app.flows.iter().filter(|f| f.from == s).map(|f| f.written.saturating_sub(f.nread)).sum();
            let step = (cfg.lim[s.peer().ix()].max_data / 2).max(1);
            allowance = allowance.max(3 * unread.div_ceil(step));
        }
        let k = 4 * (flows + outstanding) + 16 + allowance;
        out.k_bound = k;
        let mut rounds = 0u64;
        loop {
            if !sim.fails.is_empty() || !led.findings.is_empty() || sim.dead.is_some() {
                break;
            }
            if sim.all_done() {
                out.completed = true;
                break;
            }
            if rounds > k {
                if demand_liveness {
                    let d = format!("after the network turned clean, {rounds} pump rounds (bound K = {k}: {flows} flows, {outstanding} outstanding frames, flow-control allowance {allowance}) did not finish: {}", sim.undone());
                    sim.fail("C01", "liveness.bound", d);
                }
                break;
            }
            sim.step = ops.len() + 1 + rounds as usize;
            let p = sim.pump_round(1200);
            let ev = std::mem::take(&mut sim.events);
            led.feed(sim.step, &ev);
            rounds += 1;
            if p == 0 && !sim.all_done() && sim.dead.is_none() && sim.fails.is_empty() {
                out.stuck = true;
                if demand_liveness {
                    let d = format!("fixpoint after {rounds} clean pump rounds: nothing left to send, deliver, acknowledge or wake, but streams are unfinished: {}", sim.undone());
                    sim.fail("C01", "liveness.stuck", d);
                }
                break;
            }
        }
        out.final_rounds = rounds;
        // implicit open: exactly the streams the peer referred to (and all lower ones) were offered, each once, in order
        if sim.dead.is_none() && sim.fails.is_empty() && led.findings.is_empty() {
            for side in [Side::C, Side::S] {
                sim.op_accept(side);
                for d in 0..2 {
                    let got = sim.app.accepted[side.ix()][d].len() as u64;
                    let want = led.referenced[side.ix()][d];
                    if got != want {
                        sim.fail("C12", "implicit-open.count", format!("{side:?} accepted {got} {} streams, but accepted frames referred to peer stream indices up to {want} (exclusive)", if d == 0 { "bidi" } else { "uni" }));
                    }
                }
            }
            let ev = std::mem::take(&mut sim.events);
            led.feed(sim.step, &ev);
        }
    }
    out.fails.extend(led.findings.iter().cloned());
    let had_root_cause = !out.fails.is_empty();
    out.fails.extend(sim.fails.iter().cloned());
    if let Some((side, kind, reason)) = &sim.dead {
        if kind != "panic" && !had_root_cause && sim.fails.is_empty() {
            out.fails.push(Fail { prop: "C01", clause: format!("conn-error:{kind}"), detail: format!("honest traffic made {side:?} raise a connection error: {reason}"), step: sim.step });
        }
    }
    out.dead = sim.dead.clone();
    out.flows = sim.app.flows.len();
    let mut h = 0xcbf29ce484222325u64;
    for f in &sim.app.flows {
        for x in [sid_raw(f.sid), f.from as u64, f.written.min(3), f.nread.min(3), f.rend.map_or(0, |r| if r == REnd::Eof { 1 } else { 2 }), f.wend.map_or(0, |r| if r == WEnd::Ok { 1 } else { 2 })] {
            h = (h ^ x).wrapping_mul(0x100000001b3);
        }
    }
    out.state_hash = h;
    out.stats = sim.stats.clone();
    out.ledger = led.stats.clone();
    if out.dead.as_ref().is_some_and(|d| d.1 == "panic") {
        // a panic inside the library poisons its mutexes; dropping Reader / Writer would panic again
        std::mem::forget(sim);
    }
    out
}

pub fn case_replay(kind: &str, cfg: &Cfg, ops: &[Op], upto: usize, final_phase: bool) -> Value {
    let n = upto.min(ops.len());
    let keep_final = final_phase && upto >= ops.len();
    json!({"kind": kind, "cfg": cfg.to_json(), "ops": ops[..n].iter().map(|o| o.to_json()).collect::<Vec<_>>(), "final": keep_final})
}

pub fn case_from_replay(v: &Value) -> (Cfg, Vec<Op>, bool) {
    let cfg = Cfg::from_json(&v["cfg"]);
    let ops = v["ops"].as_array().unwrap().iter().map(Op::from_json).collect();
    (cfg, ops, v["final"].as_bool().unwrap_or(false))
}

pub fn add_stats(rep: &mut vcore::Report, s: &Stats, l: &LedgerStats) {
    for (k, v) in [
        ("packets", s.packets),
        ("stream_frames", s.stream_frames),
        ("fin_frames", s.fin_frames),
        ("ctl_frames", s.ctl_frames),
        ("retransmitted_stream_frames", s.retx_stream_frames),
        ("retransmitted_ctl_frames", s.retx_ctl_frames),
        ("pkts_dropped", s.dropped),
        ("pkts_duplicated", s.duplicated),
        ("pkts_delayed", s.delayed),
        ("reordered_deliveries", s.reordered_deliveries),
        ("acks", s.acks),
        ("losses", s.losses),
        ("spurious_losses", s.spurious_losses),
        ("ack_after_loss", s.ack_after_loss),
        ("repeated_loss", s.repeated_loss),
        ("range_acked_twice", s.range_acked_twice),
        ("loss_after_range_acked", s.loss_after_range_acked),
        ("bytes_read_and_verified", s.bytes_read),
        ("bytes_written", s.bytes_written),
        ("eofs", s.eofs),
        ("resets_seen_by_reader", s.resets_seen),
        ("shutdown_ok", s.shutdown_ok),
        ("flush_ok", s.flush_ok),
        ("write_pending", s.write_pending),
        ("read_pending", s.read_pending),
        ("opens", s.opens),
        ("open_blocked", s.open_blocked),
        ("accepts", s.accepts),
        ("pump_rounds", s.pump_rounds),
        ("ledger_stream_frames_checked", l.stream_frames_checked),
        ("ledger_frames_exactly_at_stream_limit", l.frames_at_stream_limit),
        ("ledger_frames_exactly_at_conn_limit", l.frames_at_conn_limit),
        ("ledger_credit_probes", l.credit_probes),
        ("ledger_reset_final_sizes_checked", l.reset_final_sizes_checked),
        ("ledger_reset_final_sizes_beyond_bytes_sent", l.reset_final_sizes_beyond_sent),
        ("ledger_credit_probes_while_blocked", l.credit_probes_blocked),
        ("ledger_max_data_delivered", l.max_data_delivered),
        ("ledger_max_stream_data_delivered", l.max_stream_data_delivered),
        ("ledger_max_streams_delivered", l.max_streams_delivered),
        ("ledger_advertisements_checked", l.adv_checked),
        ("ledger_opens_checked", l.opens_checked),
        ("ledger_retransmitted_bytes_free", l.retx_bytes_free),
        ("ledger_fresh_bytes", l.fresh_bytes),
        ("ledger_resets_accounted", l.resets_accounted),
    ] {
        rep.add(k, v);
    }
    for c in &s.caps {
        rep.set("packet_capacities", *c as u64);
    }
    for c in &s.ctl_kinds {
        rep.set("ctl_frame_kinds_originated", vcore::fnv_str(c));
    }
    for c in &l.limit_kinds {
        rep.set("stream_limit_kinds_checked", vcore::fnv_str(c));
    }
}

include!("streams_h_hostile.rs");
