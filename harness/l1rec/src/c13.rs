//! C13 — loss detection and congestion control follow RFC 9002.
//!
//! The real `qcongestion::ArcCC` (NewReno) is driven through the `Transport` trait under tokio
//! paused time by generated histories (sends, ACK frames, clock advances, ticks, epoch discards,
//! handshake-phase toggles).  The harness keeps a ledger `pn -> {epoch,size,t_sent,flags,status}`
//! that is updated only from what the harness itself did (sent / acked / discarded) and from the
//! `Feedback::may_loss` call-backs; after every operation the read-only `verif_snapshot()` is
//! compared with the ledger and with the RFC 9002 rules.  Oracle clauses (each with its own
//! signature `C13.<clause>[:trigger]`):
//!   a loss.later-ack   b loss.threshold   c loss.not-acked   d timer.coverage   e pto.doubling
//!   f cwnd.floor       g cwnd.shrink-once h cwnd.grow        i bif.conservation j window
use std::{
    collections::{BTreeMap, BTreeSet, HashSet},
    sync::{Arc, Mutex, atomic::AtomicU16},
};

use qbase::{
    Epoch,
    frame::{AckFrame, EcnCounts},
    net::tx::ArcSendWaker,
    varint::VarInt,
};
use qcongestion::{Algorithm, ArcCC, Feedback, HandshakeStatus, PathStatus, Transport, VerifSnapshot};
use qevent::quic::recovery::PacketLostTrigger;
use serde_json::{Value, json};
use tokio::time::{Duration, Instant};
use vcore::{Args, Report, Rng};

const EP: [&str; 3] = ["initial", "handshake", "data"];
const MS: Duration = Duration::from_millis(1);

// ------------------------------------------------------------------------------------------------
// operations
// ------------------------------------------------------------------------------------------------

#[derive(Clone, Debug)]
pub enum Op {
    /// `on_pkt_sent(epoch, pn, ack_eliciting, size, in_flight, ack)`
    Send { e: usize, pn: u64, size: usize, ae: bool, inf: bool, ack: Option<u64> },
    /// `send_quota()`
    Quota,
    /// `on_ack_rcvd(epoch, AckFrame)`; ranges are (lo, hi), descending, separated by >= 1 missing pn
    Ack { e: usize, ranges: Vec<(u64, u64)>, delay: u64, ecn: Option<[u64; 3]> },
    /// `tokio::time::advance`
    Adv { us: u64 },
    /// `do_tick()`
    Tick,
    /// `discard_epoch(epoch)`
    Discard { e: usize },
    HsKey,
    HsAck,
    HsDone,
    /// what `Path::on_packet_rcvd` does: release the anti-amplification limit, then `on_pkt_rcvd`
    Rcvd { e: usize, pn: u64, ae: bool },
    /// `grant_anti_amplification()`
    Grant,
    /// `PathStatus::enter_anti_amplification_limit()` (server ran out of credit)
    EnterAmp,
}

impl Op {
    fn kind(&self) -> &'static str {
        match self {
            Op::Send { .. } => "send",
            Op::Quota => "quota",
            Op::Ack { .. } => "ack",
            Op::Adv { .. } => "advance",
            Op::Tick => "tick",
            Op::Discard { .. } => "discard",
            Op::HsKey => "hskey",
            Op::HsAck => "hsack",
            Op::HsDone => "hsdone",
            Op::Rcvd { .. } => "rcvd",
            Op::Grant => "grant",
            Op::EnterAmp => "enteramp",
        }
    }
    fn to_json(&self) -> Value {
        match self {
            Op::Send { e, pn, size, ae, inf, ack } => json!(["send", e, pn, size, ae, inf, ack]),
            Op::Quota => json!(["quota"]),
            Op::Ack { e, ranges, delay, ecn } => json!(["ack", e, ranges, delay, ecn]),
            Op::Adv { us } => json!(["adv", us]),
            Op::Tick => json!(["tick"]),
            Op::Discard { e } => json!(["discard", e]),
            Op::HsKey => json!(["hskey"]),
            Op::HsAck => json!(["hsack"]),
            Op::HsDone => json!(["hsdone"]),
            Op::Rcvd { e, pn, ae } => json!(["rcvd", e, pn, ae]),
            Op::Grant => json!(["grant"]),
            Op::EnterAmp => json!(["enteramp"]),
        }
    }
    fn from_json(v: &Value) -> Op {
        let u = |i: usize| v[i].as_u64().unwrap();
        match v[0].as_str().unwrap() {
            "send" => Op::Send {
                e: u(1) as usize,
                pn: u(2),
                size: u(3) as usize,
                ae: v[4].as_bool().unwrap(),
                inf: v[5].as_bool().unwrap(),
                ack: v[6].as_u64(),
            },
            "quota" => Op::Quota,
            "ack" => Op::Ack {
                e: u(1) as usize,
                ranges: v[2].as_array().unwrap().iter().map(|r| (r[0].as_u64().unwrap(), r[1].as_u64().unwrap())).collect(),
                delay: u(3),
                ecn: v[4].as_array().map(|a| [a[0].as_u64().unwrap(), a[1].as_u64().unwrap(), a[2].as_u64().unwrap()]),
            },
            "adv" => Op::Adv { us: u(1) },
            "tick" => Op::Tick,
            "discard" => Op::Discard { e: u(1) as usize },
            "hskey" => Op::HsKey,
            "hsack" => Op::HsAck,
            "hsdone" => Op::HsDone,
            "rcvd" => Op::Rcvd { e: u(1) as usize, pn: u(2), ae: v[3].as_bool().unwrap() },
            "grant" => Op::Grant,
            "enteramp" => Op::EnterAmp,
            other => panic!("unknown op {other}"),
        }
    }
}

#[derive(Clone, Debug)]
pub struct Scenario {
    server: bool,
    mtu: u16,
    mad_ms: u64,
}

impl Scenario {
    fn to_json(&self) -> Value {
        json!({"server": self.server, "mtu": self.mtu, "mad_ms": self.mad_ms})
    }
    fn from_json(v: &Value) -> Scenario {
        Scenario {
            server: v["server"].as_bool().unwrap(),
            mtu: v["mtu"].as_u64().unwrap() as u16,
            mad_ms: v["mad_ms"].as_u64().unwrap(),
        }
    }
}

fn ack_frame(ranges: &[(u64, u64)], delay: u64, ecn: Option<[u64; 3]>) -> AckFrame {
    let vi = |x: u64| VarInt::from_u64(x).unwrap();
    let (lo0, hi0) = ranges[0];
    let mut prev_lo = lo0;
    let mut rest = vec![];
    for &(lo, hi) in &ranges[1..] {
        rest.push((vi(prev_lo - hi - 2), vi(hi - lo)));
        prev_lo = lo;
    }
    AckFrame::new(vi(hi0), vi(delay), vi(hi0 - lo0), rest, ecn.map(|c| EcnCounts::new(vi(c[0]), vi(c[1]), vi(c[2]))))
}

// ------------------------------------------------------------------------------------------------
// the monitored system: real controller + ledger + oracle
// ------------------------------------------------------------------------------------------------

#[derive(Clone, Copy, PartialEq, Eq, Debug)]
enum St {
    Out,
    Acked,
    Lost,
    Disc,
}

#[derive(Clone, Debug)]
struct Pkt {
    size: usize,
    t: Instant,
    ae: bool,
    inf: bool,
    st: St,
}

struct Tracker {
    e: usize,
    log: Arc<Mutex<Vec<(usize, Vec<u64>)>>>,
}

impl Feedback for Tracker {
    fn may_loss(&self, _trigger: PacketLostTrigger, pns: &mut dyn Iterator<Item = u64>) {
        self.log.lock().unwrap().push((self.e, pns.collect()));
    }
}

pub struct Fail {
    sig: String,
    what: String,
    step: usize,
}

struct Sim {
    sc: Scenario,
    cc: ArcCC,
    status: PathStatus,
    hs: Arc<HandshakeStatus>,
    t0: Instant,
    log: Arc<Mutex<Vec<(usize, Vec<u64>)>>>,
    // ledger
    led: [BTreeMap<u64, Pkt>; 3],
    largest_acked: [Option<u64>; 3],
    discarded: [bool; 3],
    last_ae: [Option<Instant>; 3],
    out_ae: [usize; 3],
    led_bif: usize,
    bif_delta: i64,
    ce_max: [u64; 3],
    // phase flags as the harness set them
    amp_limited: bool,
    hs_key: bool,
    hs_ack: bool,
    hs_done: bool,
    // oracle state
    pre: VerifSnapshot,
    last_dec: Option<Instant>,
    /// like `last_dec` but not forgotten at a persistent-congestion collapse (statistics only)
    last_dec_shadow: Option<Instant>,
    last_progress: Instant,
    bound_since_progress: Duration,
    bound_max: Duration,
    chain: Vec<(Instant, u32)>, // PTO expiries with nothing but advance/tick in between: (time, pto_count before)
    // results
    nops: usize,
    dead: bool,
    abandoned: bool,
    last_quota: Option<usize>,
    fails: Vec<Fail>,
    fail_sigs: HashSet<String>,
    stats: BTreeMap<&'static str, u64>,
    states: HashSet<u64>,
    n_loss: u64,
    n_newack: u64,
    n_cwnd_change: u64,
    trace: bool,
}

fn dur_us(d: Duration) -> u64 {
    d.as_micros() as u64
}

impl Sim {
    fn new(sc: &Scenario) -> Sim {
        let log = Arc::new(Mutex::new(Vec::new()));
        let hs = Arc::new(HandshakeStatus::new(sc.server));
        let status = PathStatus::new(hs.clone(), Arc::new(AtomicU16::new(sc.mtu)));
        let trackers: [Arc<dyn Feedback>; 3] = [
            Arc::new(Tracker { e: 0, log: log.clone() }),
            Arc::new(Tracker { e: 1, log: log.clone() }),
            Arc::new(Tracker { e: 2, log: log.clone() }),
        ];
        let cc = ArcCC::new(Algorithm::NewReno, Duration::from_millis(sc.mad_ms), trackers, status.clone(), ArcSendWaker::new());
        let pre = cc.verif_snapshot();
        let now = Instant::now();
        Sim {
            sc: sc.clone(),
            cc,
            status,
            hs,
            t0: now,
            log,
            led: Default::default(),
            largest_acked: [None; 3],
            discarded: [false; 3],
            last_ae: [None; 3],
            out_ae: [0; 3],
            led_bif: 0,
            bif_delta: 0,
            ce_max: [0; 3],
            amp_limited: true,
            hs_key: false,
            hs_ack: false,
            hs_done: false,
            pre,
            last_dec: None,
            last_dec_shadow: None,
            last_progress: now,
            bound_since_progress: Duration::ZERO,
            bound_max: Duration::ZERO,
            chain: vec![],
            nops: 0,
            dead: false,
            abandoned: false,
            last_quota: None,
            fails: vec![],
            fail_sigs: HashSet::new(),
            stats: BTreeMap::new(),
            states: HashSet::new(),
            n_loss: 0,
            n_newack: 0,
            n_cwnd_change: 0,
            trace: false,
        }
    }

    fn mtu(&self) -> usize {
        self.sc.mtu as usize
    }
    fn us(&self, t: Instant) -> u64 {
        dur_us(t.saturating_duration_since(self.t0))
    }
    fn us_ceil(&self, t: Instant) -> u64 {
        (t.saturating_duration_since(self.t0).as_nanos() as u64).div_ceil(1000)
    }
    fn now_us(&self) -> u64 {
        self.us(Instant::now())
    }
    fn stat(&mut self, k: &'static str) {
        *self.stats.entry(k).or_insert(0) += 1;
    }
    fn stat_max(&mut self, k: &'static str, v: u64) {
        let e = self.stats.entry(k).or_insert(0);
        *e = (*e).max(v);
    }
    fn fail(&mut self, sig: String, what: String) {
        if self.fail_sigs.insert(sig.clone()) {
            self.fails.push(Fail { sig, what, step: self.nops - 1 });
        }
    }
    fn peer_validated(&self) -> bool {
        self.sc.server || self.hs_ack || self.hs_done
    }
    /// an outstanding ack-eliciting in-flight packet that the RFC requires a timer for
    fn eligible_outstanding(&self) -> bool {
        self.out_ae[0] > 0 || self.out_ae[1] > 0 || (self.out_ae[2] > 0 && self.hs_done)
    }
    fn set_status(&mut self, e: usize, pn: u64, st: St) {
        let p = self.led[e].get_mut(&pn).unwrap();
        if p.st == St::Out {
            if p.inf {
                self.led_bif -= p.size;
            }
            if p.ae && p.inf {
                self.out_ae[e] -= 1;
            }
        }
        p.st = st;
    }
    fn mark_discarded(&mut self, e: usize) {
        let pns: Vec<u64> = self.led[e].iter().filter(|(_, p)| p.st == St::Out).map(|(pn, _)| *pn).collect();
        for pn in pns {
            self.set_status(e, pn, St::Disc);
        }
        self.discarded[e] = true;
        self.last_ae[e] = None;
    }

    /// RFC 9002 A.8 GetPtoTimeAndSpace with the controller's own RTT estimate; `doubled_all` = false
    /// computes the variant in which only the rttvar term is backed off.
    fn rfc_pto_timer(&self, s: &VerifSnapshot, now: Instant, whole_backoff: bool) -> Option<Instant> {
        let k = s.pto_count.min(20);
        let var = std::cmp::max(4 * s.rttvar, MS);
        let d = if whole_backoff { (s.smoothed_rtt + var) * (1 << k) } else { s.smoothed_rtt + var * (1 << k) };
        let any_ae = (0..3).any(|e| self.led[e].values().any(|p| p.st == St::Out && p.ae));
        if !any_ae {
            if self.peer_validated() {
                return None;
            }
            return Some(now + d);
        }
        let mut t: Option<Instant> = None;
        for e in 0..3 {
            if !self.led[e].values().any(|p| p.st == St::Out && p.ae) {
                continue;
            }
            let mut dur = d;
            if e == 2 {
                if !self.hs_done {
                    return t;
                }
                dur += s.max_ack_delay * (1 << k);
            }
            let Some(last) = self.last_ae[e] else { continue };
            let cand = last + dur;
            if t.is_none_or(|x| cand < x) {
                t = Some(cand);
            }
        }
        t
    }

    async fn apply(&mut self, op: &Op) {
        if self.dead {
            return;
        }
        self.nops += 1;
        let kind = op.kind();
        let mut newly: Vec<(usize, u64, bool)> = vec![]; // (epoch, pn, was declared lost before)
        // RTT sample this ACK must produce (RFC 9002 5.1): its largest acknowledged packet is newly acknowledged
        // (and was still outstanding for the controller) and ack-eliciting
        let mut rtt_sample: Option<Duration> = None;
        let mut ce_up: Option<usize> = None;
        let mut tick_err = false;
        let mut quota: Option<Option<usize>> = None;
        let mut panicked: Option<vcore::panics::PanicRecord> = None;
        let mut first_discard = false;
        if !matches!(op, Op::Adv { .. } | Op::Tick) {
            self.chain.clear();
        }
        let cc = self.cc.clone();
        match op {
            Op::Send { e, pn, size, ae, inf, ack } => {
                let now = Instant::now();
                if let Err(p) = vcore::panics::catch(|| cc.on_pkt_sent(Epoch::EPOCHS[*e], *pn, *ae, *size, *inf, *ack)) {
                    panicked = Some(p);
                }
                self.led[*e].insert(*pn, Pkt { size: *size, t: now, ae: *ae, inf: *inf, st: St::Out });
                if *inf {
                    self.led_bif += size;
                    if *ae {
                        self.out_ae[*e] += 1;
                        self.last_ae[*e] = Some(now);
                        self.last_progress = now;
                    }
                }
                // RFC 9001 4.9.1: a client discards Initial keys when it first sends a Handshake packet
                if *e == 1 && !self.sc.server && !self.discarded[0] {
                    self.mark_discarded(0);
                    first_discard = true;
                }
            }
            Op::Quota => match vcore::panics::catch(|| cc.send_quota()) {
                Ok(Ok(q)) => quota = Some(Some(q)),
                Ok(Err(_)) => quota = Some(None),
                Err(p) => panicked = Some(p),
            },
            Op::Ack { e, ranges, delay, ecn } => {
                let frame = ack_frame(ranges, *delay, *ecn);
                let la = self.largest_acked[*e].map_or(ranges[0].1, |l| l.max(ranges[0].1));
                self.largest_acked[*e] = Some(la);
                if let Some(p) = self.led[*e].get(&ranges[0].1)
                    && p.st == St::Out
                    && p.ae
                {
                    rtt_sample = Some(Instant::now().saturating_duration_since(p.t));
                }
                for &(lo, hi) in ranges {
                    let pns: Vec<(u64, St)> = self.led[*e].range(lo..=hi).map(|(pn, p)| (*pn, p.st)).collect();
                    for (pn, st) in pns {
                        if st == St::Out || st == St::Lost {
                            newly.push((*e, pn, st == St::Lost));
                            self.set_status(*e, pn, St::Acked);
                        }
                    }
                }
                // The controller only looks at ECN counts when it saw newly acknowledged packets.  A packet
                // that was declared lost earlier may already have been dropped from its list, so only an
                // ACK that newly acknowledges an outstanding packet certainly advanced its CE baseline.
                if let Some(c) = ecn {
                    if c[2] > self.ce_max[*e] && !newly.is_empty() {
                        ce_up = Some(*e);
                        if newly.iter().any(|n| !n.2) {
                            self.ce_max[*e] = c[2];
                        }
                    }
                }
                if let Err(p) = vcore::panics::catch(|| cc.on_ack_rcvd(Epoch::EPOCHS[*e], &frame)) {
                    panicked = Some(p);
                }
            }
            Op::Adv { us } => {
                tokio::time::advance(Duration::from_micros(*us)).await;
            }
            Op::Tick => match vcore::panics::catch(|| cc.do_tick()) {
                Ok(Ok(())) => {}
                Ok(Err(_)) => tick_err = true,
                Err(p) => panicked = Some(p),
            },
            Op::Discard { e } => {
                if let Err(p) = vcore::panics::catch(|| cc.discard_epoch(Epoch::EPOCHS[*e])) {
                    panicked = Some(p);
                }
                first_discard = true;
                self.mark_discarded(*e);
                self.last_progress = Instant::now();
            }
            Op::HsKey => {
                self.hs.got_handshake_key();
                self.hs_key = true;
            }
            Op::HsAck => {
                self.hs.received_handshake_ack();
                self.hs_ack = true;
            }
            Op::HsDone => {
                self.hs.handshake_confirmed();
                self.hs_done = true;
                self.last_progress = Instant::now();
            }
            Op::Rcvd { e, pn, ae } => {
                self.status.release_anti_amplification_limit();
                if self.amp_limited {
                    self.last_progress = Instant::now();
                }
                self.amp_limited = false;
                if let Err(p) = vcore::panics::catch(|| cc.on_pkt_rcvd(Epoch::EPOCHS[*e], *pn, *ae)) {
                    panicked = Some(p);
                }
            }
            Op::Grant => {
                if let Err(p) = vcore::panics::catch(|| cc.grant_anti_amplification()) {
                    panicked = Some(p);
                }
                if self.amp_limited {
                    self.last_progress = Instant::now();
                }
                self.amp_limited = false;
            }
            Op::EnterAmp => {
                self.status.enter_anti_amplification_limit();
                self.amp_limited = true;
            }
        }
        self.stat(match kind {
            "send" => "op_send",
            "quota" => "op_quota",
            "ack" => "op_ack",
            "advance" => "op_advance",
            "tick" => "op_tick",
            "discard" => "op_discard",
            "rcvd" => "op_rcvd",
            _ => "op_phase_toggle",
        });
        if let Some(p) = panicked {
            let loc = vcore::panics::short_location(&p.location);
            self.fail(format!("C13.panic:{loc}"), format!("{kind} panicked inside the controller: {} at {loc}", p.message));
            self.dead = true;
            return;
        }
        let now = Instant::now();
        let post = self.cc.verif_snapshot();
        self.stat("snapshots");
        let pre = self.pre.clone();
        let losses: Vec<(usize, Vec<u64>)> = std::mem::take(&mut *self.log.lock().unwrap());

        // ---------------- a, b, c: every loss declaration -----------------------------------------
        let thr = std::cmp::max(std::cmp::min(pre.loss_delay, post.loss_delay), MS);
        let mut lost_now: Vec<(usize, u64)> = vec![];
        for (e, pns) in &losses {
            let e = *e;
            for &pn in pns {
                self.stat("loss_declarations");
                self.n_loss += 1;
                let Some(p) = self.led[e].get(&pn).cloned() else {
                    self.fail("C13.loss.not-acked:unknown-pn".into(), format!("{} pn {pn} declared lost but was never sent", EP[e]));
                    continue;
                };
                match p.st {
                    St::Acked => {
                        self.fail(
                            "C13.loss.not-acked:acked-then-lost".into(),
                            format!("{} pn {pn} declared lost during {kind} although it had been acknowledged", EP[e]),
                        );
                        continue;
                    }
                    St::Lost => {
                        self.fail("C13.loss.not-acked:lost-twice".into(), format!("{} pn {pn} declared lost a second time during {kind}", EP[e]));
                        continue;
                    }
                    St::Disc => {
                        self.fail("C13.loss.not-acked:discarded-epoch".into(), format!("{} pn {pn} declared lost after its epoch was discarded", EP[e]));
                        continue;
                    }
                    St::Out => {}
                }
                let age = now.saturating_duration_since(p.t);
                let old_enough = age >= thr;
                let la = self.largest_acked[e];
                let later = la.is_some_and(|l| l > pn);
                let reordered = la.is_some_and(|l| l >= pn + 3);
                if !later {
                    if old_enough {
                        self.stat("loss_without_later_ack_time_branch");
                        self.fail(
                            "C13.loss.later-ack:time-threshold-branch".into(),
                            format!(
                                "{} pn {pn} (sent at {} us, age {} us >= time threshold {} us) declared lost during {kind} at {} us although no later packet was acknowledged (largest acked {:?})",
                                EP[e], self.us(p.t), dur_us(age), dur_us(thr), self.us(now), la
                            ),
                        );
                    } else {
                        self.fail(
                            "C13.loss.later-ack:packet-threshold-branch".into(),
                            format!(
                                "{} pn {pn} (age {} us < time threshold {} us) declared lost during {kind} although no later packet was acknowledged (largest acked {:?})",
                                EP[e], dur_us(age), dur_us(thr), la
                            ),
                        );
                    }
                } else if reordered {
                    self.stat("loss_by_packet_threshold_ok");
                } else {
                    self.stat("loss_by_time_threshold_ok");
                }
                if !reordered && !old_enough {
                    let gap = match la {
                        Some(l) if l > pn => format!("gap{}", l - pn),
                        _ => "no-later-ack".into(),
                    };
                    self.fail(
                        format!("C13.loss.threshold:{gap}-young"),
                        format!(
                            "{} pn {pn} declared lost during {kind}: largest acked {:?} is less than 3 ahead and age {} us < time threshold {} us (loss_delay before/after op {} / {} us)",
                            EP[e], la, dur_us(age), dur_us(thr), dur_us(pre.loss_delay), dur_us(post.loss_delay)
                        ),
                    );
                }
                lost_now.push((e, pn));
            }
        }
        // persistent-congestion exemption: >= 3 adjacent sent packets of one epoch lost in this op
        let mut persistent = false;
        {
            let set: BTreeSet<(usize, u64)> = lost_now.iter().copied().collect();
            for e in 0..3 {
                let mut run = 0;
                for (pn, _) in self.led[e].iter() {
                    if set.contains(&(e, *pn)) {
                        run += 1;
                        if run >= 3 {
                            persistent = true;
                        }
                    } else {
                        run = 0;
                    }
                }
            }
        }
        let mut newest_lost_inflight: Option<Instant> = None;
        for &(e, pn) in &lost_now {
            let p = self.led[e][&pn].clone();
            if p.inf {
                newest_lost_inflight = Some(newest_lost_inflight.map_or(p.t, |t| t.max(p.t)));
            }
            self.set_status(e, pn, St::Lost);
        }
        if !lost_now.is_empty() {
            self.last_progress = now;
        }
        // server: first Handshake ACK processed => Initial keys are gone (the controller discards the space itself)
        if let Op::Ack { e: 1, .. } = op {
            if self.sc.server && !self.discarded[0] {
                self.mark_discarded(0);
                first_discard = true;
            }
        }
        if !newly.is_empty() {
            self.last_progress = now;
            self.n_newack += 1;
            self.stat("acks_with_newly_acked");
            if newly.iter().any(|n| n.2) {
                self.stat("acks_of_packets_already_declared_lost");
            }
        }

        // ---------------- loss_delay itself (time threshold factor) ------------------------------
        // RFC 9002 6.1.2: 9/8 * max(smoothed_rtt, latest_rtt).  latest_rtt is not part of the snapshot: the oracle
        // takes it from its own ledger, on the operation in which the controller visibly took the sample
        // (its smoothed_rtt / rttvar moved), so that the estimate and the sample belong together.
        if let Some(sample) = rtt_sample
            && (post.smoothed_rtt != pre.smoothed_rtt || post.rttvar != pre.rttvar)
        {
            self.stat("time_threshold_checked_against_latest_rtt");
            if sample > post.smoothed_rtt {
                self.stat("time_threshold_checked_with_latest_above_smoothed");
            }
            let want = std::cmp::max(std::cmp::max(post.smoothed_rtt, sample).mul_f64(1.125 * (1.0 - 1e-5)), MS);
            if post.loss_delay < want {
                self.fail(
                    "C13.loss.threshold:time-factor-ignores-latest-rtt".into(),
                    format!(
                        "after an RTT sample of {} us (smoothed_rtt now {} us) the controller's time threshold is {} us, below 9/8 * max(smoothed_rtt, latest_rtt) = {} us",
                        dur_us(sample),
                        dur_us(post.smoothed_rtt),
                        dur_us(post.loss_delay),
                        dur_us(want)
                    ),
                );
            }
        }
        {
            let want = std::cmp::max(post.smoothed_rtt.mul_f64(1.125 * (1.0 - 1e-5)), MS);
            if post.loss_delay < want {
                self.fail(
                    "C13.loss.threshold:time-factor-below-9/8".into(),
                    format!("controller's time threshold {} us is below max(9/8 * smoothed_rtt, 1 ms) = {} us", dur_us(post.loss_delay), dur_us(want)),
                );
            }
        }

        // ---------------- i: bytes in flight ------------------------------------------------------
        self.stat("bif_checks");
        // report the operation that introduces (or changes) a discrepancy, not every later snapshot
        let delta = post.bytes_in_flight as i64 - self.led_bif as i64;
        let changed = delta != self.bif_delta;
        self.bif_delta = delta;
        if changed && delta != 0 {
            let dir = if post.bytes_in_flight > self.led_bif { "over" } else { "under" };
            self.fail(
                format!("C13.bif.conservation:{dir}-after-{kind}"),
                format!("after {kind}: controller bytes_in_flight {} != ledger sum of outstanding in-flight packets {}", post.bytes_in_flight, self.led_bif),
            );
        }
        self.stat_max("max_bytes_in_flight", post.bytes_in_flight as u64);

        // ---------------- f: floor -----------------------------------------------------------------
        if post.congestion_window < 2 * self.mtu() {
            self.fail(
                format!("C13.cwnd.floor:after-{kind}"),
                format!("congestion window {} < 2 * max_datagram_size {} after {kind}", post.congestion_window, 2 * self.mtu()),
            );
        }
        self.stat_max("max_cwnd", post.congestion_window as u64);

        // ---------------- g: shrink once per round trip -------------------------------------------
        let last_dec_before = self.last_dec;
        let shrink = post.congestion_window < pre.congestion_window || post.ssthresh != pre.ssthresh;
        if post.congestion_window != pre.congestion_window {
            self.n_cwnd_change += 1;
        }
        if shrink {
            self.stat("window_reductions");
            let ecn_trigger: Option<Instant> = ce_up.and_then(|e| newly.iter().filter(|n| n.0 == e).map(|n| n.1).max().map(|pn| self.led[e][&pn].t));
            if persistent {
                self.stat("window_reductions_persistent_exempt");
                self.last_dec = None;
            } else {
                let newest = match (newest_lost_inflight, ecn_trigger) {
                    (Some(a), Some(b)) => Some(a.max(b)),
                    (a, b) => a.or(b),
                };
                match newest {
                    None => self.fail(
                        format!("C13.cwnd.shrink-once:no-trigger-{kind}"),
                        format!(
                            "window reduced during {kind} (cwnd {} -> {}, ssthresh {} -> {}) although no in-flight packet was declared lost and no new CE mark was reported",
                            pre.congestion_window, post.congestion_window, pre.ssthresh as u128, post.ssthresh as u128
                        ),
                    ),
                    Some(t) => {
                        if self.last_dec.is_some() {
                            self.stat("shrink_checks_against_previous_reduction");
                        }
                        if ecn_trigger.is_some() && newest_lost_inflight.is_none() {
                            self.stat("window_reductions_by_ecn_only");
                        }
                        if self.last_dec.is_none() && self.last_dec_shadow.is_some_and(|d| t <= d) {
                            self.stat("window_reductions_again_in_same_round_trip_after_persistent_collapse");
                        }
                        if self.last_dec.is_some_and(|d| t <= d) {
                            let why = if newest_lost_inflight.is_some() { "loss" } else { "ecn" };
                            self.fail(
                                format!("C13.cwnd.shrink-once:same-round-trip-{why}"),
                                format!(
                                    "window reduced again during {kind} (cwnd {} -> {}): newest lost/CE-marked packet was sent at {} us, not after the previous reduction at {} us",
                                    pre.congestion_window, post.congestion_window, self.us(t), self.us(self.last_dec.unwrap())
                                ),
                            );
                        } else {
                            self.stat("window_reductions_new_round_trip");
                        }
                        self.last_dec = Some(now);
                    }
                }
            }
            self.last_dec_shadow = Some(now);
        } else if persistent {
            self.last_dec = None;
        }

        // ---------------- h: growth ---------------------------------------------------------------
        if post.congestion_window > pre.congestion_window {
            self.stat("window_increases");
            let grow = post.congestion_window - pre.congestion_window;
            if !matches!(op, Op::Ack { .. }) {
                self.fail(
                    format!("C13.cwnd.grow:outside-ack-{kind}"),
                    format!("congestion window grew {} -> {} during {kind}", pre.congestion_window, post.congestion_window),
                );
            } else {
                // reference for "recovery": the previous reduction the monitor saw (before this op's own reduction)
                let rs = last_dec_before;
                let eligible: usize = newly
                    .iter()
                    .map(|&(e, pn, _)| &self.led[e][&pn])
                    .filter(|p| p.inf && rs.is_none_or(|r| p.t > r))
                    .map(|p| p.size)
                    .sum();
                if eligible == 0 {
                    self.fail(
                        "C13.cwnd.grow:in-recovery".into(),
                        format!(
                            "congestion window grew {} -> {} on an ACK whose newly acknowledged in-flight packets were all sent before the last reduction ({:?} us)",
                            pre.congestion_window, post.congestion_window, rs.map(|r| self.us(r))
                        ),
                    );
                } else if grow > eligible {
                    self.fail(
                        "C13.cwnd.grow:exceeds-acked-bytes".into(),
                        format!("congestion window grew by {grow} on an ACK that newly acknowledged only {eligible} bytes sent outside recovery"),
                    );
                }
            }
        }

        // ---------------- e: PTO back-off ----------------------------------------------------------
        if post.pto_count > pre.pto_count {
            self.stat("pto_expiries");
            self.stat_max("max_pto_count", post.pto_count as u64);
            self.last_progress = now;
            if !matches!(op, Op::Tick) || post.pto_count != pre.pto_count + 1 {
                self.fail(
                    format!("C13.pto.doubling:count-jump-{kind}"),
                    format!("pto_count went {} -> {} during {kind}", pre.pto_count, post.pto_count),
                );
            }
        }
        if post.pto_count < pre.pto_count {
            let legit = match op {
                Op::Ack { .. } => !newly.is_empty(),
                Op::Discard { .. } => true,
                _ => first_discard,
            };
            if legit {
                self.stat("pto_count_resets");
            } else {
                self.fail(
                    format!("C13.pto.doubling:reset-by-{kind}"),
                    format!(
                        "pto_count reset {} -> {} by {kind} without a newly acknowledging ACK and without a (first) key discard: the probe interval stops doubling",
                        pre.pto_count, post.pto_count
                    ),
                );
            }
        }
        // e.0 (RFC 9002 §6.2.1 / A.7): a client that is not yet certain that the server has validated its
        // address (no Handshake ACK seen, handshake not confirmed) does not reset the back-off on an ACK --
        // the role and the two phase flags are the ones the harness itself set, not read back from the code
        if let Op::Ack { .. } = op {
            if !self.peer_validated() {
                self.stat("acks_before_peer_address_validation");
                if post.pto_count < pre.pto_count {
                    self.fail(
                        "C13.pto.doubling:reset-before-address-validation".into(),
                        format!(
                            "client without a Handshake ACK and without handshake confirmation: an ACK reset pto_count {} -> {}; the probe interval stops doubling while the server may still be amplification-limited",
                            pre.pto_count, post.pto_count
                        ),
                    );
                }
                // d.0 (RFC 9002 §6.2.2.1 / A.8): such a client keeps the probe timer armed even when nothing
                // ack-eliciting is in flight (anti-deadlock probe); checked after an ACK that newly acknowledged
                // a packet the controller still held (one it had already declared lost is not "newly acknowledged" for it and the
                // RFC returns early), i.e. where OnAckReceived ends in SetLossDetectionTimer
                let any_ae = (0..3).any(|e| self.led[e].values().any(|p| p.st == St::Out && p.ae));
                if newly.iter().any(|n| !n.2) && !any_ae && !self.abandoned && !self.amp_limited && !tick_err && !self.discarded.iter().all(|d| *d) {
                    self.stat("anti_deadlock_timer_checks");
                    if post.loss_detection_timer.is_none() {
                        self.fail(
                            "C13.timer.coverage:client-anti-deadlock-unarmed".into(),
                            "client without a Handshake ACK and without handshake confirmation has nothing ack-eliciting in flight after this ACK and the loss-detection timer is not armed: if the server is amplification-limited nobody ever sends again".into(),
                        );
                    }
                }
            }
        }
        let need_pre: usize = pre.need_send_ack_eliciting_packets.iter().sum();
        let need_post: usize = post.need_send_ack_eliciting_packets.iter().sum();
        if need_post > need_pre {
            self.stat("probes_requested");
            self.last_progress = now;
            if post.pto_count <= pre.pto_count {
                self.fail(
                    format!("C13.pto.doubling:probe-without-backoff-{kind}"),
                    format!("a probe was requested during {kind} but pto_count stayed {} -> {}: the next probe timeout is not doubled", pre.pto_count, post.pto_count),
                );
            }
        }
        // e.1 arming value whenever the timer was (re)computed from the PTO rule in this op
        let loss_time_armed = post.spaces.iter().any(|s| s.loss_time.is_some());
        // (the RFC re-computes the timer at the end of every ACK that newly acknowledged something)
        let acked_outstanding = newly.iter().any(|n| !n.2);
        let recomputed = post.loss_detection_timer != pre.loss_detection_timer || acked_outstanding;
        if !loss_time_armed && !self.amp_limited && !tick_err && post.loss_detection_timer.is_some() && recomputed {
            if let Some(want) = self.rfc_pto_timer(&post, now, true) {
                let got = post.loss_detection_timer.unwrap();
                self.stat("pto_arming_checks");
                let diff = if got > want { got - want } else { want - got };
                if diff > Duration::from_micros(2) {
                    let alt = self.rfc_pto_timer(&post, now, false);
                    let cls = if alt.is_some_and(|a| (if got > a { got - a } else { a - got }) <= Duration::from_micros(2)) {
                        "srtt-term-not-doubled"
                    } else {
                        "period-mismatch"
                    };
                    self.fail(
                        format!("C13.pto.doubling:{cls}"),
                        format!(
                            "after {kind} with pto_count {} the probe timer is armed {} us from now; RFC 9002 (smoothed_rtt {} us + max(4*rttvar {} us, 1 ms) [+ max_ack_delay]) * 2^pto_count gives {} us",
                            post.pto_count,
                            dur_us(got.saturating_duration_since(now)),
                            dur_us(post.smoothed_rtt),
                            dur_us(post.rttvar),
                            dur_us(want.saturating_duration_since(now))
                        ),
                    );
                }
            }
        }
        // e.2 black-box: expiries driven exactly at the timer with nothing in between double their spacing
        if matches!(op, Op::Tick) {
            let rtt_same = post.smoothed_rtt == pre.smoothed_rtt && post.rttvar == pre.rttvar;
            if post.pto_count == pre.pto_count + 1 && lost_now.is_empty() && rtt_same && pre.loss_detection_timer.is_some_and(|t| t <= now && now - t <= Duration::from_micros(1)) {
                if self.chain.last().is_some_and(|l| l.1 + 1 != pre.pto_count) {
                    self.chain.clear();
                }
                self.chain.push((now, pre.pto_count));
                let n = self.chain.len();
                if n >= 3 {
                    let i1 = self.chain[n - 2].0 - self.chain[n - 3].0;
                    let i2 = self.chain[n - 1].0 - self.chain[n - 2].0;
                    self.stat("pto_interval_ratio_checks");
                    let want = i1 * 2;
                    let diff = if i2 > want { i2 - want } else { want - i2 };
                    if diff > Duration::from_micros(4) {
                        // intervals of the form s + v*2^k: differences double although the intervals do not
                        let cls = if n >= 4 {
                            let i0 = self.chain[n - 3].0 - self.chain[n - 4].0;
                            let d1 = i1.saturating_sub(i0) * 2;
                            let d2 = i2.saturating_sub(i1);
                            if (if d1 > d2 { d1 - d2 } else { d2 - d1 }) <= Duration::from_micros(8) { "srtt-term-not-doubled" } else { "interval-ratio" }
                        } else if i2 < want && i2 > i1 {
                            "srtt-term-not-doubled"
                        } else {
                            "interval-ratio"
                        };
                        self.fail(
                            format!("C13.pto.doubling:{cls}"),
                            format!(
                                "consecutive probe timeouts (pto_count {} -> {}) with no ack in between came {} us and then {} us apart; the interval must double",
                                pre.pto_count, post.pto_count, dur_us(i1), dur_us(i2)
                            ),
                        );
                    }
                }
            } else if post.pto_count != pre.pto_count || !lost_now.is_empty() || !rtt_same {
                self.chain.clear();
            }
        }
        if tick_err {
            self.stat("too_many_ptos");
            self.abandoned = true;
            self.dead = true;
        }

        // ---------------- d: timer coverage --------------------------------------------------------
        if !self.abandoned && !self.amp_limited && self.eligible_outstanding() {
            if matches!(op, Op::Send { .. } | Op::Ack { .. } | Op::Tick | Op::Discard { .. } | Op::Rcvd { .. }) {
                self.stat("timer_armed_checks");
                if post.loss_detection_timer.is_none() {
                    self.fail(
                        format!("C13.timer.coverage:unarmed-after-{kind}"),
                        format!(
                            "after {kind} the loss-detection timer is not armed although ack-eliciting packets are in flight (initial {}, handshake {}, data {}) and the path is not amplification-limited",
                            self.out_ae[0], self.out_ae[1], self.out_ae[2]
                        ),
                    );
                }
            }
            // d.3 after an ACK that newly acknowledged outstanding packets the timer must have been
            // re-computed: it cannot be later than both the time threshold of a packet that is in flight
            // now and the probe timeout of the acknowledged space
            if let Op::Ack { e, .. } = op {
                if acked_outstanding && self.out_ae[*e] > 0 && (*e != 2 || self.hs_done) {
                    self.stat("timer_rearm_after_ack_checks");
                    let k = post.pto_count.min(20);
                    let mut pto = (post.smoothed_rtt + std::cmp::max(4 * post.rttvar, MS)) * (1 << k);
                    if *e == 2 {
                        pto += post.max_ack_delay * (1 << k);
                    }
                    let latest = std::cmp::max(now + post.loss_delay, self.last_ae[*e].map_or(now, |t| t + pto)) + MS;
                    if post.loss_detection_timer.is_some_and(|t| t > latest) {
                        self.fail(
                            "C13.timer.coverage:late-after-ack".into(),
                            format!(
                                "after an ACK that newly acknowledged {} packets the timer stands at {} us; with the estimates after that ACK (loss_delay {} us, PTO {} us) it cannot be later than {} us (now {} us)",
                                EP[*e],
                                self.us(post.loss_detection_timer.unwrap()),
                                dur_us(post.loss_delay),
                                dur_us(pto),
                                self.us(latest),
                                self.us(now)
                            ),
                        );
                    }
                }
            }
            let k = post.pto_count.min(20);
            let pto = (post.smoothed_rtt + std::cmp::max(4 * post.rttvar, MS) + post.max_ack_delay) * (1 << k);
            let bound = pto * 2 + post.loss_delay + post.max_ack_delay + Duration::from_millis(30);
            // timers may have been armed under the estimates in force earlier
            let quiet = now.saturating_duration_since(self.last_progress);
            if quiet.is_zero() {
                self.bound_since_progress = bound;
            } else {
                self.bound_since_progress = self.bound_since_progress.max(bound);
            }
            self.bound_max = self.bound_max.max(bound);
            if matches!(op, Op::Tick) {
                self.stat("timer_liveness_checks");
                // a timer that is still pending (or overdue only by the ack-delay allowance of the time
                // threshold) will produce progress when it fires; beyond the hard cap even that is a stall
                let pending = post.loss_detection_timer.is_some_and(|t| t + post.max_ack_delay + 2 * MS >= now);
                let hard_cap = self.bound_max * 4 + Duration::from_secs(1);
                if (quiet > self.bound_since_progress && !pending) || quiet > hard_cap {
                    self.fail(
                        "C13.timer.coverage:stalled".into(),
                        format!(
                            "ack-eliciting packets outstanding (initial {}, handshake {}, data {}) but for {} us of ticking (> bound {} us) nothing was acknowledged, declared lost or probed; timer = {:?} us, now = {} us",
                            self.out_ae[0],
                            self.out_ae[1],
                            self.out_ae[2],
                            dur_us(quiet),
                            dur_us(self.bound_since_progress),
                            post.loss_detection_timer.map(|t| self.us(t)),
                            self.us(now)
                        ),
                    );
                }
            }
        }

        // ---------------- j: window respected ------------------------------------------------------
        if let Some(q) = quota {
            self.last_quota = q;
            match q {
                Some(q) => {
                    self.stat("quota_granted");
                    if pre.bytes_in_flight >= pre.congestion_window && need_pre == 0 {
                        self.stat("quota_granted_beyond_window");
                        self.stat_max("max_bif_over_cwnd_pct_at_grant", (pre.bytes_in_flight * 100 / pre.congestion_window.max(1)) as u64);
                        self.fail(
                            "C13.window:pacer-ignores-bytes-in-flight".into(),
                            format!(
                                "send_quota() granted {q} bytes (>= one datagram of {}) while bytes_in_flight {} >= congestion window {} and no probe was pending",
                                self.mtu(), pre.bytes_in_flight, pre.congestion_window
                            ),
                        );
                    }
                }
                None => self.stat("quota_denied"),
            }
        }

        // ---------------- abstract state for evidence ----------------------------------------------
        {
            let timer_kind = match (post.loss_detection_timer, loss_time_armed) {
                (None, _) => 0u64,
                (Some(_), true) => 1,
                (Some(_), false) => 2,
            };
            let bits = [
                self.sc.server as u64,
                self.hs_key as u64,
                self.hs_ack as u64,
                self.hs_done as u64,
                self.amp_limited as u64,
                post.pto_count.min(7) as u64,
                post.congestion_recovery_start_time.is_some() as u64,
                (post.congestion_window < post.ssthresh) as u64,
                (post.congestion_window == 2 * self.mtu()) as u64,
                timer_kind,
                (self.out_ae[0] > 0) as u64,
                (self.out_ae[1] > 0) as u64,
                (self.out_ae[2] > 0) as u64,
                (need_post > 0) as u64,
                (post.bytes_in_flight >= post.congestion_window) as u64,
            ];
            let mut h = 0xcbf29ce484222325u64;
            for b in bits {
                h = (h ^ b).wrapping_mul(0x100000001b3);
            }
            self.states.insert(h);
        }
        if self.trace {
            eprintln!(
                "#{} t={}us {:?} | cwnd {} ssthresh {} bif {} (ledger {}) rec {:?} pto_count {} timer {:?} srtt {} rttvar {} loss_delay {} need {:?} lost {:?} newly {:?}",
                self.nops - 1,
                self.us(now),
                op,
                post.congestion_window,
                post.ssthresh as i64,
                post.bytes_in_flight,
                self.led_bif,
                post.congestion_recovery_start_time.map(|t| self.us(t)),
                post.pto_count,
                post.loss_detection_timer.map(|t| self.us(t)),
                dur_us(post.smoothed_rtt),
                dur_us(post.rttvar),
                dur_us(post.loss_delay),
                post.need_send_ack_eliciting_packets,
                lost_now,
                newly
            );
        }
        self.pre = post;
    }
}

// ------------------------------------------------------------------------------------------------
// workload generator: closed loop with a tiny network / receiver model plus hostile extras
// ------------------------------------------------------------------------------------------------

#[derive(Clone, Debug)]
struct Link {
    owd_us: u64,
    jitter_pct: u64,
    loss_pm: u64,
    reorder_pm: u64,
    ce_pm: u64,
    ack_every: u64,
    ack_delay_us: u64,
    ecn: bool,
}

enum Ev {
    Arrive { e: usize, pn: u64, ce: bool, ae: bool },
    AckGen { e: usize },
    AckArrive { op: Op },
}

struct Gen {
    rng: Rng,
    kind: u64,       // 0 bulk, 1 handshake, 2 blackout, 3 chaos
    tick_style: u64, // 0 cadence 10 ms, 1 exact timer, 2 random
    link: Link,
    gappy: bool,
    next_pn: [u64; 3],
    events: Vec<(u64, u64, Ev)>, // (at_us, seq, ev)
    seq: u64,
    rcv: [BTreeSet<u64>; 3],
    rcv_largest_at: [u64; 3],
    rcv_pending: [u64; 3],
    rcv_ackgen_scheduled: [bool; 3],
    rcv_ce: [u64; 3],
    dark: bool,
    dark_at_op: usize,
    /// per history: probability (in quarters) that a requested probe is actually sent
    probe_answer_q: u64,
    ops: Vec<Op>,
}

impl Gen {
    fn new(seed: u64) -> (Scenario, Gen) {
        let mut rng = Rng::new(seed);
        let kind = *rng.pick(&[0u64, 0, 0, 1, 1, 2, 2, 3]);
        let sc = Scenario {
            server: rng.bool(),
            mtu: *rng.pick(&[1200u16, 1200, 1200, 1400]),
            mad_ms: *rng.pick(&[0u64, 5, 25, 25, 100]),
        };
        let link = Link {
            owd_us: *rng.pick(&[200u64, 2_000, 10_000, 25_000, 50_000, 150_000]),
            jitter_pct: *rng.pick(&[0u64, 5, 30]),
            loss_pm: *rng.pick(&[0u64, 5, 20, 100, 300]),
            reorder_pm: *rng.pick(&[0u64, 0, 20, 200]),
            ce_pm: *rng.pick(&[0u64, 20, 200]),
            ack_every: *rng.pick(&[1u64, 2, 2, 10]),
            ack_delay_us: sc.mad_ms * 1000,
            ecn: rng.chance(1, 3),
        };
        let tick_style = if kind == 2 { *rng.pick(&[1u64, 1, 0]) } else { rng.below(3) };
        let g = Gen {
            gappy: rng.chance(1, 10),
            kind,
            tick_style,
            link,
            next_pn: [0; 3],
            events: vec![],
            seq: 0,
            rcv: Default::default(),
            rcv_largest_at: [0; 3],
            rcv_pending: [0; 3],
            rcv_ackgen_scheduled: [false; 3],
            rcv_ce: [0; 3],
            dark: false,
            dark_at_op: usize::MAX,
            probe_answer_q: *rng.pick(&[0u64, 2, 4, 4]),
            ops: vec![],
            rng,
        };
        (sc, g)
    }

    async fn op(&mut self, sim: &mut Sim, op: Op) {
        sim.apply(&op).await;
        self.ops.push(op);
    }

    fn push_ev(&mut self, at: u64, ev: Ev) {
        self.seq += 1;
        self.events.push((at, self.seq, ev));
    }

    fn delay(&mut self) -> u64 {
        let j = self.link.owd_us * self.link.jitter_pct / 100;
        let mut d = self.link.owd_us + if j > 0 { self.rng.below(2 * j + 1) } else { 0 } - j.min(self.link.owd_us);
        if self.rng.below(1000) < self.link.reorder_pm {
            d += self.link.owd_us * self.rng.range(2, 20) / 10;
        }
        d.max(1)
    }

    /// handle everything the network / receiver does up to `target`; ACK arrivals become ops at their arrival time
    async fn advance_to(&mut self, sim: &mut Sim, target: u64) {
        loop {
            if sim.dead {
                return;
            }
            let Some(i) = self.events.iter().enumerate().filter(|(_, ev)| ev.0 <= target).min_by_key(|(_, ev)| (ev.0, ev.1)).map(|(i, _)| i) else {
                break;
            };
            let (at, _, ev) = self.events.swap_remove(i);
            match ev {
                Ev::Arrive { e, pn, ce, ae } => {
                    if self.dark {
                        continue;
                    }
                    let out_of_order = self.rcv[e].last().is_some_and(|l| *l > pn || pn > *l + 1);
                    if self.rcv[e].last().is_none_or(|l| pn > *l) {
                        self.rcv_largest_at[e] = at;
                    }
                    self.rcv[e].insert(pn);
                    if ce {
                        self.rcv_ce[e] += 1;
                    }
                    if ae {
                        self.rcv_pending[e] += 1;
                        if e != 2 || out_of_order || self.rcv_pending[e] >= self.link.ack_every {
                            self.push_ev(at, Ev::AckGen { e });
                        } else if !self.rcv_ackgen_scheduled[e] {
                            self.rcv_ackgen_scheduled[e] = true;
                            self.push_ev(at + self.link.ack_delay_us, Ev::AckGen { e });
                        }
                    }
                }
                Ev::AckGen { e } => {
                    self.rcv_ackgen_scheduled[e] = false;
                    if self.rcv_pending[e] == 0 || self.rcv[e].is_empty() {
                        continue;
                    }
                    self.rcv_pending[e] = 0;
                    let mut ranges: Vec<(u64, u64)> = vec![];
                    for &pn in self.rcv[e].iter().rev() {
                        match ranges.last_mut() {
                            Some(r) if r.0 == pn + 1 => r.0 = pn,
                            _ => {
                                if ranges.len() == 6 {
                                    break;
                                }
                                ranges.push((pn, pn));
                            }
                        }
                    }
                    let ecn = self.link.ecn.then(|| [self.rcv[e].len() as u64 - self.rcv_ce[e], 0, self.rcv_ce[e]]);
                    let op = Op::Ack { e, ranges, delay: at - self.rcv_largest_at[e], ecn };
                    if self.rng.below(1000) >= self.link.loss_pm {
                        let d = self.delay();
                        self.push_ev(at + d, Ev::AckArrive { op });
                    }
                }
                Ev::AckArrive { op } => {
                    if self.dark {
                        continue;
                    }
                    let Op::Ack { e, .. } = &op else { unreachable!() };
                    if sim.discarded[*e] {
                        continue;
                    }
                    let now = sim.now_us();
                    if at > now {
                        self.op(sim, Op::Adv { us: at - now }).await;
                    }
                    let e = *e;
                    self.op(sim, op).await;
                    // production: the client learns of the Handshake ACK right after processing it
                    if e == 1 && !sim.sc.server && !sim.hs_ack && self.rng.chance(9, 10) {
                        self.op(sim, Op::HsAck).await;
                    }
                }
            }
        }
        let now = sim.now_us();
        if target > now && !sim.dead {
            self.op(sim, Op::Adv { us: target - now }).await;
        }
    }

    fn pick_epoch(&mut self, sim: &Sim) -> Option<usize> {
        let mut allowed = vec![];
        if !sim.discarded[0] && !sim.hs_done {
            allowed.push(0);
        }
        if sim.hs_key && !sim.discarded[1] {
            allowed.push(1);
            allowed.push(1);
        }
        if sim.hs_done {
            allowed.extend([2, 2, 2, 2]);
        } else if self.rng.chance(1, 6) {
            allowed.push(2);
        }
        if allowed.is_empty() { None } else { Some(*self.rng.pick(&allowed)) }
    }

    async fn send_one(&mut self, sim: &mut Sim, e: usize, size: usize, ae: bool, inf: bool) {
        let pn = self.next_pn[e];
        self.next_pn[e] += 1 + if self.gappy && self.rng.chance(1, 6) { self.rng.range(1, 3) } else { 0 };
        let ack = if self.rng.chance(1, 4) { Some(self.rng.below(1000)) } else { None };
        self.op(sim, Op::Send { e, pn, size, ae, inf, ack }).await;
        let now = sim.now_us();
        if !self.dark && self.rng.below(1000) >= self.link.loss_pm {
            let d = self.delay();
            let ce = self.link.ecn && self.rng.below(1000) < self.link.ce_pm;
            self.push_ev(now + d, Ev::Arrive { e, pn, ce, ae });
        }
    }

    /// production order: `send_quota()` first, then packets within the granted quota
    async fn send_burst(&mut self, sim: &mut Sim, e: usize, max_pkts: u64, probe: bool) {
        self.op(sim, Op::Quota).await;
        let Some(mut q) = sim.last_quota else { return };
        let mtu = sim.mtu();
        let n = if probe { 1 } else { self.rng.range(1, max_pkts.max(1)) };
        for _ in 0..n {
            if sim.dead || sim.discarded[e] || q < 30 {
                break;
            }
            let size = if self.rng.chance(3, 4) { mtu.min(q) } else { self.rng.range(30, mtu as u64) as usize }.min(q);
            let (ae, inf) = if probe {
                (true, true)
            } else {
                match self.rng.below(100) {
                    0..=84 => (true, true),
                    85..=92 => (false, false),
                    _ => (false, true),
                }
            };
            self.send_one(sim, e, size, ae, inf).await;
            if inf {
                q -= size;
            }
        }
    }

    async fn time_step(&mut self, sim: &mut Sim) {
        let now = sim.now_us();
        let timer = sim.pre.loss_detection_timer.map(|t| sim.us_ceil(t)).filter(|t| *t > now);
        let next_ev = self.events.iter().map(|e| e.0).filter(|t| *t > now).min();
        let target = match self.tick_style {
            0 => now + 10_000 + if self.rng.chance(1, 5) { self.rng.below(3000) } else { 0 },
            1 => {
                let cap = now + *self.rng.pick(&[10_000u64, 50_000, 1_000_000, 30_000_000]);
                let mut t = timer.unwrap_or(cap).min(cap);
                if let Some(ev) = next_ev {
                    if ev < t && !self.dark {
                        t = ev;
                    }
                }
                t
            }
            _ => now + *self.rng.pick(&[50u64, 1_000, 5_000, 20_000, 100_000, 1_000_000]),
        };
        self.advance_to(sim, target).await;
        if self.tick_style != 2 || self.rng.chance(7, 10) {
            self.op(sim, Op::Tick).await;
            self.answer_probes(sim).await;
        }
    }

    async fn answer_probes(&mut self, sim: &mut Sim) {
        for e in 0..3 {
            if sim.dead {
                return;
            }
            if sim.pre.need_send_ack_eliciting_packets[e] > 0 && !sim.discarded[e] && self.rng.below(4) < self.probe_answer_q {
                if e == 1 && !sim.hs_key {
                    continue;
                }
                self.send_burst(sim, e, 1, true).await;
            }
        }
    }

    async fn chaos_ack(&mut self, sim: &mut Sim) {
        let cands: Vec<usize> = (0..3).filter(|e| !sim.discarded[*e] && !sim.led[*e].is_empty()).collect();
        if cands.is_empty() {
            return;
        }
        let e = *self.rng.pick(&cands);
        let keys: Vec<u64> = sim.led[e].keys().copied().collect();
        let n = self.rng.range(1, 4);
        let mut his: Vec<u64> = (0..n)
            .map(|_| {
                // biased to recent packets
                let i = if self.rng.bool() { keys.len() - 1 - self.rng.usize(keys.len().min(8)) } else { self.rng.usize(keys.len()) };
                keys[i]
            })
            .collect();
        his.sort_unstable();
        his.dedup();
        his.reverse();
        let mut ranges: Vec<(u64, u64)> = vec![];
        for hi in his {
            let len = self.rng.below(6);
            let mut lo = hi.saturating_sub(len);
            // keep lo on a sent packet number
            lo = *sim.led[e].range(lo..=hi).next().map(|(k, _)| k).unwrap();
            if let Some(prev) = ranges.last() {
                if hi + 2 > prev.0 {
                    continue;
                }
            }
            ranges.push((lo, hi));
        }
        let delay = *self.rng.pick(&[0u64, 0, 100, 8_000, 25_000, 400_000, 5_000_000]);
        let ecn = if self.rng.chance(1, 5) { Some([self.rng.below(50), 0, self.rng.below(6)]) } else { None };
        self.op(sim, Op::Ack { e, ranges, delay, ecn }).await;
        if e == 1 && !sim.sc.server && !sim.hs_ack && self.rng.chance(1, 2) {
            self.op(sim, Op::HsAck).await;
        }
    }

    async fn handshake_step(&mut self, sim: &mut Sim) {
        if !sim.hs_key {
            self.op(sim, Op::HsKey).await;
        } else if !sim.hs_done {
            if !sim.sc.server && !sim.hs_ack && self.rng.chance(1, 3) {
                self.op(sim, Op::HsAck).await;
                return;
            }
            self.op(sim, Op::HsDone).await;
            if self.rng.chance(4, 5) {
                // Paths::discard_initial_and_handshake_space
                self.op(sim, Op::Discard { e: 0 }).await;
                self.op(sim, Op::Discard { e: 1 }).await;
            }
        } else if !sim.discarded[1] {
            self.op(sim, Op::Discard { e: 0 }).await;
            self.op(sim, Op::Discard { e: 1 }).await;
        }
    }

    async fn drive(&mut self, sim: &mut Sim, budget: usize) {
        // preamble
        if self.rng.chance(9, 10) {
            self.op(sim, Op::Grant).await;
        }
        if self.kind == 0 || (self.kind == 3 && self.rng.bool()) {
            self.op(sim, Op::HsKey).await;
            if !sim.sc.server && self.rng.chance(4, 5) {
                self.op(sim, Op::HsAck).await;
            }
            self.op(sim, Op::HsDone).await;
            self.op(sim, Op::Discard { e: 0 }).await;
            self.op(sim, Op::Discard { e: 1 }).await;
        }
        if self.kind == 2 {
            self.dark_at_op = self.rng.range(2, 60) as usize;
        }
        let mut idle_streak = 0u32;
        while !sim.dead && self.ops.len() < budget {
            if self.kind == 2 && !self.dark && self.ops.len() >= self.dark_at_op {
                self.dark = true;
            }
            let r = self.rng.below(100);
            // weights per kind: send, time, chaos ack, handshake, misc
            let (w_send, w_time, w_chaos, w_hs) = match self.kind {
                0 => (40, 50, 2, 0),
                1 => (30, 50, 3, 10),
                2 => {
                    if self.dark {
                        (6, 88, 0, 2)
                    } else {
                        (35, 45, 2, 12)
                    }
                }
                _ => (30, 30, 25, 8),
            };
            if r < w_send {
                if let Some(e) = self.pick_epoch(sim) {
                    let burst = *self.rng.pick(&[1u64, 2, 4, 10, 16]);
                    self.send_burst(sim, e, burst, false).await;
                    if sim.last_quota.is_none() {
                        idle_streak += 1;
                        if idle_streak > 2 {
                            self.time_step(sim).await;
                            idle_streak = 0;
                        }
                    }
                } else {
                    self.handshake_step(sim).await;
                }
            } else if r < w_send + w_time {
                self.time_step(sim).await;
            } else if r < w_send + w_time + w_chaos {
                self.chaos_ack(sim).await;
            } else if r < w_send + w_time + w_chaos + w_hs {
                self.handshake_step(sim).await;
            } else {
                match self.rng.below(6) {
                    0 => {
                        let e = self.rng.usize(3);
                        if !sim.discarded[e] {
                            let pn = self.rng.below(200);
                            let ae = self.rng.chance(3, 4);
                            self.op(sim, Op::Rcvd { e, pn, ae }).await;
                        }
                    }
                    1 => {
                        if sim.sc.server && !sim.hs_done && self.rng.chance(1, 3) {
                            self.op(sim, Op::EnterAmp).await;
                        }
                    }
                    2 => self.op(sim, Op::Grant).await,
                    3 => self.op(sim, Op::Tick).await,
                    4 => {
                        if self.kind != 2 {
                            // short outage
                            self.dark = !self.dark && self.rng.chance(1, 3);
                        }
                    }
                    _ => self.op(sim, Op::Quota).await,
                }
            }
        }
    }
}

// ------------------------------------------------------------------------------------------------
// running histories
// ------------------------------------------------------------------------------------------------

pub struct Outcome {
    sc: Scenario,
    ops: Vec<Op>,
    fails: Vec<Fail>,
    stats: BTreeMap<&'static str, u64>,
    states: HashSet<u64>,
    nontrivial: bool,
    abandoned: bool,
}

fn runtime() -> tokio::runtime::Runtime {
    tokio::runtime::Builder::new_current_thread().enable_time().start_paused(true).build().unwrap()
}

fn finish(sim: Sim, ops: Vec<Op>) -> Outcome {
    Outcome {
        nontrivial: sim.n_loss > 0 && sim.n_newack > 0 && sim.n_cwnd_change > 0,
        abandoned: sim.abandoned,
        sc: sim.sc,
        ops,
        fails: sim.fails,
        stats: sim.stats,
        states: sim.states,
    }
}

fn run_generated(seed: u64, budget: usize) -> Outcome {
    let rt = runtime();
    rt.block_on(async {
        let (sc, mut g) = Gen::new(seed);
        let mut sim = Sim::new(&sc);
        g.drive(&mut sim, budget).await;
        finish(sim, g.ops)
    })
}

fn run_ops(sc: &Scenario, ops: &[Op], trace: bool) -> Outcome {
    let rt = runtime();
    rt.block_on(async {
        let mut sim = Sim::new(sc);
        sim.trace = trace;
        for op in ops {
            sim.apply(op).await;
        }
        finish(sim, ops.to_vec())
    })
}

fn replay_json(sc: &Scenario, ops: &[Op]) -> Value {
    json!({"kind": "c13", "leg": "cc", "scenario": sc.to_json(), "ops": ops.iter().map(|o| o.to_json()).collect::<Vec<_>>()})
}

fn hist_hash(sc: &Scenario, ops: &[Op]) -> u64 {
    let mut s = format!("{}{}{}", sc.server, sc.mtu, sc.mad_ms);
    for o in ops {
        s.push_str(&o.to_json().to_string());
    }
    vcore::fnv_str(&s)
}

fn absorb(rep: &mut Report, o: &Outcome) {
    rep.evaluations += 1;
    for (k, v) in &o.stats {
        if k.starts_with("max_") {
            rep.max(k, *v);
        } else {
            rep.add(k, *v);
        }
    }
    for s in &o.states {
        rep.set("controller_states", *s);
    }
    if o.abandoned {
        rep.count("histories_abandoned_too_many_ptos");
    }
    if o.nontrivial {
        rep.distinct(hist_hash(&o.sc, &o.ops));
    }
    for f in &o.fails {
        let stored = rep.violation_counts.get(&f.sig).copied().unwrap_or(0);
        let replay = if stored < 2 { replay_json(&o.sc, &o.ops[..=f.step.min(o.ops.len() - 1)]) } else { Value::Null };
        rep.violation(f.sig.clone(), format!("step {}: {}", f.step, f.what), replay);
    }
}

pub fn run(args: &Args, rep: &mut Report) {
    rep.rule = "history = scenario (role, mtu, max_ack_delay) + sequence of send/quota/ack/advance/tick/discard/phase ops on one ArcCC; \
                distinct = hash of scenario and op sequence; non-trivial = at least one loss declaration, one ACK that newly \
                acknowledged packets and one congestion-window change were observed in the history"
        .into();
    if let Some(path) = args.get("replay") {
        let v: Value = serde_json::from_str(&std::fs::read_to_string(path).unwrap()).unwrap();
        let v = if v.get("replay").is_some() { v["replay"].clone() } else { v };
        let sc = Scenario::from_json(&v["scenario"]);
        let ops: Vec<Op> = v["ops"].as_array().unwrap().iter().map(Op::from_json).collect();
        let o = run_ops(&sc, &ops, args.flag("trace"));
        absorb(rep, &o);
        return;
    }
    let thorough = args.get("tier") == Some("thorough");
    let shard = args.u64("shard", 0);
    let n = args.budget(if thorough { 6000 } else { 500 });
    let mut rng = Rng::new(args.seed() ^ 0xc13).fork(shard);
    for i in 0..n {
        let seed = rng.next_u64();
        let budget = *rng.pick(&[120usize, 300, 600, 1200]);
        let o = run_generated(seed, budget);
        absorb(rep, &o);
        rep.add("ops_total", o.ops.len() as u64);
        if i < 2 {
            rep.sample(json!({
                "scenario": o.sc.to_json(),
                "n_ops": o.ops.len(),
                "first_ops": o.ops.iter().take(14).map(|x| x.to_json()).collect::<Vec<_>>(),
                "stats": o.stats.iter().map(|(k, v)| (k.to_string(), json!(v))).collect::<serde_json::Map<_, _>>(),
            }));
        }
    }
    rep.add("histories", n);
}
