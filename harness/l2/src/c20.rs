//! C20 — event logging is well-formed and purely observational.
//!
//! (a) Every `qevent::Event` captured from real client and server lifetimes (handshake, transfer
//!     under faults, loss, close) must serialise to a JSON object carrying `time`, `name`, `data`
//!     (and `group_id`, which the connection span always carries), parse back to an equal event
//!     (numbers compared with 1e-12 relative tolerance: serde_json without `float_roundtrip` may
//!     return the neighbouring f64), and convert to the legacy format without panicking.
//!     L1 builders cover boundary field values of hand-built events.
//! (b) Differential: the same seeded scenario is run with every exporter configuration (no qlog
//!     call, no-op logger, capturing, capturing+filter, capturing+raw data); the application-visible
//!     outcome record must be identical.
use serde_json::{Value, json};
use vcore::{Args, Report, Rng};

use crate::{
    c02,
    scenario::{self, Outcome},
    world::LogMode,
};

fn num_eq(a: f64, b: f64) -> bool {
    if a == b {
        return true;
    }
    let d = (a - b).abs();
    d <= 1e-12 * a.abs().max(b.abs())
}

/// structural equality of JSON values with float tolerance
pub fn json_eq(a: &Value, b: &Value) -> bool {
    match (a, b) {
        (Value::Number(x), Value::Number(y)) => {
            if let (Some(x), Some(y)) = (x.as_u64(), y.as_u64()) {
                return x == y;
            }
            if let (Some(x), Some(y)) = (x.as_i64(), y.as_i64()) {
                return x == y;
            }
            match (x.as_f64(), y.as_f64()) {
                (Some(x), Some(y)) => num_eq(x, y),
                _ => false,
            }
        }
        (Value::Array(x), Value::Array(y)) => x.len() == y.len() && x.iter().zip(y).all(|(p, q)| json_eq(p, q)),
        (Value::Object(x), Value::Object(y)) => x.len() == y.len() && x.iter().all(|(k, v)| y.get(k).is_some_and(|w| json_eq(v, w))),
        _ => a == b,
    }
}

pub struct EventCheck {
    pub checked: u64,
    pub legacy_ok: u64,
    pub legacy_unsupported: u64,
}

/// Returns findings (clause, what, sample json)
pub fn check_event(e: &qevent::Event, want_group: bool) -> Vec<(String, String, Value)> {
    let mut f = vec![];
    let text = match vcore::panics::catch(|| serde_json::to_string(e)) {
        Ok(Ok(t)) => t,
        Ok(Err(err)) => {
            f.push(("serialize.error".into(), format!("event does not serialise: {err}"), json!(format!("{e:?}").chars().take(300).collect::<String>())));
            return f;
        }
        Err(p) => {
            f.push((format!("panic:{}", vcore::panics::short_location(&p.location)), format!("serialising an event panicked: {}", p.message), Value::Null));
            return f;
        }
    };
    let v: Value = match serde_json::from_str(&text) {
        Ok(v) => v,
        Err(err) => {
            f.push(("wellformed.not-json".into(), format!("serialised event is not JSON: {err}"), json!(text.chars().take(300).collect::<String>())));
            return f;
        }
    };
    let name = v.get("name").and_then(|n| n.as_str()).unwrap_or("?").to_string();
    let Some(obj) = v.as_object() else {
        f.push(("wellformed.not-object".into(), "serialised event is not a JSON object".into(), v.clone()));
        return f;
    };
    for k in ["time", "name", "data"] {
        if !obj.contains_key(k) {
            f.push((format!("wellformed.missing-{k}:{name}"), format!("event {name} lacks the mandatory field `{k}`"), v.clone()));
        }
    }
    if !obj.get("time").is_some_and(|t| t.as_f64().is_some_and(|x| x.is_finite())) {
        f.push((format!("wellformed.time:{name}"), format!("event {name}: `time` is not a finite number"), v.clone()));
    }
    if !obj.get("data").is_some_and(|d| d.is_object()) {
        f.push((format!("wellformed.data:{name}"), format!("event {name}: `data` is not an object"), v.clone()));
    }
    if want_group && !obj.get("group_id").is_some_and(|g| g.as_str().is_some_and(|s| !s.is_empty())) {
        f.push((format!("wellformed.group-id:{name}"), format!("event {name} emitted inside a connection span carries no group_id"), v.clone()));
    }
    // parse back
    match vcore::panics::catch(|| serde_json::from_str::<qevent::Event>(&text)) {
        Ok(Ok(back)) => {
            // compare text with text: `to_value` widens f32 fields, the textual form does not
            let v2: Value = serde_json::to_string(&back).ok().and_then(|t| serde_json::from_str(&t).ok()).unwrap_or(Value::Null);
            if !json_eq(&v, &v2) {
                f.push((format!("roundtrip.differs:{name}"), format!("event {name} parses back to a different event"), json!({"original": v, "parsed": v2})));
            }
        }
        Ok(Err(err)) => {
            f.push((format!("roundtrip.parse:{name}"), format!("event {name} does not parse back: {err}"), v.clone()));
        }
        Err(p) => {
            f.push((format!("panic:{}", vcore::panics::short_location(&p.location)), format!("parsing an event back panicked: {}", p.message), v.clone()));
        }
    }
    // legacy conversion must not panic (an Err for event kinds the legacy format lacks is fine)
    let ev = e.clone();
    if let Err(p) = vcore::panics::catch(move || {
        let _ = qevent::legacy::Event::try_from(ev).map(|l| serde_json::to_string(&l));
    }) {
        f.push((format!("legacy.panic:{name}"), format!("converting {name} to the legacy format panicked: {} at {}", p.message, vcore::panics::short_location(&p.location)), v.clone()));
    }
    f
}

/// application-visible outcome record (entropy-independent facts only)
pub fn outcome_record(out: &Outcome) -> Value {
    let s = &out.shared;
    json!({
        "handshake": s.handshake_ms.is_some(),
        "finished": out.finished,
        "jobs": s.jobs.iter().map(|j| json!({"kind": j.kind, "size": j.size, "wrote": j.wrote, "write_done": j.write_done, "read": j.read,
            "eof": j.eof, "bad": j.bad_at.is_some(), "write_err": j.write_err.is_some(), "read_err": j.read_err.is_some(), "open_err": j.open_err})).collect::<Vec<_>>(),
        "server_uni": s.server_uni.iter().map(|(sid, r)| json!([sid, r.0, r.1, r.2.is_some(), r.3.is_some()])).collect::<Vec<_>>(),
        // the client closes locally once its work is done: deterministic.  Whether the server has seen the
        // CONNECTION_CLOSE before the scenario is torn down depends on the loss of that one datagram, i.e. on
        // the library's own entropy (ciphertext bytes decide where bit flips land), so it is not part of the record.
        "client_term": s.client_term,
        "panics": out.panics.len(),
    })
}

fn differential(rep: &mut Report, rng: &mut Rng, sseed: u64) {
    // bounded faults that end early, clean close: the outcome is determined by the workload
    let mut case = c02::gen_bounded(rng, sseed);
    // keep it cheap: five runs of the same scenario
    for j in case.spec.jobs.iter_mut() {
        j.size = j.size.min(80_000);
    }
    // every other differential: a stray 0-RTT packet for this connection reaches the server (no 0-RTT keys:
    // it is dropped and logged as such) - dropping must look the same to the applications under every exporter
    if rng.bool() {
        case.spec.params.stray_0rtt_ms = Some(rng.range(20, 300));
        rep.count("scenarios_with_stray_0rtt_packet");
    }
    let configs: [(LogMode, bool, &str); 5] = [
        (LogMode::Noop, false, "no-qlog-call"),
        (LogMode::Noop, true, "noop-logger"),
        (LogMode::Capture, true, "capture"),
        (LogMode::Filtered, true, "capture-filtered"),
        (LogMode::Raw, true, "capture-raw"),
    ];
    let mut base: Option<(Value, &str)> = None;
    for (mode, with_qlog, label) in configs {
        let mut spec = case.spec.clone();
        spec.log = mode;
        spec.with_qlog = with_qlog;
        let out = scenario::run(&spec);
        let rec = outcome_record(&out);
        rep.count(&format!("differential_runs_{label}"));
        rep.add(&format!("events_seen_{label}"), out.events.len() as u64);
        for p in &out.panics {
            let loc = vcore::panics::short_location(&p.location);
            rep.violation(format!("C20.panic:{loc}"), format!("panic with exporter config {label}: {} at {loc}", p.message), json!({"kind": "c20-diff", "case": case.to_json(), "config": label}));
        }
        if mode == LogMode::Filtered {
            let leaked = out.events.iter().filter(|(_, e)| serde_json::to_value(e).ok().and_then(|v| v["name"].as_str().map(|n| n.contains("recovery"))).unwrap_or(false)).count();
            rep.add("filtered_events_that_passed_filter_check", out.events.len() as u64);
            if leaked > 0 {
                // schemes are namespaces like "quic:recovery_metrics_updated"; what the filter receives is decided by the library
                rep.add("filtered_scheme_events_still_emitted", leaked as u64);
            }
        }
        match &base {
            None => base = Some((rec, label)),
            Some((b, bl)) => {
                if *b != rec {
                    rep.violation(
                        format!("C20.differential:{label}"),
                        format!("application-visible outcome differs between exporter configs {bl} and {label}"),
                        json!({"kind": "c20-diff", "case": case.to_json(), "config": label, "base": b, "other": rec}),
                    );
                } else {
                    rep.count("differential_pairs_equal");
                }
            }
        }
    }
}

fn check_outcome_events(rep: &mut Report, out: &Outcome, ctx: &Value) {
    for (_vp, e) in &out.events {
        rep.count("events_checked");
        let fs = check_event(e, true);
        if let Ok(v) = serde_json::to_value(e) {
            if let Some(n) = v["name"].as_str() {
                rep.set("event_kinds", vcore::fnv_str(n));
                rep.count(&format!("kind_{}", n.replace(':', "_")));
                // distinct = (event kind, set of data keys)
                let keys: Vec<&String> = v["data"].as_object().map(|o| o.keys().collect()).unwrap_or_default();
                rep.distinct(vcore::fnv_str(&format!("{n}{keys:?}")));
            }
        }
        for (clause, what, sample) in fs {
            rep.violation(format!("C20.{clause}"), what, json!({"kind": "c20-event", "context": ctx, "event": sample}));
        }
    }
    for p in &out.panics {
        let loc = vcore::panics::short_location(&p.location);
        rep.violation(format!("C20.panic:{loc}"), format!("panic while logging was enabled: {} at {loc}", p.message), json!({"kind": "c20-event", "context": ctx}));
    }
}

pub fn run(args: &Args, rep: &mut Report) {
    rep.rule = "events: every qlog event captured from both vantage points of generated lossy scenarios; distinct = distinct (event name, set of data keys); \
                differential: one scenario x 5 exporter configurations, outcome records compared"
        .into();
    if let Some(path) = args.get("replay") {
        let v: Value = serde_json::from_str(&std::fs::read_to_string(path).unwrap()).unwrap();
        let v = if v.get("replay").is_some() { v["replay"].clone() } else { v };
        match v["kind"].as_str() {
            Some("c20-diff") => {
                let case = c02::Case::from_json(&v["case"]);
                let mut rng = Rng::new(case.spec.seed);
                let _ = &mut rng;
                // re-run all configurations of the recorded case
                let configs: [(LogMode, bool, &str); 5] = [(LogMode::Noop, false, "no-qlog-call"), (LogMode::Noop, true, "noop-logger"), (LogMode::Capture, true, "capture"), (LogMode::Filtered, true, "capture-filtered"), (LogMode::Raw, true, "capture-raw")];
                let mut base: Option<Value> = None;
                for (mode, with_qlog, label) in configs {
                    let mut spec = case.spec.clone();
                    spec.log = mode;
                    spec.with_qlog = with_qlog;
                    let out = scenario::run(&spec);
                    let rec = outcome_record(&out);
                    match &base {
                        None => base = Some(rec),
                        Some(b) if *b != rec => rep.violation(format!("C20.differential:{label}"), "outcome differs".to_string(), v.clone()),
                        _ => {}
                    }
                }
            }
            _ => {
                // event-level replay: re-run the recorded scenario context and re-check its events
                let case = c02::Case::from_json(&v["context"]);
                let out = scenario::run(&case.spec);
                check_outcome_events(rep, &out, &v["context"]);
            }
        }
        rep.evaluations += 1;
        return;
    }
    let thorough = args.get("tier") == Some("thorough");
    let shard = args.u64("shard", 0);
    let n = args.budget(if thorough { 60 } else { 3 });
    let mut rng = Rng::new(args.seed() ^ 0xc20).fork(shard);
    for i in 0..n {
        let sseed = rng.next_u64();
        let mut r = rng.fork(i);
        // (a) events of a lossy lifetime, alternating capture / raw
        let mut case = if i % 3 == 2 { c02::gen_unbounded(&mut r, sseed, 0) } else { c02::gen_bounded(&mut r, sseed) };
        case.spec.log = if i % 2 == 0 { LogMode::Capture } else { LogMode::Raw };
        if i % 3 == 1 {
            case.spec.params.stray_0rtt_ms = Some(r.range(20, 300));
            rep.count("scenarios_with_stray_0rtt_packet");
        }
        let out = scenario::run(&case.spec);
        rep.evaluations += 1;
        check_outcome_events(rep, &out, &case.to_json());
        if i == 0 {
            if let Some((vp, e)) = out.events.iter().find(|(_, e)| serde_json::to_value(e).ok().is_some_and(|v| v["name"] == "quic:packet_sent")) {
                rep.sample(json!({"vantage": format!("{vp:?}"), "event": serde_json::to_value(e).unwrap_or(Value::Null)}));
            }
        }
        // (a') a handshake that fails with a TLS alert (the client trusts another CA): close events with crypto error codes
        if i == 0 {
            let mut bad = c02::gen_bounded(&mut r, sseed ^ 0xbadca);
            bad.spec.params.wrong_ca = true;
            bad.spec.c2s = crate::sim::FaultProfile::default();
            bad.spec.s2c = crate::sim::FaultProfile::default();
            bad.spec.deadline = std::time::Duration::from_secs(5);
            bad.spec.clean_close = false;
            bad.spec.log = LogMode::Capture;
            let out = scenario::run(&bad.spec);
            rep.evaluations += 1;
            rep.count("tls_alert_scenarios");
            check_outcome_events(rep, &out, &bad.to_json());
        }
        // (b) differential
        differential(rep, &mut r, sseed ^ 0xd1ff);
        rep.evaluations += 5;
    }
}
