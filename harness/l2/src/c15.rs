//! C15 — an unvalidated address never receives more than 3x what it sent.
//!
//! The wire monitor inside SimNet keeps, for the server endpoint and the client's address, the
//! bytes delivered *from* that address and the bytes the server sent *to* it.  The address counts
//! as validated from the moment an intact client datagram containing a Handshake packet (or an
//! Initial with a non-empty token) was delivered to the server: the long-header type bits and the
//! Length field are not header-protected, so the monitor can see this on the wire without keys.
//! Until then `sent <= 3 * received` must hold after every single server send.
use std::{
    sync::{Arc, Mutex},
    time::Duration,
};

use serde_json::{Value, json};
use vcore::{Args, Report, Rng};

use crate::{
    scenario::{self, Job, JobKind, ParamCfg, Spec},
    sim::{Fate, FaultProfile},
    world::{LogMode, client_addr, server_addr},
};

#[derive(Default, Clone, Debug)]
struct Ledger {
    received: u64,
    sent: u64,
    validated_at_ms: Option<u64>,
    sends_checked: u64,
    sends_after_validation: u64,
    max_ratio_milli: u64,
    first_violation: Option<Value>,
    n_violations: u64,
    /// largest overdraft in bytes
    worst_over: u64,
    /// every overdrawn send so far was an Initial-bearing (padded) datagram
    only_initial_overdrafts: bool,
    last_rcv_ms: u64,
    blocked_since_ms: Option<u64>,
    /// delivery times of the first client datagrams
    rcv_times: Vec<u64>,
    /// the same ledger for the address the client's datagrams come from after a NAT rebinding (never validated:
    /// one datagram is forwarded from it, then the network drops everything)
    mig_received: u64,
    mig_sent: u64,
    mig_sends: u64,
    mig_first_violation: Option<Value>,
    mig_only_initial_overdrafts: bool,
    mig_worst_over: u64,
    mig_long_header: bool,
}

fn migrated_addr() -> std::net::SocketAddr {
    "10.0.0.2:6666".parse().unwrap()
}

#[derive(Clone, Debug)]
pub struct Case {
    pub label: String,
    pub class: String,
    pub spec: Spec,
}

impl Case {
    fn to_json(&self) -> Value {
        json!({"kind": "c15", "label": self.label, "class": self.class, "spec": self.spec.to_json()})
    }
    fn from_json(v: &Value) -> Case {
        Case { label: v["label"].as_str().unwrap_or("").into(), class: v["class"].as_str().unwrap_or("replay").into(), spec: Spec::from_json(&v["spec"]) }
    }
}

pub fn gen_case(rng: &mut Rng, seed: u64, horizon_ms: u64) -> Case {
    let mut params = ParamCfg::default();
    params.mtu = *rng.pick(&[1200usize, 1252, 1350, 1452, 1500]);
    // a large server flight (certificate chain) against a client whose Initial packet is large enough to be
    // credited for several datagrams: bursts of many segments with a binding credit
    params.cert_repeat = *rng.pick(&[1usize, 1, 4, 8, 12]);
    params.alpn_pad = *rng.pick(&[0usize, 0, 20, 36]);
    params.idle_client_ms = 120_000;
    params.idle_server_ms = 120_000;
    let lat = Duration::from_millis(*rng.pick(&[1u64, 10, 40, 100]));
    let mut c2s = FaultProfile { latency: lat, ..Default::default() };
    let mut s2c = FaultProfile { latency: lat, ..Default::default() };
    let (label, class) = match rng.below(7) {
        6 => {
            // established connection, transfer in progress: the client's 61st datagram arrives from another port
            // (NAT rebinding); that address sends nothing more and can never answer a challenge
            ("NAT rebinding after 60 client datagrams, one datagram forwarded from the new address".to_string(), "migrated-path")
        }
        0 | 1 => {
            let n = rng.range(1, 3);
            c2s.mute_after = Some(n);
            (format!("client mute after {n} datagram(s)"), "client-mute")
        }
        2 => {
            s2c.dead_from = Some(Duration::ZERO);
            ("server->client black hole (client keeps retransmitting)".to_string(), "replies-lost")
        }
        3 => {
            let n = rng.range(1, 4);
            c2s.mute_after = Some(n);
            s2c.loss = rng.range(200, 800) as u32;
            (format!("client mute after {n}, server->client loss {}‰", s2c.loss), "client-mute+loss")
        }
        4 => {
            // client's second..k-th datagrams are lost: Handshake-bearing datagrams never arrive for a while
            let k = rng.range(2, 12);
            c2s.drop_ordinals = (1..k).collect();
            (format!("client datagrams 1..{k} lost"), "handshake-acks-lost")
        }
        _ => {
            c2s.loss = rng.range(300, 900) as u32;
            s2c.loss = rng.range(0, 500) as u32;
            (format!("heavy loss c2s {}‰ s2c {}‰", c2s.loss, s2c.loss), "heavy-loss")
        }
    };
    let jobs = vec![Job { kind: JobKind::BidiEcho, size: rng.range(0, 50_000) as usize, chunk: 4096 }, Job { kind: JobKind::UniS2C, size: 200_000, chunk: 4096 }];
    Case {
        label: format!("{label}; mtu {}; latency {} ms; chain x{}; alpn pad {}", params.mtu, lat.as_millis(), params.cert_repeat, params.alpn_pad),
        class: class.into(),
        spec: Spec { seed, params, c2s, s2c, jobs, datagrams: vec![], log: LogMode::Noop, with_qlog: true, deadline: Duration::from_millis(horizon_ms), clean_close: false },
    }
}

fn run_case(case: &Case) -> (Ledger, scenario::Outcome) {
    let ledger = Arc::new(Mutex::new(Ledger::default()));
    // The observers are installed by a hook run right after the net exists: scenario::run creates
    // the SimNet itself, so we install through the global slot below.
    let l1 = ledger.clone();
    let l2 = ledger.clone();
    let sa = server_addr();
    let ca = client_addr();
    let rebind = case.class == "migrated-path";
    let hook: scenario::NetHook = Box::new(move |net: &crate::sim::SimNet| {
        let l1 = l1.clone();
        let l2 = l2.clone();
        net.with(|n| {
            n.keep_log = std::env::var("L2_KEEP_LOG").is_ok();
            if rebind {
                n.rebind = Some(crate::sim::Rebind { old: ca, new: migrated_addr(), after: 60, forward: 1, forwarded: 0 });
            }
            n.on_deliver = Some(Box::new(move |ev| {
                if ev.dst == sa && ev.src == migrated_addr() {
                    let mut g = l1.lock().unwrap();
                    g.mig_received += ev.len as u64;
                    // a Handshake (or Initial) packet from the new address is an address-validating event of its own;
                    // only a datagram of 1-RTT packets leaves the new address unvalidated
                    if ev.kinds != "s" {
                        g.mig_long_header = true;
                    }
                }
                if ev.dst == sa && ev.src == ca {
                    let mut g = l1.lock().unwrap();
                    g.received += ev.len as u64;
                    g.last_rcv_ms = ev.t.as_millis() as u64;
                    if g.rcv_times.len() < 64 {
                        let t = g.last_rcv_ms;
                        g.rcv_times.push(t);
                    }
                    if g.validated_at_ms.is_none() && (ev.kinds.contains('h') || (ev.kinds.contains('i') && ev.token_len > 0)) {
                        g.validated_at_ms = Some(ev.t.as_millis() as u64);
                    }
                }
            }));
            n.on_send = Some(Box::new(move |ev| {
                if ev.src == sa && ev.dst == migrated_addr() {
                    let mut g = l2.lock().unwrap();
                    g.mig_sent += ev.len as u64;
                    g.mig_sends += 1;
                    if g.mig_sent > 3 * g.mig_received {
                        if g.mig_first_violation.is_none() {
                            g.mig_only_initial_overdrafts = true;
                            g.mig_first_violation = Some(json!({"t_ms": ev.t.as_millis() as u64, "sent_total": g.mig_sent, "received_total": g.mig_received, "this_datagram": ev.len, "kinds": ev.kinds}));
                        }
                        if !ev.kinds.contains('i') {
                            g.mig_only_initial_overdrafts = false;
                        }
                        g.mig_worst_over = g.mig_worst_over.max(g.mig_sent - 3 * g.mig_received);
                    }
                }
                if ev.src == sa && ev.dst == ca {
                    let mut g = l2.lock().unwrap();
                    if g.validated_at_ms.is_some() {
                        g.sends_after_validation += 1;
                        return;
                    }
                    g.sent += ev.len as u64;
                    g.sends_checked += 1;
                    if g.received > 0 {
                        g.max_ratio_milli = g.max_ratio_milli.max(g.sent * 1000 / g.received);
                    }
                    if g.sent > 3 * g.received {
                        if g.n_violations == 0 {
                            g.only_initial_overdrafts = true;
                        }
                        if !ev.kinds.contains('i') {
                            g.only_initial_overdrafts = false;
                        }
                        g.n_violations += 1;
                        g.worst_over = g.worst_over.max(g.sent - 3 * g.received);
                        if g.first_violation.is_none() {
                            g.first_violation = Some(json!({"t_ms": ev.t.as_millis() as u64, "sent_total": g.sent, "received_total": g.received,
                                "this_datagram": ev.len, "kinds": ev.kinds, "server_send_ordinal": ev.ordinal, "fate": format!("{:?}", ev.fate)}));
                        }
                    }
                    let _ = Fate::Deliver;
                }
            }));
        });
    });
    let out = scenario::run_with(&case.spec, Some(hook));
    let l = ledger.lock().unwrap().clone();
    (l, out)
}

fn judge(rep: &mut Report, case: &Case, l: &Ledger, out: &scenario::Outcome) {
    rep.add("server_sends_checked_before_validation", l.sends_checked);
    rep.add("server_sends_after_validation", l.sends_after_validation);
    rep.add("bytes_received_from_unvalidated", l.received);
    rep.add("bytes_sent_to_unvalidated", l.sent);
    rep.max("max_ratio_milli", l.max_ratio_milli);
    if l.validated_at_ms.is_some() {
        rep.count("scenarios_reaching_validation");
    } else {
        rep.count("scenarios_never_validated");
    }
    if l.received > 0 && l.sent >= 2 * l.received {
        rep.count("scenarios_budget_over_two_thirds_used");
    }
    for p in &out.panics {
        let loc = vcore::panics::short_location(&p.location);
        rep.violation(format!("C15.panic:{loc}"), format!("panic: {} at {loc}", p.message), case.to_json());
    }
    // resumption: when only a finite prefix of the client's datagrams is lost, credit keeps arriving afterwards and
    // the server must resume sending: the handshake completes within the (virtual) horizon
    // (the client retransmits with exponential back-off, so the clause only applies when the first datagram after
    // the lost prefix arrived at least 8 virtual seconds before the horizon)
    let resumed_early = l.rcv_times.get(1).is_some_and(|t| t + 8000 <= case.spec.deadline.as_millis() as u64);
    if case.class == "handshake-acks-lost" && resumed_early {
        rep.count("resumption_scenarios");
        if out.shared.handshake_ms.is_none() {
            rep.violation(
                "C15.resume:handshake-stalled".to_string(),
                format!("the client's datagrams were delivered again after a finite loss, yet the handshake did not complete within {} virtual ms (server sent {} bytes for {} received before validation) [{}]", case.spec.deadline.as_millis(), l.sent, l.received, case.label),
                case.to_json(),
            );
        } else {
            rep.count("resumption_handshakes_completed");
        }
    }
    if case.class == "migrated-path" && l.mig_long_header {
        rep.count("migrated_path_scenarios_not_judged_rebinding_during_handshake");
    } else if case.class == "migrated-path" {
        if l.mig_received > 0 {
            rep.count("migrated_path_scenarios_with_a_datagram_from_the_new_address");
            rep.add("migrated_path_server_sends_checked", l.mig_sends);
            rep.add("migrated_path_bytes_received", l.mig_received);
            rep.add("migrated_path_bytes_sent", l.mig_sent);
        } else {
            rep.count("migrated_path_scenarios_without_client_traffic_at_rebinding");
        }
        if let Some(fv) = &l.mig_first_violation {
            let sig = if l.mig_only_initial_overdrafts && l.mig_worst_over < 1500 { "C15.budget:padded-initial-overdraft".to_string() } else { "C15.budget:migrated-path".to_string() };
            rep.violation(
                sig,
                format!("after a NAT rebinding the server sent {} bytes to the new, never validated address that had delivered {} bytes (first overdraft: {}; worst overdraft {} bytes) [{}]", l.mig_sent, l.mig_received, fv, l.mig_worst_over, case.label),
                case.to_json(),
            );
        }
    }
    if let Some(fv) = &l.first_violation {
        // An Initial-bearing datagram is padded to the full datagram size after the credit was applied, so the last
        // datagram of a flight may exceed what is left by less than one datagram: a recorded defect of its own.
        let sig = if l.only_initial_overdrafts && l.worst_over < 1500 { "C15.budget:padded-initial-overdraft".to_string() } else { format!("C15.budget:{}", case.class) };
        rep.violation(
            sig,
            format!(
                "server sent {} bytes to an unvalidated address that had delivered {} bytes (first overdraft: {}; {} overdrawn sends, worst overdraft {} bytes) [{}]",
                l.sent, l.received, fv, l.n_violations, l.worst_over, case.label
            ),
            case.to_json(),
        );
    }
}

pub fn run(args: &Args, rep: &mut Report) {
    rep.rule = "scenario = hostile-client schedule (mute after n datagrams / replies lost / handshake acks lost / heavy loss) x MTU x latency; \
                distinct = distinct (class, parameters) tuples; non-trivial = the server sent at least one datagram before the address was validated"
        .into();
    if let Some(path) = args.get("replay") {
        let v: Value = serde_json::from_str(&std::fs::read_to_string(path).unwrap()).unwrap();
        let v = if v.get("replay").is_some() { v["replay"].clone() } else { v };
        let case = Case::from_json(&v);
        let (l, out) = run_case(&case);
        rep.evaluations += 1;
        judge(rep, &case, &l, &out);
        if args.flag("dump") {
            for (vp, e) in out.events.iter().take(60) {
                if let Ok(j) = serde_json::to_value(e) {
                    let n = j["name"].as_str().unwrap_or("");
                    if n.contains("packet_sent") || n.contains("packet_received") || n.contains("closed") || n.contains("state") || n.contains("dropped") {
                        eprintln!("  {vp:?} {n} {}", serde_json::to_string(&j["data"]).unwrap_or_default().chars().take(260).collect::<String>());
                    }
                }
            }
            eprintln!("client_term {:?} server_term {:?} hs {:?}", out.shared.client_term, out.shared.server_term, out.shared.handshake_ms);
            for e in out.net.with(|n| n.sent.clone()) {
                eprintln!("{:>6} ms {} -> {} len {} ord {} kinds {} fate {:?}", e.t.as_millis(), e.src, e.dst, e.len, e.ordinal, e.kinds, e.fate);
            }
        }
        return;
    }
    let thorough = args.get("tier") == Some("thorough");
    let shard = args.u64("shard", 0);
    let n = args.budget(if thorough { 60 } else { 6 });
    let horizon = args.u64("horizon-ms", if thorough { 60_000 } else { 20_000 });
    let mut rng = Rng::new(args.seed() ^ 0xc15).fork(shard);
    for i in 0..n {
        let sseed = rng.next_u64();
        let mut r = rng.fork(i);
        let case = gen_case(&mut r, sseed, horizon);
        let (l, out) = run_case(&case);
        rep.evaluations += 1;
        if l.sends_checked > 0 {
            rep.distinct(vcore::fnv_str(&case.to_json().to_string()));
        }
        rep.set("classes", vcore::fnv_str(&case.class));
        if i < 2 {
            rep.sample(json!({"label": case.label, "received": l.received, "sent_before_validation": l.sent, "validated_at_ms": l.validated_at_ms,
                              "server_sends_checked": l.sends_checked, "max_ratio": l.max_ratio_milli as f64 / 1000.0}));
        }
        judge(rep, &case, &l, &out);
    }
}
