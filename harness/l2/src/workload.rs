//! Application workloads over a World: PRF-coded streams, echo / sink servers.
use std::time::Duration;

use dquic::prelude::*;
use tokio::io::{AsyncReadExt, AsyncWriteExt};
use vcore::{Args, Report};

use crate::{
    sim::FaultProfile,
    world::{World, WorldCfg, client_addr, run_paused, server_addr},
};

pub async fn echo_stream(mut reader: StreamReader, mut writer: StreamWriter) {
    let _ = tokio::io::copy(&mut reader, &mut writer).await;
    let _ = writer.shutdown().await;
}

pub async fn serve_echo(listeners: std::sync::Arc<QuicListeners>) {
    while let Ok((connection, _server, _pathway, _link)) = listeners.accept().await {
        tokio::spawn(async move {
            while let Ok((_sid, (reader, writer))) = connection.accept_bi_stream().await {
                tokio::spawn(echo_stream(reader, writer));
            }
        });
    }
}

pub fn smoke(args: &Args, rep: &mut Report) {
    let seed = args.seed();
    let size = args.u64("size", 100_000) as usize;
    let loss = args.u64("loss", 0) as u32;
    let t0 = std::time::Instant::now();
    let r = run_paused(Duration::from_secs(300), async move {
        let w = World::new(seed, WorldCfg::default()).await;
        let mut p = FaultProfile::default();
        p.loss = loss;
        w.net.set_profile_towards(server_addr(), p.clone());
        w.net.set_profile_towards(client_addr(), p);
        tokio::spawn(serve_echo(w.listeners.clone()));
        let conn = w.connect().await;
        let (_sid, (mut reader, mut writer)) = conn.open_bi_stream().await.unwrap().unwrap();
        let mut data = vec![0u8; size];
        vcore::prf_fill(seed, 1, 0, &mut data);
        let d2 = data.clone();
        let wr = async move {
            writer.write_all(&d2).await.unwrap();
            writer.shutdown().await.unwrap();
        };
        let rd = async move {
            let mut back = vec![];
            reader.read_to_end(&mut back).await.unwrap();
            back
        };
        let (_, back) = tokio::join!(wr, rd);
        let ok = back == data;
        let vt = w.net.now();
        let evs = w.events.events.lock().unwrap();
        let nev = evs.len();
        let mut names = std::collections::BTreeMap::new();
        for (vp, e) in evs.iter() {
            let v = serde_json::to_value(e).unwrap();
            let name = v["name"].as_str().unwrap_or("?").to_string();
            let c = names.entry(name.clone()).or_insert(0u32);
            *c += 1;
            if *c == 1 {
                eprintln!("{vp:?} {}", serde_json::to_string(&v).unwrap().chars().take(700).collect::<String>());
            }
        }
        eprintln!("{names:?}");
        (ok, vt, w.net.stats_json(), nev)
    });
    eprintln!("smoke: {:?} wall {:?}", r, t0.elapsed());
    rep.evaluations = 1;
}
